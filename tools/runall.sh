#!/bin/bash
# run every registered quick check on /repo's current tree; prints one line per property
cd /verif
for c in $(python3 -c "import json; print(' '.join(x['property_id'] for x in json.load(open('MANIFEST.json'))['checks']))") "$@"; do
  out=$(python3 -m vcheck run $c --tier ${TIER:-quick} 2>&1); rc=$?
  echo "rc=$rc $(echo "$out" | tail -1)"
  [ $rc -ne 0 ] && echo "$out" | grep -A1 "^VIOLATION" | head -6 | cut -c1-300
done
