#!/usr/bin/env python3
"""usage: seedtest.py <seed-dir> [Cxx ...]
Applies <seed-dir>/patch.diff to /repo, runs the quick checks of the given properties (default: the seed's property),
records which report a VIOLATION, and restores /repo (git checkout -- .)."""
import json, os, subprocess, sys
sd = os.path.abspath(sys.argv[1])
meta = json.load(open(os.path.join(sd, "meta.json")))
props = sys.argv[2:] or [meta["property"]]
assert subprocess.run(["git", "-C", "/repo", "status", "--porcelain", "--untracked-files=no"], capture_output=True, text=True).stdout.strip() == "", "/repo not clean"
r = subprocess.run(["git", "-C", "/repo", "apply", os.path.join(sd, "patch.diff")], capture_output=True, text=True)
if r.returncode != 0:
    print("patch does not apply:", r.stderr[:300]); sys.exit(2)
res = {}
try:
    for p in props:
        q = subprocess.run([sys.executable, "-m", "vcheck", "run", p, "--tier", "quick"], cwd="/verif", capture_output=True, text=True)
        lines = [l for l in q.stdout.splitlines() if l.startswith("VIOLATION") or l.startswith("  rule")]
        res[p] = {"rc": q.returncode, "violations": sum(1 for l in lines if l.startswith("VIOLATION")), "first": [l[:400] for l in lines[:4]]}
finally:
    subprocess.run(["git", "-C", "/repo", "checkout", "--", "."], check=True)
print(json.dumps({"seed": os.path.basename(sd), "results": res}, indent=1))
json.dump(res, open(os.path.join(sd, "detect.json"), "w"), indent=1)
