#!/usr/bin/env python3
"""Regenerate /verif/MANIFEST.json from the table below (kept in one place so it stays valid)."""
import json
import os

VERIF = os.path.dirname(os.path.dirname(os.path.abspath(__file__)))

TB = ("rustc (nightly 1.97) parsing, macro expansion, type checking and MIR construction; syn; the Python rule engine; the "
      "hand-written oracle tables under spec/ (each entry carries its reason)")

CLAIMS = {
    "C07": {
        "technique": "static analysis: per-renderer shape and table rules (format strings, match arms, mask-bit name tables) from the syntax tree, pinned snapshot, spec generator table",
        "text": "Line format holes and order; the module walk visits header, every global section and every function part in assembly order with nothing skipped; each of the 64 operand variants is "
                "rendered by the renderer the statement prescribes (all 15 masks through the generated specification-name tables); the mask name tables are complete, in bit order and equal the "
                "flag declarations and the snapshot; typed literal table; extended-instruction naming; generator table. Global injectivity of the text is decided only through these necessary conditions.",
        "design_ref": "DESIGN.md 3/C07", "note": TB + "; std formatting of integers/floats/strings",
    },
    "C18": {
        "technique": "static analysis: positional-mapping rule over every generated lift arm joined with spirv::Op, the grammar table, the sr declarations and the Builder; path conditions of the walk's append sites",
        "text": "Each of the 758+ lift arms: numeric opcode, variant name, fields written in declaration order, n-th field consuming the n-th grammar operand with matching variant and optionality, "
                "names consistent with the Builder; LiftContext::convert's append/push sites with their exact path conditions, sources of version/capabilities/memory model/function fields. "
                "Success of lifting (it panics by design on unsupported input) and equality of lifted values are not decided.",
        "design_ref": "DESIGN.md 3/C18", "note": TB,
    },

    "C01": {
        "technique": "static analysis: composition of structural preconditions - codec table agreement, loader abstract interpretation, append-only and cast census from MIR, traversal/assembly order",
        "text": "Decides the structural preconditions of the round trip on the current source: codec pairing (C02's rules), every accepted instruction moved into exactly one container and the "
                "loader's automaton (C05's rules), the loader only appends (MIR census), the assembler reads every container the loader writes in logical-layout order (C15's rules + coverage join), "
                "header rebuilt from version/bound and emitted in order, framing, no lossy narrowing cast between decoding and storing. The equality `for all accepted B` itself is not computed.",
        "design_ref": "DESIGN.md 3/C01", "note": TB,
    },
    "C04": {
        "technique": "static analysis: panic reachability - whole-workspace call graph from resolved MIR callees, census of assert terminators and may-panic std calls, audit table with machine-checked guards",
        "text": "From the public entry points, every panic-capable construct in every reachable function (compiler-inserted overflow/bounds/division asserts, may-panic std calls, panic!/assert! "
                "expansions) must match an audit entry with the audited count, every external callee must be classified, each entry's discharge (dominating guard, table fact, rule of C05/C09/C11) is "
                "re-derived on each run; exactly one unsafe block with the audited shape; progress of the operand loop; no recursion outside the module walk. Allocation failure, stack depth, "
                "panicking caller-supplied impls are outside the claim.",
        "design_ref": "DESIGN.md 3/C04, Appendix C", "note": TB + "; O-STD classification and O-AUDIT reasons (vcheck/audit.py)",
    },
    "C19": {
        "technique": "static analysis: MIR mutation census of Storage.data and Token construction sites, visibility facts, normalised shape of append/fetch_or_append/Index",
        "text": "Storage.data is mutated only by append (one Vec::push), tokens are built only by Token::new (crate::sr-visible), append returns the pre-push length, fetch_or_append is "
                "first-equal-else-append with the caller's PartialEq, Index reads data[token.index], index type at least 32 bits, LiftStorage uses only append/Index: density, stability and "
                "first-equal semantics then hold for every history.",
        "design_ref": "DESIGN.md 3/C19", "note": TB + "; Vec::push/Iterator::position semantics",
    },
    "C20": {
        "technique": "static analysis: shape rule on main(), panic reachability from main over the workspace call graph (O-STD/O-AUDIT), totality of the error Display impls",
        "text": "main reads the named file, then a single match on load_bytes prints the disassembly or the error with println!, nothing else, no explicit exit, returns (); no unaudited "
                "panic-capable site is reachable from main (C04's census extended with main's own sites); error messages are total one-liners. A closed stdout is outside the claim.",
        "design_ref": "DESIGN.md 3/C20", "note": TB + "; clap exits with a usage message when the required argument is missing (outside the quantifier)",
    },

    "C03": {
        "technique": "static analysis: decision tables of parse_header/parse_inst/parse_operands from path conditions of every result site (syntax tree), MIR field-write census, C14's CFG rules",
        "text": "The header, framing and quantifier decision tables are extracted (each result site with the semantic atoms that hold on its path) and compared with the statement's tables; "
                "error payloads, limit bracketing, split of the first word, the single writer of the instruction counter, rejection of undeclared enumerants by every typed decoder method, "
                "and parameter quantifiers are checked by shape; delivery order/exactly-once/stop-at-first-error are the CFG rules of C14. Numeric offsets beyond these shapes are not decided.",
        "design_ref": "DESIGN.md 3/C03, B.4", "note": TB + "; with C09 (row well-formedness) the quantifier table is the grammar's language",
    },
    "C10": {
        "technique": "static analysis: evaluation of parse_literal's match nest over all (type kind, width) equivalence classes, path conditions of the tracker's insertion sites, CFG dominance, statics census",
        "text": "Width table of parse_literal decided for every equivalence class of (kind, width); the three insertion sites of the type tracker with their conditions and values; wiring of result "
                "type / selector id into parse_literal; tracking dominates delivery in Parser::parse; fresh tracker per parser and no mutable/interior-mutable/thread-local static; assembler encodings. "
                "The per-history statement is the composition of these clauses.",
        "design_ref": "DESIGN.md 3/C10", "note": TB + "; HashMap semantics",
    },
    "C11": {
        "technique": "static analysis: MIR who-may-write census of Decoder fields, bound-guard rule for every offset advance, decision table of word(), shape rules for limit bookkeeping and string()",
        "text": "Only word()/string() advance the offset and every advance is dominated by a condition bounding it by the buffer; word()'s result sites with their path conditions equal the statement's "
                "table (failure leaves the offset untouched and reports it); limit bookkeeping and string()'s clamped window/charging by shape; all typed requests delegate to word() once per word.",
        "design_ref": "DESIGN.md 3/C11", "note": TB + "; from_le_bytes/from_utf8 (std); string() rules recognise the current idiom and fail closed on others",
    },
    "C14": {
        "technique": "static analysis: dominator/reachability/value-flow rules on the MIR control-flow graph of Parser::parse, who-may-call census of the Consumer callbacks",
        "text": "Exactly one call site per callback (resolved callees, whole crate); each callback result flows into Action::consume and `?`, with no callback reachable from the Break edge; protocol "
                "order by dominance; finalize reachable only through the edge where parse_inst's error is State::Complete; Action::consume table; single guarded construction site of State::Complete; "
                "load_* return the module only after `?`.",
        "design_ref": "DESIGN.md 3/C14", "note": TB + "; MIR built with -Zmir-opt-level=0",
    },

    "C12": {
        "technique": "static analysis: abstract interpretation of all public Builder methods over the selection typestate, reachable-state closure, MIR who-may-write census",
        "text": "All 1160+ public Builder methods are abstractly interpreted in every selection state reachable from Builder::new() (unknown data forks, calls inlined): no panicking path, the "
                "invariant block-selected => function-selected-and-index-valid holds in every reachable state (violations are reported as the shortest call history), the guard table of the "
                "statement holds cell by cell, and no Err path has modified the module's instructions. Offsets within the block are assumed as the statement says.",
        "design_ref": "DESIGN.md 3/C12, B.3", "note": TB + "; sound only for the idioms the interpreter recognises - anything else fails closed",
    },

    "C06": {
        "technique": "static analysis: symbolic reading of all 1121 instruction-emitting Builder methods joined with the loader's abstractly interpreted automaton and the grammar table",
        "text": "For every instruction-emitting Builder method: the container it emits into equals the container the loader files that opcode into in the corresponding state (R-SECT); "
                "the instruction it builds matches the opcode's grammar row operand for operand, with the parser's variants, quantifier forms and parameters in signature order (R-SLOT); "
                "names/docs tie methods to opcodes; version packing functions are inverse. Equality for all argument values is not computed.",
        "design_ref": "DESIGN.md 3/C06", "note": TB + "; relies on C05 (loader automaton) and C02 (codec) holding",
    },
    "C13": {
        "technique": "static analysis: who-may-write census of Builder.next_id from MIR, id-source rule over every emitting method, normalised shape of the dedup branch",
        "text": "Only id() writes next_id (MIR field-write census), id() returns the pre-increment value, new/new_from_module/module() seed and store it; every emitted result id is "
                "the explicit id or self.id(); each of the 33 implicit-type methods is the explicit/found/fresh three-way branch; dedup_insert_type and is_type_identical by shape. "
                "Counter wrap-around and colliding caller-chosen ids are outside the claim.",
        "design_ref": "DESIGN.md 3/C13", "note": TB,
    },

    "C02": {
        "technique": "static analysis: table agreement between parser arms, decoder methods and assembler arms (syntax-tree extraction), interval interpretation of from_u32, pinned snapshot",
        "text": "Decides the codec pairing for all 70 operand kinds, 64 Operand variants, every typed decoder method and every enumerant/bit parameter list: "
                "each (kind, variant, decoder method) triple has matching payload types and mutually inverse encodings, the five special kinds are intercepted, "
                "instruction framing order/word count (also evaluated on real instruction values with concrete ids, 32/64-bit literals and ASCII / non-ASCII strings, with and without result "
                "type and id), string and 64-bit word layout. Structural necessary conditions of parse(assemble(x)) == x; the value equality itself is not computed.",
        "design_ref": "DESIGN.md 3/C02", "note": TB + "; bitflags from_bits/bits; std from_le_bytes/from_utf8",
    },
    "C05": {
        "technique": "static analysis: abstract interpretation of Loader::consume_instruction/finalize over 787 opcodes x 4 typestates, symbolic evaluation of the opcode predicates",
        "text": "Extracts the loader's complete transition/outcome table by abstract interpretation (every opcode in every (function open, block open) state; guards resolved by evaluating "
                "grammar::reflect symbolically) and compares it with the reference automaton of the property statement; also reachability of the bad state, absence of failing unwraps in "
                "reachable states, single move of the instruction. Exhaustive at the abstraction the statement uses.",
        "design_ref": "DESIGN.md 3/C05, B.2", "note": TB + "; the reference automaton and opcode classes are transcribed by hand from the statement / SPIR-V spec",
    },
    "C09": {
        "technique": "static analysis: table rules over all rows of the expanded instruction tables, normalised lookup-closure shape, pinned snapshot",
        "text": "Bijection between table rows and opcode enum variants (so lookup over all 65536 numbers is decided by the equality shape of the six lookup functions), well-formedness "
                "of all 1030 rows, equality of kinds/quantifiers/capabilities/extensions with the pinned snapshot, and the table facts other checks rely on.",
        "design_ref": "DESIGN.md 3/C09", "note": TB + "; O-SNAP stands in for the Khronos JSON grammar, which is not in the sandbox",
    },
    "C15": {
        "technique": "static analysis: sequence extraction from iterator chains and assemble_into statement lists, compared with each other and the logical layout",
        "text": "The six traversal methods and four assemble_into impls are normalised to field-path sequences and must coincide, cover every instruction-typed field and follow the logical layout; "
                "mutable twins differ only in mutability. The property is about code shape and is decided in full.",
        "design_ref": "DESIGN.md 3/C15", "note": TB + "; Iterator::chain/flat_map semantics",
    },
    "C16": {
        "technique": "static analysis: symbolic evaluation of every opcode predicate into an explicit set over all 787 opcodes, compared with specification classes; Builder who-ends-the-block rule",
        "text": "Each predicate is evaluated to its exact opcode set and compared with required/allowed class sets (spec tables cross-checked with the Builder's class-partitioned files); "
                "derived predicates must equal the stated unions, base classes be disjoint, and the Builder end the block for exactly the terminator opcodes. Exhaustive over opcodes x predicates.",
        "design_ref": "DESIGN.md 3/C16, B.1", "note": TB + "; O-SPEC class tables transcribed from the SPIR-V specification",
    },
    "C17": {
        "technique": "static analysis: table extraction from match arms of the reflection functions, joined with the parser's parameter tables and the pinned snapshot",
        "text": "additional_operands is compared enumerant-by-enumerant / bit-by-bit with what parse_*_arguments consumes (through the parser's own kind->variant table) and with the snapshot; "
                "required capabilities/extensions with the snapshot; id_ref_any[_mut], From<T>, unwrap_* by shape for all variants. Value-level round trips are not computed.",
        "design_ref": "DESIGN.md 3/C17", "note": TB + "; O-SNAP for capabilities/extensions (single in-repo projection)",
    },

    "C08": {
        "technique": "static analysis: interval interpretation of every from_u32 over all 2^32 inputs, MIR transmute/unsafe census, "
                     "FromStr/alias/bitflags table rules, pinned grammar snapshot",
        "text": "Decides, from the expanded syntax tree and the type-checked MIR of the current tree, that every from_u32 accepts "
                "exactly the declared discriminants and only ever transmutes declared values to the right enum (exhaustive over 2^32 "
                "by interval reasoning), that every FromStr maps exactly names and aliases, that every mask's FLAGS table is exactly its "
                "named constants, that the decoder goes through from_u32/from_bits, and that all names/numbers equal the pinned snapshot. "
                "Structural decision of the code shape; no value is computed by running rspirv.",
        "design_ref": "DESIGN.md 3/C08",
        "note": TB + "; bitflags 2.x semantics of from_bits; O-SNAP equals the Khronos grammar only as far as the pinned generated "
                     "files did (the JSON is not in the sandbox)",
    },
}

EV = ("evaluation of the function's expanded syntax tree on abstract inputs by the rule engine's own evaluator (vcheck/symeval.py; no rspirv code is "
      "compiled into or executed by the check; unknown constructs fail closed)")

# second phase (DESIGN.md 9.5): the deciding step of these rules is an evaluation on abstract inputs instead of a statement-shape match
UPDATES = {
    "C01": {"technique": "static analysis: composition of structural preconditions - codec table agreement, loader typestate table, append-only and cast census from MIR, "
                         "traversal/assembly sequences and header handling by " + EV,
            "text": "Decides the structural preconditions of the round trip on the current source: codec pairing (C02's rules), every accepted instruction moved into exactly one container and the "
                    "loader's automaton (C05's rules), the loader only appends (MIR census), Module::assemble_into emits every container the loader writes, in logical-layout order, on an abstract "
                    "module (C15's rules), parse_header/ModuleHeader::new/set_version/assemble_into evaluated on byte-lane words (bound = word 3, version bytes of word 1, five words in order), "
                    "framing, no lossy narrowing cast between decoding and storing. The equality `for all accepted B` itself is not computed."},
    "C03": {"technique": "static analysis: parse_header, parse_inst, parse_operands, parse_spec_constant_op and Decoder::words decided by " + EV + "; MIR field-write census; C14's rules",
            "text": "parse_header on the four abstract outcomes of reading the header; parse_inst against a scripted decoder (no word / word count 0 / unknown opcode / operand error / words left / "
                    "well-formed, word count 1 and 0x8421, at byte 0 and 1000) with results, error payloads and the set_limit-parse_operands-limit_reached-clear_limit bracket compared with the "
                    "statement; parse_operands on all operand lists of length <= 3 over the three quantifiers x 0..4 words and on the five special rows; the single writer of the instruction "
                    "counter; rejection of undeclared enumerants by every typed decoder method and parameter quantifiers by table rules. Small-scope evaluation, not a proof over all word values."},
    "C04": {"technique": "static analysis: panic reachability - whole-workspace call graph from resolved MIR callees, census of assert terminators and may-panic std calls; each site discharged by "
                         "an audit entry with a machine-checked reason, by interval analysis, or because its function is evaluated on all its abstract inputs without reaching a panic",
            "text": "From the public entry points, every panic-capable construct in every reachable function (compiler-inserted overflow/bounds/division asserts, may-panic std calls, panic!/assert! "
                    "expansions) must be discharged: by the evaluation of its function (Decoder requests incl. limits whose byte count overflows usize, parse_header, parse_inst at the smallest "
                    "offset/word count, load_*, trackers, disas_ext_inst), by interval analysis of small operands, or by an audit entry whose guard/table fact/rule of C05/C09/C11 is re-derived on each "
                    "run; every external callee must be classified; exactly one unsafe block whose from_raw_parts arguments are evaluated; progress of the operand loop; no recursion outside the "
                    "module walk. Allocation failure, stack depth, panicking caller-supplied impls are outside the claim."},
    "C05": {"technique": "static analysis: Loader::consume_instruction/finalize evaluated for all 787 opcodes x 4 typestates on a Loader value built from Loader::new() (" + EV + "); "
                         "opcode predicates decided per opcode",
            "text": "Extracts the loader's complete transition/outcome table (every opcode in every (function open, block open) state: error variant, or the single container the instruction value ends "
                    "up in, objects created/handed over, next state) and compares it with the reference automaton of the property statement; also reachability of the bad state, absence of failing "
                    "unwraps in reachable states, single move of the instruction. The instruction is shaped after its grammar row with unknown operand payloads (a placement that depends on a "
                    "payload is reported), an equal instruction already sits in every list, and every case is repeated with a finished function in the module and a finished block in the "
                    "open function (the outcome must not differ). Histories are covered through the automaton states plus these variants, not enumerated."},
    "C06": {"technique": "static analysis: every instruction-emitting Builder method summarised (generated ones by their template shape, hand-written ones by " + EV + ") and joined with the "
                         "loader's table and the grammar table",
            "text": "For every instruction-emitting Builder method: the container it emits into equals the container the loader files that opcode into in the corresponding state (R-SECT); "
                    "the instruction it builds matches the opcode's grammar row operand for operand, with the parser's variants, quantifier forms and parameters in signature order, with every "
                    "optional argument alone present/absent for hand-written methods (R-SLOT); names/docs tie methods to opcodes; set_version/version evaluated with the helpers inlined. "
                    "Equality for all argument values is not computed."},
    "C07": {"technique": "static analysis: every renderer (line format, module/function/block walks, operand renderer, typed literals, OpExtInst naming, header text, generator table) decided by "
                         + EV + "; mask-bit name tables and Display arms (generated code) by table rules and pinned snapshot",
            "text": "Line format holes and order; Module::disassemble on an abstract module (one instruction per section; complete function, function without definition but with parameters, "
                    "unlabelled and empty blocks; with and without header) renders exactly header, every global (OpConstant typed after all of types_global_values was tracked), and per function "
                    "definition, parameters, labels, instructions (OpExtInst named after all imports were tracked), end, joined by newlines; the ExtInstSetTracker evaluated on a real tracker value over every "
                    "history of up to three track() calls (two ids, both known sets, an unknown set, no result id, a non-import), what it knows read off through its own have()/resolve(); each of the 64 operand variants is rendered by the renderer "
                    "the statement prescribes; mask name tables complete, in bit order, equal to the flag declarations and the snapshot; typed literal table; generator table. Global injectivity of "
                    "the text is decided only through these necessary conditions."},
    "C10": {"technique": "static analysis: parse_literal, TypeTracker::track/resolve/new and Parser::new decided by " + EV + " over all (type kind, width) classes and every operand list the "
                         "grammar rows of OpTypeInt/OpTypeFloat allow; CFG dominance; statics census",
            "text": "Width table of parse_literal for every equivalence class of (kind, width); what the tracker records for OpTypeInt/OpTypeFloat (with and without optional operands), typed and "
                    "untyped instructions; resolve is a pure lookup; wiring of result type / selector id into parse_literal; each instruction is tracked before the next one is parsed; fresh empty "
                    "tracker per parser and no mutable/interior-mutable/thread-local static; assembler/decoder word layout of 32/64-bit literals. The per-history statement is the composition of "
                    "these clauses."},
    "C11": {"technique": "static analysis: MIR who-may-write census of Decoder fields; word() over (limit class x remaining-bytes class) with linear offsets; string(), words(n), bit64 and the "
                         "one-word requests by small-scope " + EV,
            "text": "Only word()/string() advance the offset; word()'s outcome table; string() in every state of 0..13 bytes left x limit none/0..4/2^62/2^64-1 x first NUL at every position "
                    "(padded or followed by non-zero bytes) x valid/invalid UTF-8 returns exactly the bytes before the NUL, advances by whole words within the buffer, charges the limit, never "
                    "slices out of range or overflows, and reports LimitReached only when the limit ended the scan; words(n)/bit64/id/bit32 equal n successive word() requests stopping at the "
                    "first failure; generated typed requests call word() once. A small scope with period-4 arithmetic, not a proof over all lengths."},
    "C12": {"technique": "static analysis: small-scope evaluation of all public Builder methods over the selection typestate (" + EV + "), reachable-state closure, MIR who-may-write census",
            "text": "All 1160+ public Builder methods are evaluated in every selection state reachable from Builder::new(), each state represented by concrete builders over <= 2 functions x <= 2 "
                    "blocks, with Option<usize> arguments in {None, 0, 1, 9}, the four insert points and optional arguments absent/present: no panicking path, the invariant block-selected => "
                    "function-selected-and-index-valid holds in every reachable state (violations are reported with the call history), the guard table of the statement holds cell by cell, and no "
                    "Err path has modified the module's instructions. Offsets within the block are assumed as the statement says."},
    "C13": {"technique": "static analysis: who-may-write census of Builder.next_id and census of Builder constructions from MIR; id(), new, new_from_module, module(), ModuleHeader::new by "
                         + EV + "; id-source rule over every emitting method; decision table of the dedup branch",
            "text": "Only id() writes next_id and only new/new_from_module/default construct a Builder (MIR); id() returns the pre-increment value; new starts at 1, new_from_module at the header "
                    "bound, module() stores next_id as the bound; every emitted result id is the explicit id or one self.id() (no id allocated and dropped); each of the 33 implicit-type methods "
                    "is the explicit/found/fresh three-way decision. Counter wrap-around and colliding caller-chosen ids are outside the claim."},
    "C14": {"technique": "static analysis: Parser::parse evaluated against scripted consumers, header results and instruction streams (" + EV + "); who-may-call census and dominator rules on "
                         "the MIR control-flow graph; load_*/parse_* entry points evaluated",
            "text": "Exactly one call site per callback, in Parser::parse (resolved callees, whole crate); with every callback position answering continue/stop/error, header readable or not, "
                    "streams of 0 or 2 instructions or a parse error at the first/second, the callbacks made and the result are exactly the protocol's (finalize only after completion, stop -> "
                    "ConsumerStopRequested, error -> ConsumerError(value), parse errors returned as is, nothing called afterwards); protocol order by dominance for streams of any length; "
                    "Action::consume table; single guarded construction site of State::Complete; load_* hand out the module only when parse_* returned Ok."},
    "C15": {"technique": "static analysis: the six traversals and the assemble_into impls of Module/Function/Block decided by " + EV + " on abstract modules; struct declarations read for coverage",
            "text": "On an abstract module with one distinct instruction in every declared section and four functions (complete; no definition but parameters with an unlabelled and an empty "
                    "block; definition only; no definition/parameters), with and without header/memory model, every traversal visits and every assemble_into emits exactly the logical-layout "
                    "sequence computed from the module value; mutable twins equal their read-only counterparts; header words in order."},
    "C19": {"technique": "static analysis: MIR mutation census of Storage.data and Token construction sites, visibility facts; Storage::{new, append, fetch_or_append, Index} and "
                         "LiftStorage::{new, append_id, lookup*, unwrap} decided by " + EV + " on every bounded history",
            "text": "Storage.data is mutated only by append (one Vec::push), tokens are built only by Token::new (crate::sr-visible), index type at least 32 bits. Every history of up to four "
                    "append / fetch_or_append operations over two ordinary values and one unequal to itself, on a value built by Storage::new(): each append returns the token whose index is the "
                    "number of values stored before, fetch_or_append returns the token of the first equal stored value or appends, lookups through every token handed out so far yield its value. "
                    "Where the methods are written as len/push/Token::new(len) and position(|d| d == &value) the same holds symbolically for histories of any length. LiftStorage: every history of "
                    "up to three append_id over two ids and two values (dense tokens, repeated id panics, lookups of used / unused ids). Histories longer than the bound with code not in the symbolic "
                    "idiom, and index truncation past 2^32 elements, are not decided."},
    "C20": {"technique": "static analysis: main() decided by " + EV + " with the file system, clap and load_bytes as hooks; panic reachability from main over the workspace call graph; totality of the "
                         "error Display impls"},
}
for _k, _v in UPDATES.items():
    CLAIMS[_k].update(_v)

NA_REASON = "no check registered yet in this revision (work in progress; see DESIGN.md 8)"

ALL = ["C%02d" % i for i in range(1, 21)]


def main():
    checks = []
    for pid in ALL:
        if pid not in CLAIMS:
            continue
        c = CLAIMS[pid]
        checks.append({
            "property_id": pid,
            "quick_cmd": "python3 -m vcheck run %s --tier quick" % pid,
            "thorough_cmd": "python3 -m vcheck run %s --tier thorough" % pid,
            "evidence_file": "/verif/evidence/%s.json" % pid,
            "replay_cmd_template": "python3 -m vcheck explain {path}",
            "engine": "vcheck",
            "level_claimed": {"category": "other", "text": c["text"], "design_ref": c["design_ref"]},
            "level_note": c["note"],
            "technique": c["technique"],
        })
    na = [{"property_id": p, "reason": CLAIMS.get(p, {}).get("na", NA_REASON)} for p in ALL if p not in CLAIMS]
    m = {
        "version": 1,
        "setup_cmd": "cd /verif/engines/astfacts && CARGO_NET_OFFLINE=true cargo build --release --offline && "
                     "cd /verif/engines/mirfacts && CARGO_NET_OFFLINE=true cargo build --release --offline",
        "hooks": {
            "guard": "rspirv_verif",
            "enable": "none needed: the analysis reads the unmodified sources (no hooks or instrumentation were added to /repo)",
            "baseline_off_cmd": "cd /repo && cargo test --workspace --no-fail-fast --offline",
            "source_commits": [],
            "add_only": True,
        },
        "engines": [
            {"name": "astfacts", "path": "/verif/engines/astfacts", "serves_properties": ALL,
             "kind_free_text": "syn-based dump of the compiler-expanded source (cargo +nightly rustc -Zunpretty=expanded) as JSON syntax trees"},
            {"name": "mirfacts", "path": "/verif/engines/mirfacts", "serves_properties": ALL,
             "kind_free_text": "rustc_private driver (RUSTC_WORKSPACE_WRAPPER under cargo +nightly check): MIR CFG, resolved call edges, "
                               "assert terminators, field writes/borrows, casts, unsafe blocks, discriminants, visibilities"},
            {"name": "vcheck", "path": "/verif/vcheck", "serves_properties": ALL,
             "kind_free_text": "Python rule engine: per-property static rules over the extracted facts (table rules, MIR censuses and CFG rules, and an evaluator "
                               "of the expanded syntax tree on abstract inputs), oracles under /verif/spec"},
        ],
        "checks": checks,
        "not_applicable": na,
        "notes": "Technique family: static analysis only. Every check re-extracts facts from /repo's current working tree (cache keyed by "
                 "a content hash of all sources), never executes rspirv code, and reports file/function/instance for each violation. "
                 "Each check decides the structural clauses listed in DESIGN.md 3, not the run-time behaviour as a whole; clauses not "
                 "decided are listed in DESIGN.md 4. Where a rule evaluates a function on abstract inputs (DESIGN.md 9.5) the evaluator is part of "
                 "the rule engine and works on the extracted syntax tree; small integer scopes are stated in the evidence.",
    }
    with open(os.path.join(VERIF, "MANIFEST.json"), "w") as fh:
        json.dump(m, fh, indent=1)
    print("MANIFEST.json: %d checks, %d not_applicable" % (len(checks), len(na)))


if __name__ == "__main__":
    main()
