#!/usr/bin/env python3
"""Regenerate /verif/MANIFEST.json from the table below (kept in one place so it stays valid)."""
import json
import os

VERIF = os.path.dirname(os.path.dirname(os.path.abspath(__file__)))

TB = ("rustc (nightly 1.97) parsing, macro expansion, type checking and MIR construction; syn; the Python rule engine; the "
      "hand-written oracle tables under spec/ (each entry carries its reason)")

CLAIMS = {
    "C08": {
        "technique": "static analysis: interval interpretation of every from_u32 over all 2^32 inputs, MIR transmute/unsafe census, "
                     "FromStr/alias/bitflags table rules, pinned grammar snapshot",
        "text": "Decides, from the expanded syntax tree and the type-checked MIR of the current tree, that every from_u32 accepts "
                "exactly the declared discriminants and only ever transmutes declared values to the right enum (exhaustive over 2^32 "
                "by interval reasoning), that every FromStr maps exactly names and aliases, that every mask's FLAGS table is exactly its "
                "named constants, that the decoder goes through from_u32/from_bits, and that all names/numbers equal the pinned snapshot. "
                "Structural decision of the code shape; no value is computed by running rspirv.",
        "design_ref": "DESIGN.md 3/C08",
        "note": TB + "; bitflags 2.x semantics of from_bits; O-SNAP equals the Khronos grammar only as far as the pinned generated "
                     "files did (the JSON is not in the sandbox)",
    },
}

NA_REASON = "no check registered yet in this revision (work in progress; see DESIGN.md 8)"

ALL = ["C%02d" % i for i in range(1, 21)]


def main():
    checks = []
    for pid in ALL:
        if pid not in CLAIMS:
            continue
        c = CLAIMS[pid]
        checks.append({
            "property_id": pid,
            "quick_cmd": "python3 -m vcheck run %s --tier quick" % pid,
            "thorough_cmd": "python3 -m vcheck run %s --tier thorough" % pid,
            "evidence_file": "/verif/evidence/%s.json" % pid,
            "replay_cmd_template": "python3 -m vcheck explain {path}",
            "engine": "vcheck",
            "level_claimed": {"category": "other", "text": c["text"], "design_ref": c["design_ref"]},
            "level_note": c["note"],
            "technique": c["technique"],
        })
    na = [{"property_id": p, "reason": CLAIMS.get(p, {}).get("na", NA_REASON)} for p in ALL if p not in CLAIMS]
    m = {
        "version": 1,
        "setup_cmd": "cd /verif/engines/astfacts && CARGO_NET_OFFLINE=true cargo build --release --offline && "
                     "cd /verif/engines/mirfacts && CARGO_NET_OFFLINE=true cargo build --release --offline",
        "hooks": {
            "guard": "rspirv_verif",
            "enable": "none needed: the analysis reads the unmodified sources (no hooks or instrumentation were added to /repo)",
            "baseline_off_cmd": "cd /repo && cargo test --workspace --no-fail-fast --offline",
            "source_commits": [],
            "add_only": True,
        },
        "engines": [
            {"name": "astfacts", "path": "/verif/engines/astfacts", "serves_properties": ALL,
             "kind_free_text": "syn-based dump of the compiler-expanded source (cargo +nightly rustc -Zunpretty=expanded) as JSON syntax trees"},
            {"name": "mirfacts", "path": "/verif/engines/mirfacts", "serves_properties": ALL,
             "kind_free_text": "rustc_private driver (RUSTC_WORKSPACE_WRAPPER under cargo +nightly check): MIR CFG, resolved call edges, "
                               "assert terminators, field writes/borrows, casts, unsafe blocks, discriminants, visibilities"},
            {"name": "vcheck", "path": "/verif/vcheck", "serves_properties": ALL,
             "kind_free_text": "Python rule engine: per-property static rules over the extracted facts, oracles under /verif/spec"},
        ],
        "checks": checks,
        "not_applicable": na,
        "notes": "Technique family: static analysis only. Every check re-extracts facts from /repo's current working tree (cache keyed by "
                 "a content hash of all sources), never executes rspirv code, and reports file/function/instance for each violation. "
                 "Each check decides the structural clauses listed in DESIGN.md 3, not the run-time behaviour as a whole; clauses not "
                 "decided are listed in DESIGN.md 4.",
    }
    with open(os.path.join(VERIF, "MANIFEST.json"), "w") as fh:
        json.dump(m, fh, indent=1)
    print("MANIFEST.json: %d checks, %d not_applicable" % (len(checks), len(na)))


if __name__ == "__main__":
    main()
