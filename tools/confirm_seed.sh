#!/bin/bash
# usage: confirm_seed.sh <seed-dir>   (contains patch.diff, demo.rs, meta.json)
# Confirms in a scratch worktree of /repo: (1) existing tests pass with the patch, (2) the demo fails with the patch,
# (3) the demo passes without it.  Writes <seed-dir>/confirm.json.  Removes the worktree and its build output.
set -u
SD=$(readlink -f "$1"); ID=$(basename "$SD"); WT=/tmp/confirm-$ID
git -C /repo worktree remove --force "$WT" 2>/dev/null; rm -rf "$WT"
git -C /repo worktree add -q --detach "$WT" HEAD || exit 2
cd "$WT"
lc=$(echo "$ID" | tr 'A-Z-' 'a-z_')
demo_dir=rspirv/tests; pkg=rspirv; DIS=no; grep -q "^diff --git a/dis/" "$SD/patch.diff" && DIS=yes; [ $DIS = yes ] && (cd "$WT" && CARGO_NET_OFFLINE=true cargo build --offline -p rspirv-dis >/dev/null 2>&1)
cp "$SD/demo.rs" $demo_dir/demo_$lc.rs
CARGO_NET_OFFLINE=true cargo test --offline -p $pkg --test demo_$lc >/tmp/confirm-$ID.clean.log 2>&1; clean_rc=$?
rm $demo_dir/demo_$lc.rs
if ! git apply "$SD/patch.diff" 2>/tmp/confirm-$ID.apply.log; then applied=false; else applied=true; fi
CARGO_NET_OFFLINE=true cargo test --workspace --no-fail-fast --offline >/tmp/confirm-$ID.suite.log 2>&1; suite_rc=$?
passed=$(grep -E "^test result" /tmp/confirm-$ID.suite.log | awk '{s+=$4} END {print s+0}')
cp "$SD/demo.rs" $demo_dir/demo_$lc.rs
[ $DIS = yes ] && CARGO_NET_OFFLINE=true cargo build --offline -p rspirv-dis >/dev/null 2>&1
CARGO_NET_OFFLINE=true cargo test --offline -p $pkg --test demo_$lc >/tmp/confirm-$ID.patched.log 2>&1; patched_rc=$?
compile_err=$(grep -c "^error\[E\|could not compile" /tmp/confirm-$ID.patched.log)
demo_result=$(grep -E "^test result" /tmp/confirm-$ID.patched.log | tail -1 | tr -d '"')
cd /; git -C /repo worktree remove --force "$WT"; rm -rf "$WT"
cat > "$SD/confirm.json" <<J
{"seed": "$ID", "repo_head": "$(git -C /repo rev-parse --short HEAD)", "patch_applied": $applied, "suite_rc": $suite_rc, "suite_tests_passed": $passed,
 "demo_rc_clean": $clean_rc, "demo_rc_patched": $patched_rc, "demo_compile_errors_patched": $compile_err, "demo_result_patched": "$demo_result",
 "confirmed": $( [ $applied = true ] && [ $suite_rc -eq 0 ] && [ $clean_rc -eq 0 ] && [ $patched_rc -ne 0 ] && [ $compile_err -eq 0 ] && echo true || echo false )}
J
cat "$SD/confirm.json"; rm -f /tmp/confirm-$ID.*.log
