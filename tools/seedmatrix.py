#!/usr/bin/env python3
"""usage: seedmatrix.py [seed-dir ...]   (default: every directory under /verif/seeded)
For each seed: copy /repo's tracked files to a scratch directory, apply the patch there, run every registered quick check with
VERIF_REPO pointing at the copy, record which properties report a violation -> <seed>/detect.json and seeded/MATRIX.md.
(Equivalent to `git -C /repo apply` + run + `git -C /repo checkout -- .`, but leaves /repo alone so seeds can run in parallel.)"""
import json, os, shutil, subprocess, sys, tempfile
from concurrent.futures import ThreadPoolExecutor
V = "/verif"
props = [c["property_id"] for c in json.load(open(V + "/MANIFEST.json"))["checks"]]
seeds = [os.path.abspath(p) for p in sys.argv[1:]] or sorted(os.path.join(V, "seeded", d) for d in os.listdir(V + "/seeded") if os.path.isdir(os.path.join(V, "seeded", d)))

def one(sd):
    name = os.path.basename(sd)
    tmp = tempfile.mkdtemp(prefix="seedrepo-%s-" % name)
    try:
        subprocess.run("git -C /repo archive HEAD | tar -x -C %s" % tmp, shell=True, check=True)
        r = subprocess.run(["git", "apply", os.path.join(sd, "patch.diff")], cwd=tmp, capture_output=True, text=True)
        if r.returncode != 0:
            r = subprocess.run(["patch", "-p1", "-i", os.path.join(sd, "patch.diff")], cwd=tmp, capture_output=True, text=True)
            if r.returncode != 0:
                return name, {"_apply": "failed: " + (r.stderr or r.stdout)[-200:]}
        env = dict(os.environ, VERIF_REPO=tmp)
        res = {}
        for p in props:
            q = subprocess.run([sys.executable, "-m", "vcheck", "run", p, "--tier", "quick"], cwd=V, env=env, capture_output=True, text=True)
            lines = [l for l in q.stdout.splitlines() if l.startswith("  rule")]
            nv = sum(1 for l in q.stdout.splitlines() if l.startswith("VIOLATION"))
            if nv:
                res[p] = {"violations": nv, "first": [l.strip()[:300] for l in lines[:2]]}
        json.dump(res, open(os.path.join(sd, "detect.json"), "w"), indent=1)
        return name, res
    finally:
        shutil.rmtree(tmp, ignore_errors=True)

with ThreadPoolExecutor(int(os.environ.get("JOBS", "4"))) as ex:
    out = dict(ex.map(one, seeds))
lines = ["# Seeded changes x checks (quick tier)", "", "| seed | target property | detected by | first report |", "|---|---|---|---|"]
for s in sorted(out):
    meta = json.load(open(os.path.join(V, "seeded", s, "meta.json"))) if os.path.exists(os.path.join(V, "seeded", s, "meta.json")) else {}
    r = out[s]
    det = sorted(k for k in r if not k.startswith("_"))
    first = ""
    tgt = meta.get("property", "?")
    if tgt in r:
        first = r[tgt]["first"][0] if r[tgt]["first"] else ""
    elif det:
        first = r[det[0]]["first"][0] if r[det[0]]["first"] else ""
    lines.append("| %s | %s | %s | %s |" % (s, tgt, ", ".join(det) or ("**MISSED**" if "_apply" not in r else r["_apply"]), first.replace("|", "\\|")[:200]))
open(V + "/seeded/MATRIX.md", "w").write("\n".join(lines) + "\n")
print("\n".join(lines[4:]))
