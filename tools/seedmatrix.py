#!/usr/bin/env python3
"""usage: seedmatrix.py [seed-dir ...]   (default: every directory under /verif/seeded)
For each seed: copy /repo's tracked files to a scratch directory, apply the patch there, run every registered quick check with
VERIF_REPO pointing at the copy, record which properties report a violation -> <seed>/detect.json and seeded/MATRIX.md.
(Equivalent to `git -C /repo apply` + run + `git -C /repo checkout -- .`, but leaves /repo alone so seeds can run in parallel.)"""
import json, os, shutil, subprocess, sys, tempfile
from concurrent.futures import ThreadPoolExecutor
V = "/verif"
props = [c["property_id"] for c in json.load(open(V + "/MANIFEST.json"))["checks"]]
if os.environ.get("PROPS"):
    props = os.environ["PROPS"].split(",")   # partial run: detect.json is NOT rewritten
PARTIAL = bool(os.environ.get("PROPS"))
seeds = [os.path.abspath(p) for p in sys.argv[1:]] or sorted(os.path.join(V, "seeded", d) for d in os.listdir(V + "/seeded") if os.path.isdir(os.path.join(V, "seeded", d)))

def one(sd):
    name = os.path.basename(sd)
    tmp = tempfile.mkdtemp(prefix="seedrepo-%s-" % name)
    try:
        subprocess.run("git -C /repo archive HEAD | tar -x -C %s" % tmp, shell=True, check=True)
        if os.path.exists("/repo/Cargo.lock"):          # untracked in this repository, but part of the working tree the checks see
            shutil.copy("/repo/Cargo.lock", os.path.join(tmp, "Cargo.lock"))
        r = subprocess.run(["git", "apply", os.path.join(sd, "patch.diff")], cwd=tmp, capture_output=True, text=True)
        if r.returncode != 0:
            r = subprocess.run(["patch", "-p1", "-i", os.path.join(sd, "patch.diff")], cwd=tmp, capture_output=True, text=True)
            if r.returncode != 0:
                return name, {"_apply": "failed: " + (r.stderr or r.stdout)[-200:]}
        env = dict(os.environ, VERIF_REPO=tmp)
        res = {}
        for p in props:
            q = subprocess.run([sys.executable, "-m", "vcheck", "run", p, "--tier", "quick"], cwd=V, env=env, capture_output=True, text=True)
            lines = [l for l in q.stdout.splitlines() if l.startswith("  rule")]
            nv = sum(1 for l in q.stdout.splitlines() if l.startswith("VIOLATION"))
            if nv:
                res[p] = {"violations": nv, "first": [l.strip()[:300] for l in lines[:2]]}
        if not PARTIAL:
            json.dump(res, open(os.path.join(sd, "detect.json"), "w"), indent=1)
        elif os.environ.get("SHOW"):
            print(json.dumps(res, indent=1)[:3000])
        return name, res
    finally:
        shutil.rmtree(tmp, ignore_errors=True)

with ThreadPoolExecutor(int(os.environ.get("JOBS", "4"))) as ex:
    out = dict(ex.map(one, seeds))
# the matrix always lists every seed that has a detect.json on disk (not only the ones run just now)
lines = ["# Seeded changes x checks (quick tier)", "", "Breaking seeds must be detected; benign refactors (kind benign-refactor) must stay silent.", "",
         "| seed | kind | target property | detected by | first report |", "|---|---|---|---|---|"]
allseeds = sorted(d for d in os.listdir(V + "/seeded") if os.path.exists(os.path.join(V, "seeded", d, "detect.json")))
nb = nd = ng = ns = 0
for s in allseeds:
    mp = os.path.join(V, "seeded", s, "meta.json")
    meta = json.load(open(mp)) if os.path.exists(mp) else {}
    r = json.load(open(os.path.join(V, "seeded", s, "detect.json")))
    det = sorted(k for k in r if not k.startswith("_"))
    benign = meta.get("kind") == "benign-refactor"
    first = ""
    tgt = meta.get("property", "-" if benign else "?")
    if tgt in r:
        first = r[tgt]["first"][0] if r[tgt]["first"] else ""
    elif det:
        first = r[det[0]]["first"][0] if r[det[0]]["first"] else ""
    if benign:
        ng += 1
        ns += 0 if det else 1
        verdict = ("**FALSE ALARM** " + ", ".join(det)) if det else "silent (as required)"
    else:
        nb += 1
        nd += 1 if det else 0
        verdict = ", ".join(det) or ("**MISSED**" if "_apply" not in r else r["_apply"])
        if not det and meta.get("note"):
            first = meta["note"]
    lines.append("| %s | %s | %s | %s | %s |" % (s, "benign" if benign else "breaking", tgt, verdict, first.replace("|", "\\|")[:200]))
lines.insert(3, "Totals: %d/%d breaking seeds detected, %d/%d benign refactors silent." % (nd, nb, ns, ng))
open(V + "/seeded/MATRIX.md", "w").write("\n".join(lines) + "\n")
for s in sorted(out):
    r = out[s]
    print(s, "->", ", ".join(sorted(k for k in r if not k.startswith("_"))) or "silent", r.get("_apply", ""))
