// F15: Builder::type_struct_continued_intel[_id] gives OpTypeStructContinuedINTEL a result id the grammar does not have.
// F12: Builder::execution_mode_id stores id-typed mode parameters as LiteralBit32; the parser yields IdRef.
use rspirv::binary::Assemble;
use rspirv::dr::{Builder, Operand};
use rspirv::spirv;
fn main() {
    let mut b = Builder::new();
    b.set_version(1, 6);
    b.memory_model(spirv::AddressingModel::Logical, spirv::MemoryModel::GLSL450);
    let f = b.type_float(32, None);
    let _ = b.type_struct_continued_intel([f, f]);
    let built = b.module();
    let loaded = rspirv::dr::load_words(built.assemble()).unwrap();
    let bi = built.types_global_values.last().unwrap();
    let li = loaded.types_global_values.last().unwrap();
    println!("F15 built : result_id={:?} operands={:?}", bi.result_id, bi.operands);
    println!("F15 loaded: result_id={:?} operands={:?}", li.result_id, li.operands);

    let mut b = Builder::new();
    b.memory_model(spirv::AddressingModel::Logical, spirv::MemoryModel::GLSL450);
    b.execution_mode_id(1, spirv::ExecutionMode::SubgroupsPerWorkgroupId, [9u32]);
    let built = b.module();
    let loaded = rspirv::dr::load_words(built.assemble()).unwrap();
    println!("F12 built : {:?}", built.execution_modes[0].operands.last());
    println!("F12 loaded: {:?}", loaded.execution_modes[0].operands.last());
    let _ = Operand::IdRef(0);
}
