// F1: declared word count reaching past the buffer in front of a string operand panicked (slice end out of range).
// F2: on a buffer whose length is not a multiple of 4, string() advanced offset past the end; the next request panicked.
use rspirv::binary::Decoder;
fn main() {
    let mut w = vec![0x07230203u32, 0x00010000, 0, 10, 0];
    w.push((10 << 16) | 4); // OpSourceExtension, word count 10, only one operand word present
    w.push(0x41414141);
    let r = std::panic::catch_unwind(|| rspirv::dr::load_words(&w).map(|_| ()).map_err(|e| e.to_string()));
    println!("F1: {:?}", r.map_err(|_| "PANIC"));
    let b = [0x41u8, 0x00];
    let r = std::panic::catch_unwind(|| {
        let mut d = Decoder::new(&b);
        let a = d.string();
        let off = d.offset();
        let c = d.string();
        (a, off, c)
    });
    println!("F2: {:?}", r.map_err(|_| "PANIC"));
}
