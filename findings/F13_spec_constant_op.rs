// F13: Builder::spec_constant_op output is rejected by the loader.  F16: begin_block_no_label output is rejected.
use rspirv::binary::Assemble;
use rspirv::dr::Builder;
use rspirv::spirv;
fn main() {
    let mut b = Builder::new();
    b.memory_model(spirv::AddressingModel::Logical, spirv::MemoryModel::GLSL450);
    let t = b.type_int(32, 0);
    let _ = b.spec_constant_op(t, spirv::Op::IAdd);
    println!("F13: {:?}", rspirv::dr::load_words(b.module().assemble()).map(|_| ()).map_err(|e| e.to_string()));
    let mut b = Builder::new();
    b.memory_model(spirv::AddressingModel::Logical, spirv::MemoryModel::GLSL450);
    let v = b.type_void();
    let ft = b.type_function(v, vec![]);
    b.begin_function(v, None, spirv::FunctionControl::NONE, ft).unwrap();
    b.begin_block_no_label(None).unwrap();
    b.ret().unwrap();
    b.end_function().unwrap();
    println!("F16: {:?}", rspirv::dr::load_words(b.module().assemble()).map(|_| ()).map_err(|e| e.to_string()));
}
