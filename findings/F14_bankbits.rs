// F14: Decoration::BankBitsINTEL - reflection says `LiteralInteger*`, the parser consumes exactly one word.
use rspirv::dr::Operand;
use rspirv::spirv;
fn main() {
    let ao = Operand::Decoration(spirv::Decoration::BankBitsINTEL).additional_operands();
    println!("additional_operands = {:?}", ao);
    let header = vec![0x07230203u32, 0x00010000, 0, 10, 0];
    for n in [0usize, 1, 2] {
        let mut w = header.clone();
        let wc = (3 + n) as u32;
        w.push((wc << 16) | 71); // OpDecorate
        w.push(1);
        w.push(spirv::Decoration::BankBitsINTEL as u32);
        for i in 0..n { w.push(i as u32); }
        println!("{} bank bits -> {:?}", n, rspirv::dr::load_words(&w).map(|_| "accepted").map_err(|e| e.to_string()));
    }
}
