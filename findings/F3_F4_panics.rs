// F3: OpSpecConstantOp nesting OpConstant/OpSpecConstant/OpSpecConstantOp/OpSwitch reached panic!() in parse_operand.
// F4: disassembling an OpConstant whose result type is not a tracked int/float type hit literal_type.unwrap().
use rspirv::binary::Disassemble;
fn main() {
    let header = vec![0x07230203u32, 0x00010000, 0, 10, 0];
    for nested in [43u32, 50, 52, 251] {
        let mut w = header.clone();
        w.extend([(8 << 16) | 52, 1, 2, nested, 7, 7, 7, 7]);
        let r = std::panic::catch_unwind(|| rspirv::dr::load_words(&w).map(|_| ()).map_err(|e| e.to_string()));
        println!("F3 nested opcode {}: {:?}", nested, r.map_err(|_| "PANIC"));
    }
    let mut w = header.clone();
    w.extend([(4 << 16) | 43, 1, 2, 7]); // OpConstant %1 %2 7, type %1 never declared
    let m = rspirv::dr::load_words(&w).unwrap();
    let r = std::panic::catch_unwind(|| m.disassemble());
    println!("F4: {:?}", r.map_err(|_| "PANIC"));
}
