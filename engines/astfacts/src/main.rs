//! astfacts: dump a (compiler-expanded) Rust source file as a normalised JSON
//! syntax tree, one output file per module, for the Python rule engine.
//!
//! usage: astfacts expanded <crate-name> <expanded.rs> <out-dir>
//!        astfacts rawindex <root-dir> <out.json>   (fn -> file:line index of raw sources)
use proc_macro2::TokenStream;
use quote::ToTokens;
use serde_json::{json, Value};
use std::collections::BTreeMap;
use std::fs;
use std::path::{Path, PathBuf};
use syn::punctuated::Punctuated;
use syn::spanned::Spanned;

fn ts<T: ToTokens>(t: &T) -> String {
    norm_tokens(&t.to_token_stream().to_string())
}

/// Token-stream text with cosmetic spaces removed around path separators and
/// generics so that rules can compare type texts.
fn norm_tokens(s: &str) -> String {
    let mut out = s.replace(" :: ", "::").replace(":: ", "::").replace(" ::", "::");
    for (a, b) in [
        (" < ", "<"),
        ("< ", "<"),
        (" <", "<"),
        (" >", ">"),
        ("& ", "&"),
        (" ,", ","),
        ("( ", "("),
        (" )", ")"),
        ("[ ", "["),
        (" ]", "]"),
        (" ;", ";"),
    ] {
        out = out.replace(a, b);
    }
    out
}

fn line<T: Spanned>(t: &T) -> u64 {
    t.span().start().line as u64
}

fn path_str(p: &syn::Path) -> (String, Option<String>) {
    let mut segs = Vec::new();
    let mut generics = None;
    if p.leading_colon.is_some() {
        segs.push(String::new());
    }
    for s in &p.segments {
        segs.push(s.ident.to_string());
        match &s.arguments {
            syn::PathArguments::None => {}
            a => generics = Some(ts(a)),
        }
    }
    (segs.join("::"), generics)
}

fn qpath(q: &Option<syn::QSelf>, p: &syn::Path) -> Value {
    let (s, g) = path_str(p);
    match q {
        Some(q) => json!(["qpath", ts(&*q.ty), s, g]),
        None => match g {
            Some(g) => json!(["path", s, g]),
            None => json!(["path", s]),
        },
    }
}

fn lit(l: &syn::Lit) -> Value {
    match l {
        syn::Lit::Int(i) => json!(["lit", "int", i.base10_digits(), i.suffix()]),
        syn::Lit::Str(s) => json!(["lit", "str", s.value()]),
        syn::Lit::Bool(b) => json!(["lit", "bool", b.value]),
        syn::Lit::Float(f) => json!(["lit", "float", f.base10_digits(), f.suffix()]),
        syn::Lit::Char(c) => json!(["lit", "char", c.value().to_string()]),
        syn::Lit::Byte(b) => json!(["lit", "byte", b.value()]),
        syn::Lit::ByteStr(b) => json!(["lit", "bytestr", b.value()]),
        other => json!(["lit", "other", ts(other)]),
    }
}

fn opt_expr(e: &Option<Box<syn::Expr>>) -> Value {
    match e {
        Some(e) => expr(e),
        None => Value::Null,
    }
}

fn exprs<'a, I: IntoIterator<Item = &'a syn::Expr>>(it: I) -> Value {
    Value::Array(it.into_iter().map(expr).collect())
}

fn binop(op: &syn::BinOp) -> (&'static str, bool) {
    use syn::BinOp::*;
    match op {
        Add(_) => ("+", false),
        Sub(_) => ("-", false),
        Mul(_) => ("*", false),
        Div(_) => ("/", false),
        Rem(_) => ("%", false),
        And(_) => ("&&", false),
        Or(_) => ("||", false),
        BitXor(_) => ("^", false),
        BitAnd(_) => ("&", false),
        BitOr(_) => ("|", false),
        Shl(_) => ("<<", false),
        Shr(_) => (">>", false),
        Eq(_) => ("==", false),
        Lt(_) => ("<", false),
        Le(_) => ("<=", false),
        Ne(_) => ("!=", false),
        Ge(_) => (">=", false),
        Gt(_) => (">", false),
        AddAssign(_) => ("+", true),
        SubAssign(_) => ("-", true),
        MulAssign(_) => ("*", true),
        DivAssign(_) => ("/", true),
        RemAssign(_) => ("%", true),
        BitXorAssign(_) => ("^", true),
        BitAndAssign(_) => ("&", true),
        BitOrAssign(_) => ("|", true),
        ShlAssign(_) => ("<<", true),
        ShrAssign(_) => (">>", true),
        _ => ("?", false),
    }
}

fn macro_node(m: &syn::Macro) -> Value {
    let (name, _) = path_str(&m.path);
    let toks = m.tokens.clone();
    // try: comma separated expressions
    let parsed = syn::parse::Parser::parse2(
        Punctuated::<syn::Expr, syn::Token![,]>::parse_terminated,
        toks.clone(),
    )
    .ok()
    .map(|p| exprs(p.iter()));
    json!(["macro", name, norm_tokens(&toks.to_string()), parsed, line(m)])
}

fn expr(e: &syn::Expr) -> Value {
    use syn::Expr::*;
    match e {
        Array(a) => json!(["array", exprs(a.elems.iter())]),
        Assign(a) => json!(["assign", expr(&a.left), expr(&a.right)]),
        Binary(b) => {
            let (op, assign) = binop(&b.op);
            if assign {
                json!(["assignop", op, expr(&b.left), expr(&b.right)])
            } else {
                json!(["binary", op, expr(&b.left), expr(&b.right)])
            }
        }
        Block(b) => {
            let mut v = block(&b.block);
            if let Some(l) = &b.label {
                v.as_array_mut().unwrap().push(json!(l.name.ident.to_string()));
            }
            v
        }
        Break(b) => json!(["break", b.label.as_ref().map(|l| l.ident.to_string()), opt_expr(&b.expr)]),
        Call(c) => json!(["call", expr(&c.func), exprs(c.args.iter())]),
        Cast(c) => json!(["cast", expr(&c.expr), ts(&*c.ty)]),
        Closure(c) => json!([
            "closure",
            Value::Array(c.inputs.iter().map(pat).collect()),
            expr(&c.body),
            c.capture.is_some()
        ]),
        Continue(c) => json!(["continue", c.label.as_ref().map(|l| l.ident.to_string())]),
        Field(f) => {
            let name = match &f.member {
                syn::Member::Named(i) => i.to_string(),
                syn::Member::Unnamed(i) => i.index.to_string(),
            };
            json!(["field", expr(&f.base), name])
        }
        ForLoop(f) => json!([
            "for",
            pat(&f.pat),
            expr(&f.expr),
            block(&f.body),
            f.label.as_ref().map(|l| l.name.ident.to_string())
        ]),
        Group(g) => expr(&g.expr),
        If(i) => json!([
            "if",
            expr(&i.cond),
            block(&i.then_branch),
            match &i.else_branch {
                Some((_, e)) => expr(e),
                None => Value::Null,
            }
        ]),
        Index(i) => json!(["index", expr(&i.expr), expr(&i.index)]),
        Let(l) => json!(["let", pat(&l.pat), expr(&l.expr)]),
        Lit(l) => lit(&l.lit),
        Loop(l) => json!(["loop", block(&l.body), l.label.as_ref().map(|x| x.name.ident.to_string())]),
        Macro(m) => macro_node(&m.mac),
        Match(m) => json!([
            "match",
            expr(&m.expr),
            Value::Array(
                m.arms
                    .iter()
                    .map(|a| json!([
                        pat(&a.pat),
                        match &a.guard {
                            Some((_, g)) => expr(g),
                            None => Value::Null,
                        },
                        expr(&a.body)
                    ]))
                    .collect()
            )
        ]),
        MethodCall(m) => json!([
            "mcall",
            expr(&m.receiver),
            m.method.to_string(),
            exprs(m.args.iter()),
            m.turbofish.as_ref().map(|t| ts(t))
        ]),
        Paren(p) => expr(&p.expr),
        Path(p) => qpath(&p.qself, &p.path),
        Range(r) => json!([
            "range",
            opt_expr(&r.start),
            opt_expr(&r.end),
            matches!(r.limits, syn::RangeLimits::Closed(_))
        ]),
        Reference(r) => json!(["ref", r.mutability.is_some(), expr(&r.expr)]),
        Repeat(r) => json!(["repeat", expr(&r.expr), expr(&r.len)]),
        Return(r) => json!(["return", opt_expr(&r.expr)]),
        Struct(s) => json!([
            "struct",
            path_str(&s.path).0,
            Value::Array(
                s.fields
                    .iter()
                    .map(|f| json!([
                        match &f.member {
                            syn::Member::Named(i) => i.to_string(),
                            syn::Member::Unnamed(i) => i.index.to_string(),
                        },
                        expr(&f.expr)
                    ]))
                    .collect()
            ),
            opt_expr(&s.rest)
        ]),
        Try(t) => json!(["try", expr(&t.expr)]),
        Tuple(t) => json!(["tuple", exprs(t.elems.iter())]),
        Unary(u) => {
            let op = match u.op {
                syn::UnOp::Deref(_) => "*",
                syn::UnOp::Not(_) => "!",
                syn::UnOp::Neg(_) => "-",
                _ => "?",
            };
            json!(["unary", op, expr(&u.expr)])
        }
        Unsafe(u) => json!(["unsafe", block(&u.block)]),
        While(w) => json!([
            "while",
            expr(&w.cond),
            block(&w.body),
            w.label.as_ref().map(|x| x.name.ident.to_string())
        ]),
        Const(c) => json!(["constblock", block(&c.block)]),
        other => json!(["unknown", ts(other)]),
    }
}

fn pat(p: &syn::Pat) -> Value {
    use syn::Pat::*;
    match p {
        Ident(i) => json!([
            "p_ident",
            i.ident.to_string(),
            i.by_ref.is_some(),
            i.mutability.is_some(),
            match &i.subpat {
                Some((_, p)) => pat(p),
                None => Value::Null,
            }
        ]),
        Lit(l) => json!(["p_lit", lit(&l.lit)]),
        Or(o) => json!(["p_or", Value::Array(o.cases.iter().map(pat).collect())]),
        Paren(p) => pat(&p.pat),
        Path(p) => {
            let (s, _) = path_str(&p.path);
            json!(["p_path", s])
        }
        Range(r) => json!([
            "p_range",
            opt_expr(&r.start),
            opt_expr(&r.end),
            matches!(r.limits, syn::RangeLimits::Closed(_))
        ]),
        Reference(r) => json!(["p_ref", r.mutability.is_some(), pat(&r.pat)]),
        Rest(_) => json!(["p_rest"]),
        Slice(s) => json!(["p_slice", Value::Array(s.elems.iter().map(pat).collect())]),
        Struct(s) => json!([
            "p_struct",
            path_str(&s.path).0,
            Value::Array(
                s.fields
                    .iter()
                    .map(|f| json!([
                        match &f.member {
                            syn::Member::Named(i) => i.to_string(),
                            syn::Member::Unnamed(i) => i.index.to_string(),
                        },
                        pat(&f.pat)
                    ]))
                    .collect()
            ),
            s.rest.is_some()
        ]),
        Tuple(t) => json!(["p_tuple", Value::Array(t.elems.iter().map(pat).collect())]),
        TupleStruct(t) => json!([
            "p_ts",
            path_str(&t.path).0,
            Value::Array(t.elems.iter().map(pat).collect())
        ]),
        Type(t) => json!(["p_type", pat(&t.pat), ts(&*t.ty)]),
        Wild(_) => json!(["p_wild"]),
        Const(c) => json!(["p_const", block(&c.block)]),
        Macro(m) => macro_node(&m.mac),
        other => json!(["unknown", ts(other)]),
    }
}

fn block(b: &syn::Block) -> Value {
    let mut stmts = Vec::new();
    for s in &b.stmts {
        match s {
            syn::Stmt::Local(l) => {
                let (p, ty) = match &l.pat {
                    syn::Pat::Type(t) => (pat(&t.pat), Value::String(ts(&*t.ty))),
                    p => (pat(p), Value::Null),
                };
                let (init, els) = match &l.init {
                    Some(i) => (
                        expr(&i.expr),
                        match &i.diverge {
                            Some((_, e)) => expr(e),
                            None => Value::Null,
                        },
                    ),
                    None => (Value::Null, Value::Null),
                };
                stmts.push(json!(["local", p, ty, init, els]));
            }
            syn::Stmt::Item(i) => {
                stmts.push(json!(["item", item(i, &mut Ctx::default())]));
            }
            syn::Stmt::Expr(e, semi) => stmts.push(json!(["expr", expr(e), semi.is_some()])),
            syn::Stmt::Macro(m) => {
                stmts.push(json!(["expr", macro_node(&m.mac), m.semi_token.is_some()]))
            }
        }
    }
    json!(["block", stmts])
}

fn attrs(a: &[syn::Attribute]) -> (Vec<String>, String) {
    let mut out = Vec::new();
    let mut doc = String::new();
    for at in a {
        if at.path().is_ident("doc") {
            if let syn::Meta::NameValue(nv) = &at.meta {
                if let syn::Expr::Lit(l) = &nv.value {
                    if let syn::Lit::Str(s) = &l.lit {
                        doc.push_str(&s.value());
                        doc.push('\n');
                        continue;
                    }
                }
            }
        }
        out.push(ts(&at.meta));
    }
    (out, doc)
}

fn vis(v: &syn::Visibility) -> String {
    match v {
        syn::Visibility::Public(_) => "pub".to_string(),
        syn::Visibility::Restricted(r) => format!("pub({})", ts(&*r.path)),
        syn::Visibility::Inherited => "".to_string(),
    }
}

fn sig(s: &syn::Signature) -> Value {
    let params: Vec<Value> = s
        .inputs
        .iter()
        .map(|a| match a {
            syn::FnArg::Receiver(r) => json!(["self", ts(r)]),
            syn::FnArg::Typed(t) => json!([ts(&*t.pat), ts(&*t.ty)]),
        })
        .collect();
    let ret = match &s.output {
        syn::ReturnType::Default => "()".to_string(),
        syn::ReturnType::Type(_, t) => ts(&**t),
    };
    json!({"params": params, "ret": ret, "generics": ts(&s.generics), "unsafe": s.unsafety.is_some(),
           "where": s.generics.where_clause.as_ref().map(|w| ts(w))})
}

#[derive(Default)]
struct Ctx {
    /// (module path, items) for nested modules, collected for per-module output
    modules: Vec<(String, Vec<Value>)>,
    cur: Vec<String>,
}

fn fn_item(name: String, v: String, a: &[syn::Attribute], s: &syn::Signature, b: Option<&syn::Block>, ln: u64) -> Value {
    let (at, doc) = attrs(a);
    json!({"kind": "fn", "name": name, "vis": v, "attrs": at, "doc": doc, "sig": sig(s),
           "body": b.map(block), "xline": ln})
}

fn fields(f: &syn::Fields) -> Value {
    Value::Array(
        f.iter()
            .enumerate()
            .map(|(i, f)| {
                json!([
                    f.ident.as_ref().map(|i| i.to_string()).unwrap_or(i.to_string()),
                    ts(&f.ty),
                    vis(&f.vis)
                ])
            })
            .collect(),
    )
}

fn item(i: &syn::Item, cx: &mut Ctx) -> Value {
    use syn::Item::*;
    match i {
        Fn(f) => fn_item(f.sig.ident.to_string(), vis(&f.vis), &f.attrs, &f.sig, Some(&f.block), line(f)),
        Enum(e) => {
            let (at, doc) = attrs(&e.attrs);
            json!({"kind": "enum", "name": e.ident.to_string(), "vis": vis(&e.vis), "attrs": at, "doc": doc,
                "variants": e.variants.iter().map(|v| {
                    let (vat, vdoc) = attrs(&v.attrs);
                    json!({"name": v.ident.to_string(),
                           "discr": v.discriminant.as_ref().map(|(_, e)| expr(e)),
                           "fields": fields(&v.fields),
                           "named": matches!(v.fields, syn::Fields::Named(_)),
                           "attrs": vat, "doc": vdoc})
                }).collect::<Vec<_>>()})
        }
        Struct(s) => {
            let (at, doc) = attrs(&s.attrs);
            json!({"kind": "struct", "name": s.ident.to_string(), "vis": vis(&s.vis), "attrs": at, "doc": doc,
                   "generics": ts(&s.generics), "fields": fields(&s.fields),
                   "named": matches!(s.fields, syn::Fields::Named(_))})
        }
        Impl(im) => {
            let (at, _) = attrs(&im.attrs);
            let mut items = Vec::new();
            for it in &im.items {
                match it {
                    syn::ImplItem::Fn(f) => items.push(fn_item(
                        f.sig.ident.to_string(),
                        vis(&f.vis),
                        &f.attrs,
                        &f.sig,
                        Some(&f.block),
                        line(f),
                    )),
                    syn::ImplItem::Const(c) => items.push(json!({"kind": "const", "name": c.ident.to_string(),
                        "vis": vis(&c.vis), "ty": ts(&c.ty), "init": expr(&c.expr), "attrs": attrs(&c.attrs).0})),
                    syn::ImplItem::Type(t) => items.push(json!({"kind": "type", "name": t.ident.to_string(), "ty": ts(&t.ty)})),
                    other => items.push(json!({"kind": "other", "text": ts(other)})),
                }
            }
            json!({"kind": "impl", "self_ty": ts(&*im.self_ty),
                   "trait": im.trait_.as_ref().map(|(neg, p, _)| format!("{}{}", if neg.is_some() {"!"} else {""}, ts(p))),
                   "generics": ts(&im.generics), "attrs": at, "unsafe": im.unsafety.is_some(), "items": items})
        }
        Mod(m) => {
            let name = m.ident.to_string();
            let (at, _) = attrs(&m.attrs);
            if let Some((_, its)) = &m.content {
                cx.cur.push(name.clone());
                let path = cx.cur.join("::");
                let vals: Vec<Value> = its.iter().map(|i| item(i, cx)).collect();
                cx.modules.push((path, vals));
                cx.cur.pop();
            }
            json!({"kind": "mod", "name": name, "vis": vis(&m.vis), "attrs": at, "inline": m.content.is_some()})
        }
        Static(s) => json!({"kind": "static", "name": s.ident.to_string(), "vis": vis(&s.vis),
            "mut": matches!(s.mutability, syn::StaticMutability::Mut(_)), "ty": ts(&*s.ty), "init": expr(&s.expr)}),
        Const(c) => json!({"kind": "const", "name": c.ident.to_string(), "vis": vis(&c.vis), "ty": ts(&*c.ty),
            "init": expr(&c.expr), "attrs": attrs(&c.attrs).0}),
        Use(u) => json!({"kind": "use", "vis": vis(&u.vis), "tree": ts(&u.tree)}),
        Macro(m) => json!({"kind": "macro", "name": m.ident.as_ref().map(|i| i.to_string()),
            "mac": path_str(&m.mac.path).0, "tokens": norm_tokens(&m.mac.tokens.to_string())}),
        Trait(t) => {
            let mut items = Vec::new();
            for it in &t.items {
                if let syn::TraitItem::Fn(f) = it {
                    items.push(fn_item(f.sig.ident.to_string(), "pub".into(), &f.attrs, &f.sig, f.default.as_ref(), line(f)));
                }
            }
            json!({"kind": "trait", "name": t.ident.to_string(), "vis": vis(&t.vis), "items": items})
        }
        Type(t) => json!({"kind": "type", "name": t.ident.to_string(), "vis": vis(&t.vis), "ty": ts(&*t.ty)}),
        ExternCrate(e) => json!({"kind": "extern_crate", "name": e.ident.to_string()}),
        other => json!({"kind": "other", "text": ts(other)}),
    }
}

fn cmd_expanded(krate: &str, src: &Path, out: &Path) {
    let text = fs::read_to_string(src).expect("read expanded source");
    let file = syn::parse_file(&text).unwrap_or_else(|e| {
        eprintln!("astfacts: cannot parse {}: {} at {:?}", src.display(), e, e.span().start());
        std::process::exit(2)
    });
    let mut cx = Ctx::default();
    cx.cur.push(krate.to_string());
    let vals: Vec<Value> = file.items.iter().map(|i| item(i, &mut cx)).collect();
    cx.modules.push((krate.to_string(), vals));
    fs::create_dir_all(out).unwrap();
    let mut index = Vec::new();
    for (path, items) in &cx.modules {
        let fname = format!("{}.json", path.replace("::", "."));
        let v = json!({"module": path, "items": items});
        fs::write(out.join(&fname), serde_json::to_vec(&v).unwrap()).unwrap();
        index.push(json!({"module": path, "file": fname, "items": items.len()}));
    }
    fs::write(
        out.join(format!("{}.index.json", krate)),
        serde_json::to_vec_pretty(&json!({"crate": krate, "modules": index, "lines": text.lines().count()})).unwrap(),
    )
    .unwrap();
}

/// Index of raw source files: every fn (free, impl, trait) with file:line, plus
/// `bitflags!` bodies and `macro_rules!` bodies as token text.
fn cmd_rawindex(root: &Path, out: &Path) {
    let mut files = Vec::new();
    fn walk(d: &Path, acc: &mut Vec<PathBuf>) {
        if let Ok(rd) = fs::read_dir(d) {
            for e in rd.flatten() {
                let p = e.path();
                let n = p.file_name().unwrap().to_string_lossy().to_string();
                if p.is_dir() {
                    if n != "target" && n != ".git" && n != "external" {
                        walk(&p, acc);
                    }
                } else if n.ends_with(".rs") {
                    acc.push(p);
                }
            }
        }
    }
    walk(root, &mut files);
    files.sort();
    let mut fns = Vec::new();
    let mut bitflags = Vec::new();
    let mut macros = Vec::new();
    let mut errors = BTreeMap::new();
    for f in &files {
        let rel = f.strip_prefix(root).unwrap().to_string_lossy().to_string();
        let text = match fs::read_to_string(f) {
            Ok(t) => t,
            Err(e) => {
                errors.insert(rel, e.to_string());
                continue;
            }
        };
        let parsed = match syn::parse_file(&text) {
            Ok(p) => p,
            Err(e) => {
                errors.insert(rel, format!("{} at line {}", e, e.span().start().line));
                continue;
            }
        };
        fn visit(items: &[syn::Item], rel: &str, owner: &str, cfgtest: bool, fns: &mut Vec<Value>, bitflags: &mut Vec<Value>, macros: &mut Vec<Value>) {
            for it in items {
                match it {
                    syn::Item::Fn(f) => fns.push(json!({"file": rel, "owner": owner, "name": f.sig.ident.to_string(),
                        "line": line(f), "end": f.span().end().line, "test": cfgtest})),
                    syn::Item::Impl(im) => {
                        let o = ts(&*im.self_ty);
                        let tr = im.trait_.as_ref().map(|(_, p, _)| ts(p));
                        for ii in &im.items {
                            if let syn::ImplItem::Fn(f) = ii {
                                fns.push(json!({"file": rel, "owner": o, "trait": tr, "name": f.sig.ident.to_string(),
                                    "line": line(f), "end": f.span().end().line, "test": cfgtest}));
                            }
                        }
                    }
                    syn::Item::Trait(t) => {
                        for ti in &t.items {
                            if let syn::TraitItem::Fn(f) = ti {
                                fns.push(json!({"file": rel, "owner": t.ident.to_string(), "name": f.sig.ident.to_string(),
                                    "line": line(f), "end": f.span().end().line, "test": cfgtest}));
                            }
                        }
                    }
                    syn::Item::Mod(m) => {
                        let is_test = cfgtest || m.attrs.iter().any(|a| ts(&a.meta).contains("cfg(test)"));
                        if let Some((_, its)) = &m.content {
                            visit(its, rel, owner, is_test, fns, bitflags, macros);
                        }
                    }
                    syn::Item::Macro(m) => {
                        let name = path_str(&m.mac.path).0;
                        if name == "bitflags" {
                            bitflags.push(json!({"file": rel, "line": line(m), "tokens": norm_tokens(&m.mac.tokens.to_string())}));
                        } else if name == "macro_rules" {
                            macros.push(json!({"file": rel, "line": line(m), "name": m.ident.as_ref().map(|i| i.to_string()),
                                "tokens": norm_tokens(&m.mac.tokens.to_string())}));
                        }
                    }
                    _ => {}
                }
            }
        }
        visit(&parsed.items, &rel, "", false, &mut fns, &mut bitflags, &mut macros);
    }
    let v = json!({"files": files.iter().map(|f| f.strip_prefix(root).unwrap().to_string_lossy().to_string()).collect::<Vec<_>>(),
                   "fns": fns, "bitflags": bitflags, "macro_rules": macros, "errors": errors});
    fs::write(out, serde_json::to_vec(&v).unwrap()).unwrap();
}

fn main() {
    let args: Vec<String> = std::env::args().collect();
    let _ = TokenStream::new();
    match args.get(1).map(|s| s.as_str()) {
        Some("expanded") if args.len() == 5 => cmd_expanded(&args[2], Path::new(&args[3]), Path::new(&args[4])),
        Some("rawindex") if args.len() == 4 => cmd_rawindex(Path::new(&args[2]), Path::new(&args[3])),
        _ => {
            eprintln!("usage: astfacts expanded <crate> <expanded.rs> <out-dir> | astfacts rawindex <root> <out.json>");
            std::process::exit(2);
        }
    }
}
