//! E3: compile-fail witnesses for the type-level remainder of C11, C12, C13, C19.
//! Each witness names `rspirv` as an external user would and is paired with a compiling twin that differs only in the
//! offending line, so a witness whose path is merely wrong cannot pass.  Run with `cargo +nightly test --doc` (the error code
//! after `compile_fail,` is only honoured on nightly).

/// C11: external code cannot move the decoder's offset.
/// ```compile_fail,E0616
/// let b = [0u8; 8];
/// let mut d = rspirv::binary::Decoder::new(&b);
/// d.offset = 8;
/// ```
/// ```
/// let b = [0u8; 8];
/// let mut d = rspirv::binary::Decoder::new(&b);
/// let _ = d.offset();
/// ```
pub struct DecoderOffsetPrivate;

/// C11: external code cannot touch the decoder's limit except through set_limit/clear_limit.
/// ```compile_fail,E0616
/// let b = [0u8; 8];
/// let mut d = rspirv::binary::Decoder::new(&b);
/// d.limit = Some(1);
/// ```
/// ```
/// let b = [0u8; 8];
/// let mut d = rspirv::binary::Decoder::new(&b);
/// d.set_limit(1);
/// ```
pub struct DecoderLimitPrivate;

/// C13: external code cannot set the id counter.
/// ```compile_fail,E0616
/// let mut b = rspirv::dr::Builder::new();
/// b.next_id = 1;
/// ```
/// ```
/// let mut b = rspirv::dr::Builder::new();
/// let _ = b.id();
/// ```
pub struct BuilderNextIdPrivate;

/// C12: external code cannot set the block selection directly.
/// ```compile_fail,E0616
/// let mut b = rspirv::dr::Builder::new();
/// b.selected_block = Some(7);
/// ```
/// ```
/// let mut b = rspirv::dr::Builder::new();
/// let _ = b.select_block(Some(7));
/// ```
pub struct BuilderSelectionPrivate;

/// C12: external code cannot close a block with an arbitrary instruction (end_block is private).
/// ```compile_fail,E0624
/// let mut b = rspirv::dr::Builder::new();
/// let i = rspirv::dr::Instruction::new(rspirv::spirv::Op::Nop, None, None, vec![]);
/// let _ = b.end_block(i);
/// ```
/// ```
/// let mut b = rspirv::dr::Builder::new();
/// let i = rspirv::dr::Instruction::new(rspirv::spirv::Op::Nop, None, None, vec![]);
/// let _ = b.insert_into_block(rspirv::dr::InsertPoint::End, i);
/// ```
pub struct BuilderEndBlockPrivate;

/// C19: external code cannot forge a token.
/// ```compile_fail,E0624
/// let _t = rspirv::sr::storage::Token::<u32>::new(0);
/// ```
/// ```
/// let mut s = rspirv::sr::storage::Storage::<u32>::new();
/// let _t = s.append(0);
/// ```
pub struct TokenNewNotPublic;

/// C19: external code cannot reach the storage vector.
/// ```compile_fail,E0616
/// let mut s = rspirv::sr::storage::Storage::<u32>::new();
/// s.data.clear();
/// ```
/// ```
/// let mut s = rspirv::sr::storage::Storage::<u32>::new();
/// let t = s.append(1);
/// let _ = s[t];
/// ```
pub struct StorageDataPrivate;

/// C19: external code cannot rewrite a token's index.
/// ```compile_fail,E0616
/// let mut s = rspirv::sr::storage::Storage::<u32>::new();
/// let mut t = s.append(1);
/// t.index = 5;
/// ```
/// ```
/// let mut s = rspirv::sr::storage::Storage::<u32>::new();
/// let t = s.append(1);
/// let _ = t.index();
/// ```
pub struct TokenIndexPrivate;
