//! mirfacts: rustc_private driver (RUSTC_WORKSPACE_WRAPPER) that dumps
//! type-checked program facts of the rspirv workspace crates as JSON lines.
//! One write per process into $MIRFACTS_OUT/<crate>.mir.jsonl.
#![feature(rustc_private)]
#![allow(clippy::all)]

extern crate rustc_abi;
extern crate rustc_driver;
extern crate rustc_hir;
extern crate rustc_interface;
extern crate rustc_middle;
extern crate rustc_span;

use rustc_driver::Compilation;
use rustc_hir::def::DefKind;
use rustc_hir::def_id::{DefId, LocalDefId};
use rustc_hir::intravisit::{self, Visitor};
use rustc_middle::hir::nested_filter;
use rustc_middle::mir::{
    self, AssertKind, BorrowKind, CastKind, Operand, Place, ProjectionElem, Rvalue, StatementKind,
    TerminatorKind,
};
use rustc_middle::ty::print::with_no_trimmed_paths;
use rustc_middle::ty::{self, Instance, Ty, TyCtxt, TypingEnv};
use rustc_span::{ExpnKind, Span};
use std::fmt::Write as _;

fn esc(s: &str) -> String {
    let mut o = String::with_capacity(s.len() + 2);
    o.push('"');
    for c in s.chars() {
        match c {
            '"' => o.push_str("\\\""),
            '\\' => o.push_str("\\\\"),
            '\n' => o.push_str("\\n"),
            '\t' => o.push_str("\\t"),
            '\r' => o.push_str("\\r"),
            c if (c as u32) < 0x20 => {
                let _ = write!(o, "\\u{:04x}", c as u32);
            }
            c => o.push(c),
        }
    }
    o.push('"');
    o
}

fn opt(s: Option<String>) -> String {
    match s {
        Some(s) => esc(&s),
        None => "null".to_string(),
    }
}

fn dpath(tcx: TyCtxt<'_>, d: DefId) -> String {
    with_no_trimmed_paths!(tcx.def_path_str(d))
}

struct SpanInfo {
    file: String,
    line: usize,
    inner_macro: Option<String>,
    outer_macro: Option<String>,
    desugar: Option<String>,
}

fn span_info(tcx: TyCtxt<'_>, span: Span) -> SpanInfo {
    let mut inner = None;
    let mut outer = None;
    let mut desugar = None;
    let mut sp = span;
    let mut guard = 0;
    while sp.from_expansion() && guard < 64 {
        let ed = sp.ctxt().outer_expn_data();
        match ed.kind {
            ExpnKind::Macro(_, name) => {
                if inner.is_none() {
                    inner = Some(name.to_string());
                }
                outer = Some(name.to_string());
            }
            ExpnKind::Desugaring(k) => {
                if desugar.is_none() {
                    desugar = Some(format!("{:?}", k));
                }
            }
            _ => {}
        }
        sp = ed.call_site;
        guard += 1;
    }
    let sm = tcx.sess.source_map();
    let loc = sm.lookup_char_pos(sp.lo());
    let file = format!("{}", loc.file.name.prefer_local_unconditionally());
    SpanInfo { file, line: loc.line, inner_macro: inner, outer_macro: outer, desugar }
}

fn span_json(tcx: TyCtxt<'_>, span: Span) -> String {
    let s = span_info(tcx, span);
    format!(
        "{{\"file\":{},\"line\":{},\"im\":{},\"om\":{},\"ds\":{}}}",
        esc(&s.file),
        s.line,
        opt(s.inner_macro),
        opt(s.outer_macro),
        opt(s.desugar)
    )
}

/// chain of (ADT path, field name) for every field projection of a place
fn field_chain<'tcx>(tcx: TyCtxt<'tcx>, body: &mir::Body<'tcx>, place: &Place<'tcx>) -> Vec<(String, String)> {
    let mut out = Vec::new();
    let mut pty = mir::PlaceTy::from_ty(body.local_decls[place.local].ty);
    for elem in place.projection.iter() {
        if let ProjectionElem::Field(fidx, _) = elem {
            if let ty::Adt(adt, _) = pty.ty.kind() {
                let variant = match pty.variant_index {
                    Some(v) => adt.variant(v),
                    None => {
                        if adt.is_enum() {
                            pty = pty.projection_ty(tcx, elem);
                            continue;
                        } else {
                            adt.non_enum_variant()
                        }
                    }
                };
                let fname = variant.fields[fidx].name.to_string();
                out.push((dpath(tcx, adt.did()), fname));
            } else if let ty::Tuple(_) = pty.ty.kind() {
                out.push(("(tuple)".to_string(), format!("{}", fidx.as_usize())));
            }
        }
        pty = pty.projection_ty(tcx, elem);
    }
    out
}

fn chain_json(c: &[(String, String)]) -> String {
    let parts: Vec<String> = c.iter().map(|(a, f)| format!("[{},{}]", esc(a), esc(f))).collect();
    format!("[{}]", parts.join(","))
}

fn operand_local(op: &Operand<'_>) -> Option<usize> {
    match op {
        Operand::Copy(p) | Operand::Move(p) => {
            if p.projection.is_empty() {
                Some(p.local.as_usize())
            } else {
                None
            }
        }
        _ => None,
    }
}

fn operand_desc<'tcx>(tcx: TyCtxt<'tcx>, body: &mir::Body<'tcx>, op: &Operand<'tcx>) -> String {
    match op {
        Operand::Copy(p) | Operand::Move(p) => {
            if p.projection.is_empty() {
                format!("{}", p.local.as_usize())
            } else {
                let ch = field_chain(tcx, body, p);
                format!("{{\"l\":{},\"chain\":{}}}", p.local.as_usize(), chain_json(&ch))
            }
        }
        Operand::Constant(c) => {
            let t = c.const_.ty();
            let v = match c.const_.try_eval_scalar_int(tcx, TypingEnv::fully_monomorphized()) {
                Some(si) => format!("{}", si.to_bits_unchecked()),
                None => "null".to_string(),
            };
            format!("{{\"const\":{},\"ty\":{}}}", v, esc(&with_no_trimmed_paths!(format!("{}", t))))
        }
        #[allow(unreachable_patterns)]
        _ => "null".to_string(),
    }
}

fn ty_str(t: Ty<'_>) -> String {
    with_no_trimmed_paths!(format!("{}", t))
}

fn dump_body<'tcx>(tcx: TyCtxt<'tcx>, did: LocalDefId, out: &mut String) {
    let def_id = did.to_def_id();
    let kind = tcx.def_kind(def_id);
    let body = tcx.optimized_mir(def_id);
    let env = TypingEnv::post_analysis(tcx, def_id);
    let path = dpath(tcx, def_id);
    let (vis, reach) = match kind {
        DefKind::Fn | DefKind::AssocFn => {
            let v = tcx.visibility(def_id);
            let vs = if v.is_public() { "pub".to_string() } else { format!("{:?}", v) };
            let r = tcx.effective_visibilities(()).is_reachable(did);
            (vs, r)
        }
        _ => ("closure".to_string(), false),
    };
    // impl / trait owner
    let mut self_ty = None;
    let mut trait_path = None;
    let mut item_name = None;
    if matches!(kind, DefKind::AssocFn) {
        item_name = Some(tcx.item_name(def_id).to_string());
        let parent = tcx.parent(def_id);
        match tcx.def_kind(parent) {
            DefKind::Impl { of_trait } => {
                let st = tcx.type_of(parent).instantiate_identity().skip_norm_wip();
                self_ty = Some(match st.kind() {
                    ty::Adt(a, _) => dpath(tcx, a.did()),
                    _ => ty_str(st),
                });
                if of_trait {
                    let tr = tcx.impl_trait_ref(parent).instantiate_identity().skip_norm_wip();
                    trait_path = Some(dpath(tcx, tr.def_id));
                }
            }
            DefKind::Trait => {
                trait_path = Some(dpath(tcx, parent));
            }
            _ => {}
        }
    } else if matches!(kind, DefKind::Fn) {
        item_name = Some(tcx.item_name(def_id).to_string());
    }
    let _ = write!(
        out,
        "{{\"k\":\"fn\",\"path\":{},\"kind\":{},\"vis\":{},\"reach\":{},\"name\":{},\"self\":{},\"trait\":{},\"span\":{},\"nargs\":{},\"blocks\":[",
        esc(&path),
        esc(&format!("{:?}", kind)),
        esc(&vis),
        reach,
        opt(item_name),
        opt(self_ty),
        opt(trait_path),
        span_json(tcx, body.span),
        body.arg_count
    );
    for (bi, bb) in body.basic_blocks.iter_enumerated() {
        if bi.as_usize() > 0 {
            out.push(',');
        }
        out.push_str("{\"s\":[");
        let mut first = true;
        for st in &bb.statements {
            if let StatementKind::Assign(b) = &st.kind {
                let (place, rv) = &**b;
                let mut facts: Vec<String> = Vec::new();
                // field write
                let ch = field_chain(tcx, body, place);
                if !ch.is_empty() {
                    facts.push(format!(
                        "{{\"f\":\"fw\",\"chain\":{},\"l\":{},\"span\":{}}}",
                        chain_json(&ch),
                        place.local.as_usize(),
                        span_json(tcx, st.source_info.span)
                    ));
                } else if place.projection.iter().any(|e| matches!(e, ProjectionElem::Deref)) {
                    facts.push(format!(
                        "{{\"f\":\"dw\",\"l\":{},\"span\":{}}}",
                        place.local.as_usize(),
                        span_json(tcx, st.source_info.span)
                    ));
                }
                match rv {
                    Rvalue::Ref(_, bk, p) => {
                        let m = matches!(bk, BorrowKind::Mut { .. });
                        let ch = field_chain(tcx, body, p);
                        if place.projection.is_empty() {
                            facts.push(format!(
                                "{{\"f\":\"ref\",\"mut\":{},\"d\":{},\"src\":{},\"chain\":{},\"span\":{}}}",
                                m,
                                place.local.as_usize(),
                                p.local.as_usize(),
                                chain_json(&ch),
                                span_json(tcx, st.source_info.span)
                            ));
                        }
                    }
                    Rvalue::Use(op, ..) => {
                        if place.projection.is_empty() {
                            if let Some(s) = operand_local(op) {
                                facts.push(format!("{{\"f\":\"mv\",\"d\":{},\"src\":{}}}", place.local.as_usize(), s));
                            } else if let Operand::Copy(p) | Operand::Move(p) = op {
                                let ch = field_chain(tcx, body, p);
                                facts.push(format!(
                                    "{{\"f\":\"ld\",\"d\":{},\"src\":{},\"chain\":{}}}",
                                    place.local.as_usize(),
                                    p.local.as_usize(),
                                    chain_json(&ch)
                                ));
                            }
                        }
                    }
                    Rvalue::Discriminant(p) => {
                        let pt = p.ty(&body.local_decls, tcx).ty;
                        facts.push(format!(
                            "{{\"f\":\"discr\",\"d\":{},\"src\":{},\"ty\":{}}}",
                            place.local.as_usize(),
                            p.local.as_usize(),
                            esc(&match pt.kind() {
                                ty::Adt(a, _) => dpath(tcx, a.did()),
                                _ => ty_str(pt),
                            })
                        ));
                    }
                    Rvalue::Cast(ck, op, to) => {
                        let from = op.ty(&body.local_decls, tcx);
                        let ckn = match ck {
                            CastKind::Transmute => "Transmute",
                            CastKind::IntToInt => "IntToInt",
                            CastKind::FloatToInt => "FloatToInt",
                            CastKind::IntToFloat => "IntToFloat",
                            CastKind::FloatToFloat => "FloatToFloat",
                            CastKind::PtrToPtr => "PtrToPtr",
                            _ => "Other",
                        };
                        facts.push(format!(
                            "{{\"f\":\"cast\",\"ck\":{},\"from\":{},\"to\":{},\"span\":{}}}",
                            esc(ckn),
                            esc(&ty_str(from)),
                            esc(&ty_str(*to)),
                            span_json(tcx, st.source_info.span)
                        ));
                    }
                    Rvalue::Aggregate(ak, _) => {
                        if let mir::AggregateKind::Adt(adt_did, vidx, _, _, _) = &**ak {
                            let adt = tcx.adt_def(*adt_did);
                            if place.projection.is_empty() {
                                facts.push(format!(
                                    "{{\"f\":\"agg\",\"d\":{},\"adt\":{},\"variant\":{}}}",
                                    place.local.as_usize(),
                                    esc(&dpath(tcx, *adt_did)),
                                    esc(&adt.variant(*vidx).name.to_string())
                                ));
                            }
                        }
                    }
                    _ => {}
                }
                for f in facts {
                    if !first {
                        out.push(',');
                    }
                    first = false;
                    out.push_str(&f);
                }
            }
        }
        out.push_str("],\"t\":");
        let term = bb.terminator();
        let tspan = span_json(tcx, term.source_info.span);
        match &term.kind {
            TerminatorKind::Goto { target } => {
                let _ = write!(out, "{{\"t\":\"goto\",\"to\":[{}]}}", target.as_usize());
            }
            TerminatorKind::SwitchInt { discr, targets } => {
                let mut vals = Vec::new();
                for (v, t) in targets.iter() {
                    vals.push(format!("[{},{}]", v, t.as_usize()));
                }
                let _ = write!(
                    out,
                    "{{\"t\":\"switch\",\"discr\":{},\"vals\":[{}],\"otherwise\":{},\"span\":{}}}",
                    operand_desc(tcx, body, discr),
                    vals.join(","),
                    targets.otherwise().as_usize(),
                    tspan
                );
            }
            TerminatorKind::Return => out.push_str("{\"t\":\"return\"}"),
            TerminatorKind::Unreachable => out.push_str("{\"t\":\"unreachable\"}"),
            TerminatorKind::UnwindResume => out.push_str("{\"t\":\"resume\"}"),
            TerminatorKind::UnwindTerminate(_) => out.push_str("{\"t\":\"terminate\"}"),
            TerminatorKind::Drop { target, .. } => {
                let _ = write!(out, "{{\"t\":\"drop\",\"to\":[{}]}}", target.as_usize());
            }
            TerminatorKind::Assert { msg, target, expected, .. } => {
                let k = match &**msg {
                    AssertKind::BoundsCheck { .. } => "BoundsCheck".to_string(),
                    AssertKind::Overflow(op, ..) => format!("Overflow({:?})", op),
                    AssertKind::OverflowNeg(_) => "OverflowNeg".to_string(),
                    AssertKind::DivisionByZero(_) => "DivisionByZero".to_string(),
                    AssertKind::RemainderByZero(_) => "RemainderByZero".to_string(),
                    AssertKind::MisalignedPointerDereference { .. } => "MisalignedPointerDereference".to_string(),
                    AssertKind::NullPointerDereference => "NullPointerDereference".to_string(),
                    other => {
                        let s = format!("{:?}", other);
                        s.split(|c: char| !c.is_alphanumeric()).next().unwrap_or("Other").to_string()
                    }
                };
                let _ = write!(
                    out,
                    "{{\"t\":\"assert\",\"kind\":{},\"expected\":{},\"to\":[{}],\"span\":{}}}",
                    esc(&k),
                    expected,
                    target.as_usize(),
                    tspan
                );
            }
            TerminatorKind::Call { func, args, destination, target, fn_span, .. } => {
                let fty = func.ty(&body.local_decls, tcx);
                let (decl, resolved, rlocal, rcrate, rname, rtrait, rself, generic_args) = match fty.kind() {
                    ty::FnDef(cd, ga) => {
                        let decl = dpath(tcx, *cd);
                        let res = Instance::try_resolve(tcx, env, *cd, ga).ok().flatten();
                        let (rd, ra) = match res {
                            Some(i) => (i.def_id(), i.args),
                            None => (*cd, *ga),
                        };
                        let rname = tcx.opt_item_name(rd).map(|s| s.to_string());
                        let mut rtrait = None;
                        let mut rself = None;
                        if matches!(tcx.def_kind(rd), DefKind::AssocFn) {
                            let parent = tcx.parent(rd);
                            match tcx.def_kind(parent) {
                                DefKind::Impl { of_trait } => {
                                    let st = tcx.type_of(parent).instantiate_identity().skip_norm_wip();
                                    rself = Some(match st.kind() {
                                        ty::Adt(a, _) => dpath(tcx, a.did()),
                                        _ => ty_str(st),
                                    });
                                    if of_trait {
                                        let tr = tcx.impl_trait_ref(parent).instantiate_identity().skip_norm_wip();
                                        rtrait = Some(dpath(tcx, tr.def_id));
                                    }
                                }
                                DefKind::Trait => {
                                    rtrait = Some(dpath(tcx, parent));
                                    // self type = first generic arg
                                    if let Some(t0) = ra.types().next() {
                                        rself = Some(match t0.kind() {
                                            ty::Adt(a, _) => dpath(tcx, a.did()),
                                            _ => ty_str(t0),
                                        });
                                    }
                                }
                                _ => {}
                            }
                        }
                        (
                            decl,
                            Some(dpath(tcx, rd)),
                            rd.is_local(),
                            tcx.crate_name(rd.krate).to_string(),
                            rname,
                            rtrait,
                            rself,
                            with_no_trimmed_paths!(format!("{:?}", ra)),
                        )
                    }
                    _ => (format!("<indirect:{}>", ty_str(fty)), None, false, String::new(), None, None, None, String::new()),
                };
                let a: Vec<String> = args.iter().map(|a| operand_desc(tcx, body, &a.node)).collect();
                let dest = if destination.projection.is_empty() {
                    format!("{}", destination.local.as_usize())
                } else {
                    format!("{{\"l\":{},\"chain\":{}}}", destination.local.as_usize(), chain_json(&field_chain(tcx, body, destination)))
                };
                let _ = write!(
                    out,
                    "{{\"t\":\"call\",\"d\":{},\"r\":{},\"rl\":{},\"rc\":{},\"rn\":{},\"rt\":{},\"rs\":{},\"ga\":{},\"args\":[{}],\"dest\":{},\"to\":[{}],\"span\":{},\"fspan\":{}}}",
                    esc(&decl),
                    opt(resolved),
                    rlocal,
                    esc(&rcrate),
                    opt(rname),
                    opt(rtrait),
                    opt(rself),
                    esc(&generic_args),
                    a.join(","),
                    dest,
                    target.map(|t| format!("{}", t.as_usize())).unwrap_or_default(),
                    tspan,
                    span_json(tcx, *fn_span)
                );
            }
            TerminatorKind::FalseEdge { real_target, .. } => {
                let _ = write!(out, "{{\"t\":\"goto\",\"to\":[{}]}}", real_target.as_usize());
            }
            TerminatorKind::FalseUnwind { real_target, .. } => {
                let _ = write!(out, "{{\"t\":\"goto\",\"to\":[{}]}}", real_target.as_usize());
            }
            other => {
                let succ: Vec<String> = other.successors().map(|s| format!("{}", s.as_usize())).collect();
                let _ = write!(out, "{{\"t\":\"other\",\"to\":[{}]}}", succ.join(","));
            }
        }
        let _ = write!(out, ",\"cleanup\":{}}}", bb.is_cleanup);
    }
    out.push_str("]}\n");
}

struct UnsafeVisitor<'tcx> {
    tcx: TyCtxt<'tcx>,
    out: Vec<String>,
}

impl<'tcx> Visitor<'tcx> for UnsafeVisitor<'tcx> {
    type NestedFilter = nested_filter::OnlyBodies;
    fn maybe_tcx(&mut self) -> Self::MaybeTyCtxt {
        self.tcx
    }
    fn visit_block(&mut self, b: &'tcx rustc_hir::Block<'tcx>) {
        if let rustc_hir::BlockCheckMode::UnsafeBlock(src) = b.rules {
            let user = matches!(src, rustc_hir::UnsafeSource::UserProvided);
            let owner = self.tcx.hir_enclosing_body_owner(b.hir_id);
            self.out.push(format!(
                "{{\"k\":\"unsafe\",\"user\":{},\"fn\":{},\"span\":{},\"expn\":{}}}\n",
                user,
                esc(&dpath(self.tcx, owner.to_def_id())),
                span_json(self.tcx, b.span),
                b.span.from_expansion()
            ));
        }
        intravisit::walk_block(self, b);
    }
}

fn dump_crate(tcx: TyCtxt<'_>) {
    let cname = tcx.crate_name(rustc_hir::def_id::LOCAL_CRATE).to_string();
    let outdir = match std::env::var("MIRFACTS_OUT") {
        Ok(d) => d,
        Err(_) => return,
    };
    let wanted = std::env::var("MIRFACTS_CRATES").unwrap_or_else(|_| "spirv,rspirv,rspirv_dis".to_string());
    if !wanted.split(',').any(|w| w == cname) {
        return;
    }
    let mut out = String::new();
    let _ = write!(out, "{{\"k\":\"crate\",\"name\":{}}}\n", esc(&cname));
    let mut nfn = 0usize;
    for did in tcx.mir_keys(()) {
        let kind = tcx.def_kind(did.to_def_id());
        if matches!(kind, DefKind::Fn | DefKind::AssocFn | DefKind::Closure) {
            // skip const fns bodies only evaluable at compile time? optimized_mir is fine for const fn too
            dump_body(tcx, *did, &mut out);
            nfn += 1;
        }
    }
    // ADTs, statics
    for did in tcx.hir_crate_items(()).definitions() {
        let def_id = did.to_def_id();
        match tcx.def_kind(def_id) {
            DefKind::Enum | DefKind::Struct => {
                let adt = tcx.adt_def(def_id);
                let repr = adt.repr();
                let mut s = format!(
                    "{{\"k\":\"adt\",\"path\":{},\"enum\":{},\"repr_int\":{},\"vis\":{},\"reach\":{},\"span\":{},\"variants\":[",
                    esc(&dpath(tcx, def_id)),
                    adt.is_enum(),
                    opt(repr.int.map(|i| format!("{:?}", i))),
                    esc(&format!("{:?}", tcx.visibility(def_id))),
                    tcx.effective_visibilities(()).is_reachable(did),
                    span_json(tcx, tcx.def_span(def_id))
                );
                let discrs: Vec<(u128, String)> = if adt.is_enum() {
                    adt.discriminants(tcx).map(|(_, d)| (d.val, ty_str(d.ty))).collect()
                } else {
                    vec![]
                };
                for (vi, v) in adt.variants().iter().enumerate() {
                    if vi > 0 {
                        s.push(',');
                    }
                    let fields: Vec<String> = v
                        .fields
                        .iter()
                        .map(|f| {
                            format!(
                                "[{},{},{}]",
                                esc(&f.name.to_string()),
                                esc(&ty_str(tcx.type_of(f.did).instantiate_identity().skip_norm_wip())),
                                esc(&if f.vis.is_public() { "pub".to_string() } else { format!("{:?}", f.vis) })
                            )
                        })
                        .collect();
                    let _ = write!(
                        s,
                        "{{\"name\":{},\"discr\":{},\"discr_ty\":{},\"fields\":[{}]}}",
                        esc(&v.name.to_string()),
                        discrs.get(vi).map(|d| format!("\"{}\"", d.0)).unwrap_or("null".into()),
                        discrs.get(vi).map(|d| esc(&d.1)).unwrap_or("null".into()),
                        fields.join(",")
                    );
                }
                s.push_str("]}\n");
                out.push_str(&s);
            }
            DefKind::Static { mutability, .. } => {
                let t = tcx.type_of(def_id).instantiate_identity().skip_norm_wip();
                let env = TypingEnv::post_analysis(tcx, def_id);
                let _ = write!(
                    out,
                    "{{\"k\":\"static\",\"path\":{},\"mut\":{},\"ty\":{},\"freeze\":{},\"thread_local\":{}}}\n",
                    esc(&dpath(tcx, def_id)),
                    mutability.is_mut(),
                    esc(&ty_str(t)),
                    t.is_freeze(tcx, env),
                    tcx.is_thread_local_static(def_id)
                );
            }
            _ => {}
        }
    }
    let mut uv = UnsafeVisitor { tcx, out: Vec::new() };
    tcx.hir_visit_all_item_likes_in_crate(&mut uv);
    for l in uv.out {
        out.push_str(&l);
    }
    let _ = write!(out, "{{\"k\":\"end\",\"fns\":{}}}\n", nfn);
    let path = std::path::Path::new(&outdir).join(format!("{}.mir.jsonl", cname));
    std::fs::write(&path, out).expect("mirfacts: cannot write fact file");
}

struct Cb;

impl rustc_driver::Callbacks for Cb {
    fn after_analysis<'tcx>(&mut self, _c: &rustc_interface::interface::Compiler, tcx: TyCtxt<'tcx>) -> Compilation {
        dump_crate(tcx);
        Compilation::Continue
    }
}

fn main() {
    let mut args: Vec<String> = std::env::args().collect();
    // RUSTC_WORKSPACE_WRAPPER: argv[1] is the path of the real rustc
    if args.len() > 1 && (args[1].ends_with("rustc") || args[1].contains("/rustc")) {
        args.remove(1);
    }
    rustc_driver::run_compiler(&args, &mut Cb);
}
