"""vcheck: static rule engine for the rspirv properties.

  python3 -m vcheck run <Cxx> [--tier quick|thorough]
  python3 -m vcheck explain <replay.json>
  python3 -m vcheck snapshot     (development: rewrite spec/grammar_snapshot.json from the current tree)
"""
import importlib
import json
import os
import sys
import traceback

from . import facts
from .core import Anchor, Check


def run(pid, tier):
    seed = int(os.environ.get("VERIF_SEED", "0") or 0)
    chk = Check(pid, tier, seed)
    try:
        mod = importlib.import_module("vcheck.rules.%s" % pid.lower())
    except ImportError as ex:
        print("no rules for %s: %s" % (pid, ex))
        return 2
    explanation = getattr(mod, "EXPLANATION", mod.__doc__ or "")
    exhaustive = getattr(mod, "EXHAUSTIVE", False)
    try:
        from .model import Ctx
        ctx = Ctx(fresh=(tier == "thorough"))
        ctx.tier = tier
        from . import symeval
        from .rules import progx  # noqa: registers the fallback hooks
        symeval.DEFAULT_CTX = ctx
        if tier == "thorough":
            # deeper small scopes (the evidence records them)
            from .rules import stringx, buildeval
            stringx.RMAX, stringx.LMAX = 21, 6
            buildeval.EXTRA_REPRESENTATIVES = True
            from .rules import c19 as _c19
            _c19.HIST_LEN = 5
            chk.analysed["scopes"] = {"decoder": "0..21 bytes left, limits none/0..6/2^62/2^64-1", "storage": "histories of up to five operations", "builder": "every module shape with up to two functions of 0..2 blocks (last one open or finished) and every selection index in {none, 0, 1, 2}"}
        chk.analysed["facts"] = {"key": ctx.meta["key"], "repo": ctx.meta["repo"], "source_files": ctx.meta["files"],
                                 "extract_s": ctx.meta["extract_s"]}
        mod.run(ctx, chk)
        if tier == "thorough":
            from . import thorough
            thorough.features_config(ctx, chk)
            thorough.witnesses(ctx, chk, pid)
            if hasattr(mod, "thorough"):
                mod.thorough(ctx, chk)
    except facts.ExtractError as ex:
        chk.rule("EXTRACT", "facts must be extractable from the current tree (the tree must build)")
        chk.bad("EXTRACT", "extract", "fact extraction failed: %s" % str(ex)[-1500:], key="EXTRACT")
    except Anchor as ex:
        chk.rule("ANCHOR", "every code anchor a rule interprets must exist in an analysable shape (fail closed)")
        chk.bad("ANCHOR", str(ex)[:200], "obligation can no longer be discharged: %s" % ex, key="ANCHOR:%s" % str(ex)[:120])
    except Exception:  # checker bug: fail closed, loudly
        chk.rule("INTERNAL", "the checker itself must not fail")
        chk.bad("INTERNAL", "exception", traceback.format_exc()[-3000:], key="INTERNAL")
    return chk.finish(explanation, exhaustive)


def explain(path):
    with open(path) as fh:
        v = json.load(fh)
    print(json.dumps(v, indent=1))
    print("--- re-running the property check on the current tree")
    return run(v["property"], "quick")


def main(argv):
    if len(argv) >= 2 and argv[0] == "run":
        tier = os.environ.get("VERIF_TIER", "quick")
        if "--tier" in argv:
            tier = argv[argv.index("--tier") + 1]
        return run(argv[1], tier)
    if len(argv) == 2 and argv[0] == "explain":
        return explain(argv[1])
    if argv and argv[0] == "snapshot":
        from . import snapshot
        return snapshot.main(argv[1:])
    print(__doc__)
    return 2


if __name__ == "__main__":
    sys.exit(main(sys.argv[1:]))
