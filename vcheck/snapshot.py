"""O-SNAP: pinned semantic snapshot of the grammar projections (names, numbers, kinds) of the pinned commit.

The Khronos JSON grammar is not available in the sandbox; the snapshot was extracted once from the pinned generated
files (after the cross-projection rules passed) and stands in for it.  It is a *semantic* table: reformatting or
re-ordering source does not touch it; changing a number, name, kind or quantifier does.
"""
import json
import os

from .core import VERIF
from .model import grammar_tables, spirv_enums, spirv_masks

PATH = os.path.join(VERIF, "spec", "grammar_snapshot.json")


def load():
    with open(PATH) as fh:
        return json.load(fh)


def section_enums(ctx):
    out = {}
    for n, e in spirv_enums(ctx).items():
        out[n] = {"variants": {vn: vv for vn, vv, _ in e["variants"]}, "aliases": dict(e["aliases"])}
    return out


def section_masks(ctx):
    return {n: dict(m["consts"]) for n, m in spirv_masks(ctx).items()}


def section_tables(ctx):
    t = grammar_tables(ctx)
    out = {}
    for name in ("core", "glsl", "opencl"):
        rows = {}
        for r in t[name]:
            key = r["opcode"] if name == "core" else r["opname"]
            rows[str(key)] = {"opname": r["opname"], "opcode": r["opcode"], "caps": r["caps"], "exts": r["exts"],
                              "operands": [list(o) for o in (r["operands"] or [])]}
        out[name] = rows
    out["kinds"] = t["kinds"]
    return out


SECTIONS = {"enums": section_enums, "masks": section_masks, "tables": section_tables}


def register(name, fn):
    SECTIONS[name] = fn


def diff(a, b, path=""):
    """Yield (path, snapshot value, current value) for every difference (a = snapshot, b = current)."""
    if isinstance(a, dict) and isinstance(b, dict):
        for k in a:
            if k not in b:
                yield (path + "/" + str(k), a[k], "<absent>")
            else:
                yield from diff(a[k], b[k], path + "/" + str(k))
        for k in b:
            if k not in a:
                yield (path + "/" + str(k), "<absent>", b[k])
    elif isinstance(a, list) and isinstance(b, list) and len(a) == len(b):
        for i, (x, y) in enumerate(zip(a, b)):
            yield from diff(x, y, path + "/" + str(i))
    elif a != b:
        yield (path, a, b)


def compare(chk, rule, section, snap, cur, where):
    """One obligation per top-level entry of the section."""
    if snap is None:
        chk.bad(rule, section, "snapshot has no section %s" % section, "spec/grammar_snapshot.json")
        return
    cur = json.loads(json.dumps(cur))
    keys = list(snap.keys()) + [k for k in cur if k not in snap]
    for k in keys:
        d = list(diff(snap.get(k, "<absent>"), cur.get(k, "<absent>"), ""))
        if d:
            p, a, b = d[0]
            chk.bad(rule, "%s/%s%s" % (section, k, p), "differs from the pinned grammar snapshot: snapshot %s, tree %s%s" % (
                json.dumps(a)[:160], json.dumps(b)[:160], " (+%d more differences)" % (len(d) - 1) if len(d) > 1 else ""), where)
        else:
            chk.ok(rule, "%s/%s" % (section, k))


def main(argv):
    from .model import Ctx
    from .rules import ALL_SECTIONS  # noqa: F401  (registers the sections owned by rule modules)
    ctx = Ctx()
    out = {"_comment": "O-SNAP, extracted from the pinned commit; see DESIGN.md 2.3", "_source_key": ctx.meta["key"]}
    for name, fn in sorted(SECTIONS.items()):
        out[name] = fn(ctx)
    os.makedirs(os.path.dirname(PATH), exist_ok=True)
    with open(PATH, "w") as fh:
        json.dump(out, fh, indent=0, sort_keys=True)
    print("wrote", PATH, {k: len(v) for k, v in out.items() if isinstance(v, (dict, list))})
    return 0
