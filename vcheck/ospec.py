"""O-SPEC: small tables transcribed from the SPIR-V specification (unified1), with section numbers.

Each class has a `required` set (opcodes the specification puts in the class; a predicate missing one is wrong) and an
`allowed` superset (a predicate may additionally accept these: vendor/extension opcodes whose classification the core
specification does not fix).  Where `required` mentions a Builder file, that part is recomputed from /repo on every run:
the generator splits Builder methods over autogen_type/constant/annotation/debug/terminator.rs by the Khronos grammar's
`class` field, so those files are an in-repo projection of the class column of the (absent) JSON grammar.
"""

# spec 3.52.2 "Debug Instructions" (core grammar class "Debug")
LOCATION_DEBUG = {"Line", "NoLine"}
NONLOCATION_DEBUG = {"SourceContinued", "Source", "SourceExtension", "Name", "MemberName", "String", "ModuleProcessed"}

# spec 3.52.3 "Annotation Instructions" (class "Annotation")
ANNOTATION = {"Decorate", "MemberDecorate", "DecorationGroup", "GroupDecorate", "GroupMemberDecorate", "DecorateId",
              "DecorateString", "MemberDecorateString"}

# spec 3.52.6 "Type-Declaration Instructions": hand-written Builder methods cover these three, the rest comes from autogen_type.rs
TYPE_HANDWRITTEN = {"TypePointer", "TypeForwardPointer", "TypeOpaque"}
# spec 3.52.7 "Constant-Creation Instructions": hand-written Builder methods cover these two, the rest from autogen_constant.rs
CONSTANT_HANDWRITTEN = {"Constant", "SpecConstant"}

VARIABLE = {"Variable"}
# spec 2.2.5 glossary "Termination Instruction" / 3.52.17 control flow
BRANCH = {"Branch", "BranchConditional", "Switch"}
RETURN = {"Return", "ReturnValue"}
BLOCK_TERMINATION = BRANCH | RETURN | {"Kill", "Unreachable", "TerminateInvocation", "IgnoreIntersectionKHR", "TerminateRayKHR",
                                       "EmitMeshTasksEXT"}
ABORT = BLOCK_TERMINATION - BRANCH - RETURN

# spec 2.4 logical layout: fixed module sections by opcode
SECTION_OF = {
    "Capability": "capabilities", "Extension": "extensions", "ExtInstImport": "ext_inst_imports", "MemoryModel": "memory_model",
    "EntryPoint": "entry_points", "ExecutionMode": "execution_modes", "ExecutionModeId": "execution_modes",
    "String": "debug_string_source", "SourceExtension": "debug_string_source", "Source": "debug_string_source",
    "SourceContinued": "debug_string_source", "Name": "debug_names", "MemberName": "debug_names",
    "ModuleProcessed": "debug_module_processed",
}

# spir-v.xml generator ids (C07)
GENERATORS = {0: "The Khronos Group", 1: "LunarG", 2: "Valve", 3: "Codeplay", 4: "NVIDIA", 5: "ARM", 6: "LLVM/SPIR-V Translator",
              7: "SPIR-V Tools Assembler", 8: "Glslang", 9: "Qualcomm", 10: "AMD", 11: "Intel", 12: "Imagination", 13: "Shaderc",
              14: "spiregg", 15: "rspirv"}


def classes(ctx):
    """-> name -> (required, allowed) with the Builder-file parts recomputed from the tree."""
    from .model import op_values
    from .rules import builder
    ops, _ = op_values(ctx)
    by_file = {}
    for m in builder.methods(ctx):
        if m["emits"] and m["opcode"] and m["file"]:
            by_file.setdefault(m["file"].split("/")[-1], set()).add(m["opcode"])
    ty_req = set(by_file.get("autogen_type.rs", set())) | TYPE_HANDWRITTEN
    ty_allowed = {o for o in ops if o.startswith("Type")}
    co_req = set(by_file.get("autogen_constant.rs", set())) | CONSTANT_HANDWRITTEN
    co_allowed = {o for o in ops if o.startswith("Constant") or o.startswith("SpecConstant")}
    an_req = set(by_file.get("autogen_annotation.rs", set())) | ANNOTATION
    db_req = set(by_file.get("autogen_debug.rs", set())) | NONLOCATION_DEBUG
    return {
        "location_debug": (LOCATION_DEBUG, LOCATION_DEBUG),
        "nonlocation_debug": (db_req, db_req),
        "annotation": (an_req, an_req),
        "type": (ty_req & set(ops), ty_allowed | ty_req),
        "constant": (co_req & set(ops), co_allowed | co_req),
        "variable": (VARIABLE, VARIABLE),
        "branch": (BRANCH, BRANCH),
        "return": (RETURN, RETURN),
        "abort": (ABORT, ABORT),
        "block_terminator": (BLOCK_TERMINATION, BLOCK_TERMINATION),
        "_builder_files": {k: sorted(v) for k, v in by_file.items()},
    }
