"""C20 rspirv-dis prints the library disassembly or an error and never crashes."""
import re

from ..core import Anchor
from ..tree import is_node, mir_name, path_of, show, show_stmt, unblock, walk
from . import c04, panicx

EXPLANATION = (
    "Shape of main(): after reading the file named by the required argument, a single match on rspirv::dr::load_bytes(&buffer) "
    "prints exactly `{}\\n` of module.disassemble() on Ok and `{}\\n` of the error on Err; no other print, no process::exit, no "
    "Result return (exit status 0 on every path that returns). Panic reachability from main over the same call graph, O-STD and "
    "O-AUDIT as C04 (main's own unwrap/expect sites are discharged by `required(true)` and the `readable file` premise). The "
    "error renderings (parser State, DecodeError, loader Error) are total and contain no newline. A closed stdout is outside "
    "the claim.")
EXHAUSTIVE = True


def fmt_print(n):
    """{ ::std::io::_print(format_args!("<fmt>", args..)) } -> (fmt, [args]) for a println!/print! expansion"""
    for x in walk(n):
        if x[0] == "call" and (path_of(x[1]) or "").endswith("io::_print") and len(x[2]) == 1:
            m = x[2][0]
            if m[0] == "macro" and m[1] == "format_args" and m[3]:
                a = m[3]
                if a[0][0] == "lit" and a[0][1] == "str":
                    return a[0][2], [show(y) for y in a[1:]]
            return "?", [show(m)[:80]]
    return None


def run(ctx, chk):
    raw = ctx.raw
    dis = ctx.dis
    f = dis.fn("rspirv_dis", "main")
    W = raw.where("main", None, "dis/main.rs")
    R = chk.rule("R-MAIN", "main: the input file named by the required positional argument is read completely, then a single match on "
                 "rspirv::dr::load_bytes(&buffer): Ok(m) => println!(\"{}\", m.disassemble()), Err(e) => println!(\"{}\", e); nothing "
                 "else is printed, the process is never exited explicitly, and main returns ()")
    st = f["body"][1]
    chk.check(R, f["sig"]["ret"] == "()", "returns-unit", "main returns %s (a returned Err would change the exit status and output)" % f["sig"]["ret"], W)
    prints = [n for n in walk(f["body"]) if n[0] == "call" and re.search(r"io::_e?print$", path_of(n[1]) or "")]
    exits = [show(n)[:60] for n in walk(f["body"]) if n[0] == "call" and re.search(r"process::(exit|abort)$", path_of(n[1]) or "")]
    chk.check(R, not exits, "no-exit", "explicit process exit: %s" % exits, W)
    last = st[-1][1] if st and st[-1][0] == "expr" else None
    last = unblock(last) if last is not None else None
    ok = last is not None and last[0] == "match" and len(last[2]) == 2
    why = "the last statement of main is not a two-armed match"
    if ok:
        scr = show(last[1])
        m = re.match(r"^rspirv::dr::load_bytes\(&(\w+)\)$", scr)
        ok = m is not None
        why = "scrutinee is %s" % scr
        if ok:
            buf = m.group(1)
            arms = {}
            for pat, guard, body in last[2]:
                if pat[0] == "p_ts" and pat[1] in ("Ok", "Err") and len(pat[2]) == 1 and pat[2][0][0] == "p_ident" and guard is None:
                    arms[pat[1]] = (pat[2][0][1], fmt_print(body), body)
            ok = set(arms) == {"Ok", "Err"}
            why = "arms %s" % sorted(arms)
            if ok:
                v, fp, _ = arms["Ok"]
                ok1 = fp is not None and fp[0] == "{0}\n" and fp[1] == ["%s.disassemble()" % v]
                v2, fp2, _ = arms["Err"]
                ok2 = fp2 is not None and fp2[0] == "{0}\n" and fp2[1] == [v2]
                ok = ok1 and ok2
                why = "Ok arm prints %s, Err arm prints %s" % (fp, fp2)
            # the buffer is what read_to_end filled from the file opened from the argument
            txt = [show_stmt(s) for s in st[:-1]]
            rd = [t for t in txt if ".read_to_end(&mut %s)" % buf in t]
            op = [t for t in txt if "fs::File::open(" in t]
            arg = [t for t in txt if '.value_of("input")' in t]
            chk.check(R, len(rd) == 1 and len(op) == 1 and len(arg) == 1 and txt.index(arg[0]) < txt.index(op[0]) < txt.index(rd[0]), "reads-the-named-file",
                      "file handling statements: %s" % [t[:70] for t in txt], W)
            for t in txt:
                m2 = re.match(r"^let mut (\w+) = Vec::new\(\);$", t) or re.match(r"^let mut (\w+) = vec!\[\];$", t)
    chk.check(R, ok, "load-then-print", why, W, key="C20:main-match")
    chk.check(R, len(prints) == 2, "exactly-two-prints", "%d print sites in main" % len(prints), W)
    eprints = [n for n in prints if (path_of(n[1]) or "").endswith("_eprint")]
    chk.check(R, not eprints, "stdout-only", "main prints to stderr", W)
    req = [show(n) for n in walk(f["body"]) if n[0] == "mcall" and n[2] == "required"]
    chk.check(R, any('with_name("input")' in r_ and r_.endswith(".required(true)") for r_ in req), "main_required_arg", "argument declaration: %s" % req, W)

    # panic census from main
    g = panicx.Graph(ctx)
    mains = g.find("main", "rspirv_dis")
    mains = [k for k in mains if mir_name(k).endswith("::main") or k.endswith("::main")]
    if len(mains) != 1:
        raise Anchor("rspirv_dis::main not found in MIR facts (%d)" % len(mains))
    reach = g.reachable(mains)
    found = c04.census(ctx, chk, g, reach, "rspirv-dis")
    c04.check_counts(chk, found, only_fns=None)
    c04.check_counts(chk, found, only_fns=["rspirv_dis"])
    chk.floor("R-PANIC-2", "functions reachable from main", len(reach), 200)
    c04.discharge(ctx, chk, g)

    RD = chk.rule("R-ERRMSG", "the Display impls of the parser State, the DecodeError and the loader Error have an arm for every variant "
                  "and their format strings contain no newline (one-line message)")
    for mod, ty, fname in (("rspirv::binary::parser", "State", "fmt"), ("rspirv::dr::loader", "Error", "describe"), ("rspirv::binary::autogen_error", "Error", "fmt")):
        try:
            en = ctx.rspirv.item(mod, "enum", ty)
        except Anchor:
            chk.bad(RD, "%s::%s" % (mod, ty), "enum not found", None)
            continue
        fns = [x for x in ctx.rspirv.fns(mod, ty) if x["name"] == fname and (fname != "fmt" or (x.get("trait") or "").endswith("Display"))]
        if len(fns) != 1:
            chk.bad(RD, "%s::%s::%s" % (mod, ty, fname), "expected one %s, found %d" % (fname, len(fns)), None)
            continue
        ms = [n for n in walk(fns[0]["body"]) if n[0] == "match"]
        covered = set()
        wild = False
        if ms:
            for pat, guard, body in ms[0][2]:
                for p in (pat[1] if pat[0] == "p_or" else [pat]):
                    if p[0] == "p_wild":
                        wild = True
                    q = path_of(p) or (p[1] if p[0] in ("p_ts", "p_struct") else None)
                    if q:
                        covered.add(q.split("::")[-1])
        names = {v["name"] for v in en["variants"]}
        strs = [x[2] for x in walk(fns[0]["body"]) if x[0] == "lit" and x[1] == "str"]
        strs += [x[2] for x in walk(fns[0]["body"]) if x[0] == "macro" and x[1] == "format_args"]
        nl = [s_ for s_ in strs if "\\n" in s_ or "\n" in s_]
        chk.check(RD, (names <= covered or wild) and not nl, "%s::%s" % (mod.split("::")[-1], ty),
                  "variants without an arm: %s; strings with newline: %s" % (sorted(names - covered), nl[:2]), raw.where(fname, ty), sample=sorted(covered)[:5])
    chk.analysed.update({"reachable_from_main": len(reach)})


def thorough(ctx, chk):
    c04.thorough(ctx, chk)
