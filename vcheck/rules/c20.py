"""C20 rspirv-dis prints the library disassembly or an error and never crashes."""
import re

from ..core import Anchor
from ..tree import is_node, mir_name, path_of, show, show_stmt, unblock, walk
from . import c04, panicx

EXPLANATION = (
    "Shape of main(): after reading the file named by the required argument, a single match on rspirv::dr::load_bytes(&buffer) "
    "prints exactly `{}\\n` of module.disassemble() on Ok and `{}\\n` of the error on Err; no other print, no process::exit, no "
    "Result return (exit status 0 on every path that returns). Panic reachability from main over the same call graph, O-STD and "
    "O-AUDIT as C04 (main's own unwrap/expect sites are discharged by `required(true)` and the `readable file` premise). The "
    "error renderings (parser State, DecodeError, loader Error) are total and contain no newline. A closed stdout is outside "
    "the claim.")
EXHAUSTIVE = False     # the abstract inputs are a stated finite scope, not the whole input space


def fmt_print(n):
    """{ ::std::io::_print(format_args!("<fmt>", args..)) } -> (fmt, [args]) for a println!/print! expansion"""
    for x in walk(n):
        if x[0] == "call" and (path_of(x[1]) or "").endswith("io::_print") and len(x[2]) == 1:
            m = x[2][0]
            if m[0] == "macro" and m[1] == "format_args" and m[3]:
                a = m[3]
                if a[0][0] == "lit" and a[0][1] == "str":
                    return a[0][2], [show(y) for y in a[1:]]
            return "?", [show(m)[:80]]
    return None


def run(ctx, chk):
    raw = ctx.raw
    dis = ctx.dis
    f = dis.fn("rspirv_dis", "main")
    W = raw.where("main", None, "dis/main.rs")
    R = chk.rule("R-MAIN", "main: the input file named by the required positional argument is read completely, then a single match on "
                 "rspirv::dr::load_bytes(&buffer): Ok(m) => println!(\"{}\", m.disassemble()), Err(e) => println!(\"{}\", e); nothing "
                 "else is printed, the process is never exited explicitly, and main returns ()")
    chk.check(R, f["sig"]["ret"] == "()", "returns-unit", "main returns %s (a returned Err would change the exit status and output)" % f["sig"]["ret"], W)
    from ..symeval import SymEval, Hooks, NONE, Panic as SPanic, flatten_fmt

    class MH(Hooks):
        def __init__(self, ok):
            self.ok = ok
            self.events = []

        def path(self, p):
            if p in ("CARGO_PKG_VERSION",):
                return ("sym", p)
            return NotImplemented

        def resolve_fn(self, path):
            """free functions of the tool's own crate are evaluated in place"""
            c = [x for x in dis.fns("rspirv_dis") if x["name"] == path.split("::")[-1] and x["name"] != "main"]
            return c[0] if len(c) == 1 else None

        def call(self, p, args, e):
            n = p.split("::")[-1]
            if p.startswith("clap::") or p.startswith("::clap::"):
                return ("clap", n)
            if p.split("::")[-2:] in (["BufReader", "new"], ["BufReader", "with_capacity"]) and args and args[-1] == ("file",):
                return ("file",)
            if n in ("read_to_end",) and len(args) == 2 and args[0] == ("file",):
                self.events.append(("read_to_end", args[1]))
                return ("ok", ("sym", "N"))
            if p.endswith("fs::File::open") and len(args) == 1:
                self.events.append(("open", args[0]))
                return ("ok", ("file",))
            if p.endswith("fs::read") and len(args) == 1:
                self.events.append(("open", args[0]))
                self.events.append(("read_to_end", ("file-contents",)))
                return ("ok", ("file-contents",))
            if p in ("Vec::new", "::alloc::vec::Vec::new", "std::vec::Vec::new"):
                return ("buffer",)
            if p.endswith("dr::load_bytes") and len(args) == 1:
                self.events.append(("load_bytes", args[0]))
                return ("ok", ("module",)) if self.ok else ("err", ("load-error",))
            if p.endswith("io::_print") and len(args) == 1:
                self.events.append(("print", flatten_fmt(args[0])))
                return ("unit",)
            if p.endswith("io::_eprint"):
                self.events.append(("eprint",))
                return ("unit",)
            if "process::exit" in p or "process::abort" in p:
                self.events.append(("exit", args))
                raise SPanic("exit")
            return NotImplemented

        def mcall(self, recv, m, args, e, ev):
            if isinstance(recv, tuple) and recv[0] == "clap":
                if m == "value_of":
                    return ("some", ("argument", args[0]))
                return ("clap", m)
            if recv == ("file",) and m == "read_to_end" and len(args) == 1:
                self.events.append(("read_to_end", args[0]))
                return ("ok", ("sym", "N"))
            if recv == ("module",) and m == "disassemble":
                return ("sym", "DISASSEMBLY")
            if recv == ("load-error",) and m == "to_string":
                return ("load-error",)
            return NotImplemented

    for okcase in (True, False):
        h = MH(okcase)
        inst = "main(load %s)" % ("succeeds" if okcase else "fails")
        try:
            r = SymEval(h, "main").run(f, {})
        except SPanic as x:
            chk.bad(R, inst, "main exits/panics explicitly: %s (events %s)" % (x, h.events), W, key="C20:main:%s" % okcase)
            continue
        except Anchor as ex:
            chk.bad(R, inst, "main is not analysable: %s" % ex, W, key="C20:main-shape")
            continue
        shown = ("sym", "DISASSEMBLY") if okcase else ("load-error",)
        want_print = ("print", [(shown, ""), "\n"])
        ev_ = h.events
        opened = [e_ for e_ in ev_ if e_[0] == "open"]
        reads = [e_ for e_ in ev_ if e_[0] == "read_to_end"]
        loads = [e_ for e_ in ev_ if e_[0] == "load_bytes"]
        prints = [e_ for e_ in ev_ if e_[0] in ("print", "eprint", "exit")]
        good = (len(opened) == 1 and opened[0][1] == ("argument", ("str", "input")) and len(reads) == 1 and len(loads) == 1
                and loads[0][1] == reads[0][1] and ev_.index(opened[0]) < ev_.index(reads[0]) < ev_.index(loads[0])
                and prints == [want_print] and ev_[-1] == want_print)
        chk.check(R, good, inst, "effects of main: %s; expected: open the `input` argument, read it to the end, load_bytes of exactly that buffer, then print %s followed by a newline and nothing else" % (
            ev_, "the disassembly" if okcase else "the error"), W, key="C20:main:%s" % okcase, sample=str(ev_))
    req = [show(n) for g_ in dis.fns("rspirv_dis") for n in walk(g_["body"]) if n[0] == "mcall" and n[2] == "required"]
    chk.check(R, any(("with_name(" in r_ or "Arg::new(" in r_) and ".required(true)" in r_ for r_ in req), "main_required_arg", "argument declaration: %s" % req, W)

    # panic census from main
    g = panicx.Graph(ctx)
    mains = g.find("main", "rspirv_dis")
    mains = [k for k in mains if mir_name(k).endswith("::main") or k.endswith("::main")]
    if len(mains) != 1:
        raise Anchor("rspirv_dis::main not found in MIR facts (%d)" % len(mains))
    reach = g.reachable(mains)
    found = c04.census(ctx, chk, g, reach, "rspirv-dis")
    c04.check_counts(chk, found, only_fns=None)
    c04.check_counts(chk, found, only_fns=["rspirv_dis"])
    chk.floor("R-PANIC-2", "functions reachable from main", len(reach), 200)
    c04.discharge(ctx, chk, g)

    RD = chk.rule("R-ERRMSG", "the Display impls of the parser State, the DecodeError and the loader Error, and the methods of these types they may call, contain no "
                  "string literal with a newline (one-line message); that every variant has an arm is the compiler's exhaustiveness check")
    for mod, ty in (("rspirv::binary::parser", "State"), ("rspirv::dr::loader", "Error"), ("rspirv::binary::autogen_error", "Error")):
        try:
            ctx.rspirv.item(mod, "enum", ty)
        except Anchor:
            chk.bad(RD, "%s::%s" % (mod, ty), "enum not found", None)
            continue
        disp = [x for x in ctx.rspirv.fns(mod, ty) if x["name"] == "fmt" and (x.get("trait") or "").endswith("Display")]
        if len(disp) != 1:
            chk.bad(RD, "%s::%s" % (mod, ty), "expected one Display impl, found %d" % len(disp), None)
            continue
        # the impl's fmt, the type's other methods and the module's free functions (helpers the rendering may go through)
        fns = disp + [x for x in ctx.rspirv.fns(mod, ty, False)] + [x for x in ctx.rspirv.fns(mod) if x["name"] != "main"]
        strs = []
        for f_ in fns:
            strs += [x[2] for x in walk(f_["body"]) if x[0] == "lit" and x[1] == "str"]
            strs += [x[2] for x in walk(f_["body"]) if x[0] == "macro" and x[1] == "format_args"]
        nl = [s_ for s_ in strs if "\\n" in s_ or "\n" in s_]
        chk.check(RD, not nl, "%s::%s" % (mod.split("::")[-1], ty), "strings with newline: %s" % nl[:2], raw.where("fmt", ty), sample=len(strs))
    chk.analysed.update({"reachable_from_main": len(reach)})


def thorough(ctx, chk):
    c04.thorough(ctx, chk)
