"""C01 Load-then-assemble reproduces every instruction of the input binary."""
from ..core import Anchor
from ..model import op_values
from ..tree import mir_name, path_of, show, show_stmt, walk, where
from . import loadeval as loaderx
from .trav import Trav, expected_module_all

EXPLANATION = (
    "Round-trip equality over all accepted binaries is a poor static target as a whole; it is decided here through its structural "
    "preconditions, each checked on the current source: S1 codec agreement between parser and assembler (the rules of C02); S2 "
    "every accepted instruction is moved into exactly one container (loader automaton, rules of C05); S3 the loader only appends "
    "(MIR census of calls on Vec-typed fields in dr::loader); S4 the assembler walks the containers in logical-layout order and "
    "reads every container the loader writes (rules of C15 plus a coverage join); S5 the header is rebuilt from version (word 1) "
    "and bound (word 3) and emitted in header order; S6 instruction framing; S7 no lossy narrowing cast between decoding and "
    "storing a word (MIR cast census). The documented exceptions (OpLine/OpNoLine between blocks, several OpMemoryModel) are the "
    "overwriting/fallback sinks visible in the extracted automaton.")
EXHAUSTIVE = False     # the abstract inputs are a stated finite scope, not the whole input space


def run(ctx, chk):
    raw = ctx.raw
    mir = ctx.mir("rspirv")
    # S1, S6: codec pairing and framing; S2: loader automaton; S4: traversal order; header version functions
    from . import c02, c05, c15
    c02.run(ctx, chk)
    c05.run(ctx, chk)
    c15.run(ctx, chk)

    R3 = chk.rule("S3-APPEND-ONLY", "inside dr::loader every call that mutates a Vec of the module under construction appends (Vec::push / extend / extend_from_slice) "
                  "(no insert/remove/swap/sort/clear/truncate/pop): order inside a section, function and block is input order")
    n = 0
    for p, fn in mir.fns.items():
        if "dr::loader::" not in p:
            continue
        for b in fn["blocks"]:
            t = b["t"]
            if t["t"] == "call" and (t.get("rs") or "").startswith("std::vec::Vec") and not b.get("cleanup"):
                nm = t.get("rn")
                if nm in ("new", "len", "is_empty", "iter", "as_slice", "deref", "index", "last", "first", "clone", "fmt", "with_capacity", "default"):
                    continue
                n += 1
                chk.check(R3, nm in ("push", "extend", "extend_from_slice"), "%s:Vec::%s" % (mir_name(p).split("::")[-1], nm), "loader calls Vec::%s" % nm, where(t["span"]),
                          key="C01:vec:%s:%s" % (mir_name(p).split("::")[-1], nm))
    chk.floor(R3, "Vec mutations in the loader", n, 10)

    R4 = chk.rule("S4-COVER", "every container the loader can move an instruction into is read by Module::assemble_into")
    from . import travx, walkx
    emitted = None
    for inst_, wh_, got_, want_ in travx.cases(ctx):
        if inst_ == "Module::assemble_into":
            emitted = got_
    if not isinstance(emitted, list):
        raise Anchor("Module::assemble_into could not be evaluated on the abstract module: %s" % (emitted,))
    name_in = {"module." + f_: n_ for f_, n_, _ in walkx.SECTIONS}
    name_in.update({"module.types_global_values": "TYPE", "function.def": "FUNCTION", "function.end": "FUNCTION_END", "function.parameters": "PARAMETER",
                    "block.label": "LABEL", "block.instructions": "ADD"})
    ops, _ = op_values(ctx)
    sinks = set()
    for st in ((False, False), (True, False), (True, True)):
        for op in ops:
            res, _m = loaderx.consume(ctx, op, st[0], st[1])
            if res[0] == "ok":
                sinks |= set(res[1])
    for s in sorted(sinks):
        nm = name_in.get(s)
        chk.check(R4, nm is not None and nm in emitted, "sink:" + s, "the loader stores instructions in %s, which Module::assemble_into does not emit on the "
                  "abstract module (emitted: %s)" % (s, emitted), raw.where("assemble_into", "Module", "assemble.rs"), sample=nm)
    chk.floor(R4, "loader sinks", len(sinks), 16)

    R5 = chk.rule("S5-HEADER", "the loader keeps the parsed header (consume_header stores it); parse_header builds it from word 3 (bound) "
                  "and word 1 (version); the assembler emits magic, version, generator, bound, reserved in that order")
    from . import headerx
    try:
        act, ld = headerx.consume_header(ctx)
        good = act == ("enum", "ParseAction::Continue", []) and ld[2]["module"][2].get("header") == ("some", ("sym", "HEADER"))
        chk.check(R5, good, "Loader::consume_header", "consume_header(HEADER) on a new loader answers %s and leaves module.header = %s" % (
            headerx.short(act), headerx.short(ld[2]["module"][2].get("header"))), raw.where("consume_header", "Loader"))
    except Anchor as ex:
        chk.bad(R5, "Loader::consume_header", "not analysable: %s" % ex, raw.where("consume_header", "Loader"))
    for inst, pb, sample in headerx.header_problems(ctx):
        if "magic number)" in inst and "swapped" not in inst:
            chk.check(R5, pb is None, "parse_header:bound=word 3,version=word 1", "%s %s" % (inst, pb), raw.where("parse_header", "Parser"), sample=sample)
    headerx.report(chk, R5, raw, headerx.header_api_problems(ctx), only=["ModuleHeader::new", "ModuleHeader::assemble_into"], keyp="C01")
    from . import c06
    # version pack/unpack inverse (R-VER of C06) is evaluated there; re-evaluate the two functions here
    from . import lookx, asmx
    try:
        wv, vv = lookx.version_functions(ctx)
        good = wv == asmx.w32([0, ("byte", "minor"), ("byte", "major"), 0]) and vv == ("tuple", [("byte", "b2"), ("byte", "b1")])
        chk.check(R5, good, "version-roundtrip", "pack %s unpack %s" % (wv, vv), raw.where("create_word_from_version", None, "version.rs"))
    except Anchor as ex:
        chk.bad(R5, "version-roundtrip", "not analysable: %s" % ex, raw.where("create_word_from_version", None, "version.rs"))

    R7 = chk.rule("S7-NO-NARROWING", "between decoding a word and storing/looking it up no value is narrowed by an `as` cast that can drop "
                  "set bits: the only narrowing integer casts in rspirv::binary::parser are the two halves of the first instruction word")
    nn = 0
    # a narrowing cast is accepted only inside parse_inst or a function that only parse_inst calls (the split of the first word), and only
    # if parse_inst, evaluated on witness words whose nibbles are pairwise distinct, yields exactly (word >> 16, word & 0xffff)
    import re as _re

    def _norm(x):
        # resolved path without generic arguments (`Parser::<'c, 'd>::parse_inst` and `Parser::<'_, '_>::parse_inst` are one function)
        prev = None
        while prev != x:
            prev, x = x, _re.sub(r"::<[^<>]*>", "", x)
        return x
    callers = {}
    for p_, fn_ in mir.fns.items():
        for b_ in fn_["blocks"]:
            t_ = b_["t"]
            if t_["t"] == "call" and t_.get("r"):
                callers.setdefault(_norm(t_["r"]), set()).add(_norm(p_).split("::{closure")[0])
    root = [q for q in map(_norm, mir.fns) if q.endswith("binary::parser::Parser::parse_inst")]
    if len(root) != 1:
        raise Anchor("Parser::parse_inst not found in the MIR facts: %s" % root)
    only_from_split = set(root)        # parse_inst and the functions only it (transitively) calls
    grew = True
    while grew:
        grew = False
        for c_, who_ in callers.items():
            if c_ not in only_from_split and who_ and who_ <= only_from_split:
                only_from_split.add(c_)
                grew = True
    from . import headerx as _hx
    split_ok = all(pb is None for _i, pb, _s in _hx.parse_inst_problems(ctx))
    width = {"u8": 8, "u16": 16, "u32": 32, "u64": 64, "usize": 64, "i8": 8, "i16": 16, "i32": 32, "i64": 64, "isize": 64}
    for p, fn in mir.fns.items():
        nm = mir_name(p)
        fl_ = (fn.get("span") or {}).get("file", "")
        in_scope = nm.startswith(("binary::parser::", "dr::loader::", "binary::decoder::", "binary::tracker::")) or \
            fl_.endswith(("binary/parser.rs", "dr/loader.rs", "binary/decoder.rs", "binary/tracker.rs")) or \
            (_norm(p).split("::{closure")[0] in only_from_split)        # helpers of parse_inst living elsewhere
        if not in_scope:
            continue
        for b in fn["blocks"]:
            for s in b["s"]:
                if s["f"] == "cast" and s["ck"] == "IntToInt" and s["from"] in width and s["to"] in width and width[s["to"]] < width[s["from"]]:
                    if "rustlib" in s["span"]["file"] or s["span"]["file"].startswith("/"):
                        continue
                    nn += 1
                    fnm = nm.split("::")[-1]
                    in_split = _norm(p).split("::{closure")[0] in only_from_split
                    chk.check(R7, in_split and split_ok and s["from"] == "u32" and s["to"] == "u16", "%s:%s->%s" % (fnm, s["from"], s["to"]),
                              "narrowing cast %s -> %s in %s" % (s["from"], s["to"], nm), where(s["span"]), key="C01:narrow:%s:%s->%s" % (fnm, s["from"], s["to"]))
    ncast = sum(1 for fn_ in mir.fns.values() for b_ in fn_["blocks"] for s_ in b_["s"] if s_["f"] == "cast")
    chk.floor(R7, "cast facts in the crate (non-vacuity of the census)", ncast, 100)
    chk.analysed.update({"loader_sinks": sorted(sinks), "assembler_paths": emitted, "narrowing_casts": nn})
