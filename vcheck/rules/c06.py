"""C06 Every module built with the Builder survives assemble-then-load unchanged."""
import re

from ..core import Anchor
from ..model import core_row, grammar_tables, op_values
from ..tree import path_of, show, show_stmt, walk
from . import builder, codec
from . import loadeval as loaderx

EXPLANATION = (
    "Every instruction-emitting Builder method (1121 of 1175) is summarised: opcode, result type/id presence, the operand slots built "
    "from its parameters, and the container it emits into (generated methods by their template shape; hand-written ones by evaluating "
    "them on a builder with a selected block / nothing selected, optional arguments absent, present and each alone, two-element "
    "slices). R-SECT joins (opcode, container) with the loader's table in the state the loader is in when it meets that instruction "
    "in the assembled stream; R-SLOT compares the slots operand for operand with the grammar row of the opcode (kinds mapped through "
    "the parser's own kind->variant table, quantifiers, parameter order); R-NAME ties method names and docs to opcodes; R-VER "
    "evaluates set_version/version. Value equality for all argument values is not computed.")
EXHAUSTIVE = False     # the abstract inputs are a stated finite scope, not the whole input space

GENERIC_PARAMS = {"result_type", "result_id", "insert_point"}


def expected_slots(ctx, row, pt):
    """grammar row -> (has_rtype, has_rid, [(form, variants)], parameterised?)"""
    ops = list(row["operands"])
    has_rt = bool(ops) and ops[0][0] == "IdResultType"
    if has_rt:
        ops = ops[1:]
    has_rid = bool(ops) and ops[0][0] == "IdResult"
    if has_rid:
        ops = ops[1:]
    out = []
    param = False
    for kind, q in ops:
        e = pt.get(kind)
        if kind == "LiteralContextDependentNumber":
            vs = ["LiteralBit32|LiteralBit64"]
        elif kind == "LiteralSpecConstantOpInteger":
            vs = ["LiteralSpecConstantOpInteger"]
        elif kind == "PairLiteralIntegerIdRef":
            vs = ["<Operand>", "IdRef"]
        elif e is None or e.get("panic"):
            vs = ["?" + kind]
        else:
            vs = [v for v, _ in e["ops"]]
            if e.get("args"):
                param = True
        form = {"One": "one", "ZeroOrOne": "opt", "ZeroOrMore": "many"}[q]
        out.append((form, vs))
    return has_rt, has_rid, out, param


def norm_variants(vs):
    return [v.split("@")[0] for v in vs]


def method_opname(name):
    n = name
    if n.startswith("insert_"):
        n = n[len("insert_"):]
    return n.replace("_", "").lower()


def run(ctx, chk):
    raw = ctx.raw
    ms = builder.methods(ctx)
    ops, aliases = op_values(ctx)
    pt = codec.parse_operand_table(ctx)
    em = [m for m in ms if m["emits"]]
    chk.trusted += ["C05: the loader's extracted automaton equals the reference (checked by that property)",
                    "C02: variant encodings are inverse to the parser's decoding"]

    R0 = chk.rule("R-SHAPE", "every instruction-emitting Builder method is in an analysable shape and reaches the module only through "
                  "self.module.<section>.push, insert_into_block, end_block/insert_end_block, insert_types_global_values or the function/block "
                  "bookkeeping of begin_*/end_function")
    for m in em:
        chk.check(R0, not m["problems"] and m["sink"] is not None and m["opcode"] in ops, "Builder::" + m["name"],
                  "method is not analysable: %s (sink %s, opcode %s)" % (m["problems"][:2], m["sink"], m["opcode"]), m["where"])
    chk.floor(R0, "instruction-emitting methods", len(em), 1121)
    good = [m for m in em if not m["problems"] and m["sink"] is not None and m["opcode"] in ops]

    R1 = chk.rule("R-SECT", "the container a Builder method emits into is the container the loader files that opcode into, in the state "
                  "the loader is in when it reads the instruction from the assembled stream (module sections: before any function; "
                  "block instructions: function and block open; terminators additionally close the block)")
    cache = {}

    def loader(op, st):
        if (op, st) not in cache:
            cache[(op, st)] = loaderx.consume(ctx, op, st[0], st[1])[0]
        return cache[(op, st)]
    for m in good:
        op, sink = m["opcode"], m["sink"]
        inst = "Builder::%s(Op%s)" % (m["name"], op)
        cases = []
        if sink[0] == "section":
            cases = [((False, False), "module." + sink[1], (False, False))]
        elif sink[0] == "block":
            cases = [((True, True), "block.instructions", (True, True))]
        elif sink[0] == "end_block":
            cases = [((True, True), "block.instructions", (True, False))]
        elif sink[0] == "block_or_global":
            cases = [((True, True), "block.instructions", (True, True)), ((False, False), "module.types_global_values", (False, False))]
        elif sink[0] == "fn_def":
            cases = [((False, False), "function.def", (True, False))]
        elif sink[0] == "fn_end":
            cases = [((True, False), "function.end", (False, False))]
        elif sink[0] == "fn_param":
            cases = [((True, False), "function.parameters", (True, False))]
        elif sink[0] == "label":
            cases = [((True, False), "block.label", (True, True))]
        else:
            chk.bad(R1, inst, "unknown sink %s" % (sink,), m["where"])
            continue
        ok = True
        why = ""
        for st, want_sink, want_next in cases:
            res = loader(op, st)
            if not (res[0] == "ok" and res[1] == [want_sink] and res[2] == want_next):
                ok = False
                why = "the Builder puts Op%s into %s but the loader, meeting it there, answers %s" % (
                    op, want_sink, ("error " + res[1]) if res[0] == "error" else str(res[1:3]))
        chk.check(R1, ok, inst, why, m["where"], key="C06:sect:%s" % m["name"],
                  sample={"opcode": op, "sink": sink} if m["name"] in ("name", "i_add", "branch") else None)

    R2 = chk.rule("R-SLOT", "the instruction a method builds matches the grammar row of its opcode operand for operand: result type / "
                  "result id present iff the row has them, required operands as vec![..] elements, optional ones as `if let Some`, "
                  "variadic ones as extend/for, parameterised kinds followed by additional_params; variants are those the parser "
                  "produces for the kind; parameters are used in signature order")
    nslot = 0
    for m in good:
        row = core_row(ctx, m["opcode"])
        inst = "Builder::%s" % m["name"]
        if row is None or row["operands"] is None:
            chk.bad(R2, inst, "no grammar row for Op%s" % m["opcode"], m["where"])
            continue
        has_rt, has_rid, want, param = expected_slots(ctx, row, pt)
        nslot += 1
        problems = []
        if (m["rtype"][0] != "none") != has_rt:
            problems.append("result type %s but the grammar row %s one" % ("given" if m["rtype"][0] != "none" else "missing", "has" if has_rt else "has no"))
        if (m["rid"][0] != "none") != has_rid:
            problems.append("result id %s but the grammar row %s one" % ("given" if m["rid"][0] != "none" else "missing", "has" if has_rid else "has no"))
        if m["rtype"][0] == "some" and m["rtype"][1] != "result_type" and m["file"] and "autogen" in m["file"]:
            problems.append("result type is %s" % m["rtype"][1])
        got = [(s[0], norm_variants(s[1])) for s in m["slots"] if s[0] != "additional"]
        add = [s for s in m["slots"] if s[0] == "additional"]
        generated = bool(m["file"]) and "autogen" in m["file"]
        if generated:
            if len(add) != (1 if param else 0) or (add and m["slots"][-1][0] != "additional"):
                problems.append("additional_params %s but the row %s a parameterised operand kind" % ("present" if add else "absent", "has" if param else "has no"))
        cmp_got, cmp_want = got, [(f, v) for f, v in want]
        if not generated and param and not add and len(cmp_got) == len(cmp_want) + 1 and cmp_got[-1][0] == "many":
            # hand-written method passing the parameters of a parameterised kind as a typed list instead of additional_params:
            # O-SPEC: OpExecutionMode takes modes with literal parameters, OpExecutionModeId modes with <id> parameters
            tail = cmp_got[-1][1]
            want_tail = {"ExecutionMode": ["LiteralBit32"], "ExecutionModeId": ["IdRef"]}.get(m["opcode"])
            if want_tail is None or tail != want_tail:
                problems.append("parameters of the parameterised operand are emitted as %s; Op%s takes %s" % (tail, m["opcode"], want_tail))
            cmp_got = cmp_got[:-1]
        if not slots_equal(cmp_got, cmp_want, generated):
            problems.append("operand slots %s do not match the grammar row %s" % (cmp_got, cmp_want))
        # parameters in signature order
        used = [s[2].split(".")[0] for s in m["slots"]]
        sig = [p[0] for p in m["params"] if p[0] not in GENERIC_PARAMS]
        if generated and used != sig:
            problems.append("parameters are used in the order %s but declared as %s" % (used, sig))
        chk.check(R2, not problems, inst, "; ".join(problems), m["where"], key="C06:slot:%s" % m["name"],
                  sample={"slots": got, "row": row["operands"]} if m["name"] in ("branch_conditional", "image_sample_implicit_lod") else None)
    chk.floor(R2, "methods compared with their grammar row", nslot, 1121)

    RN = chk.rule("R-NEST", "where the parser demands more words than the grammar row shows (OpSpecConstantOp: the nested opcode's "
                  "operands follow the opcode literal, Parser::parse_spec_constant_op), the Builder method must be able to carry them")
    from . import parserx
    sc = parserx.spec_constant_op(ctx)
    for m in good:
        row = core_row(ctx, m["opcode"])
        if row and any(k == "LiteralSpecConstantOpInteger" for k, _ in row["operands"]):
            carries = any(s_[0] in ("many", "additional") for s_ in m["slots"])
            chk.check(RN, carries or not sc["calls_generic"], "Builder::" + m["name"],
                      "Builder::%s emits only the opcode literal of Op%s; the parser then requires the nested opcode's operands, so the "
                      "assembled instruction is rejected by the loader" % (m["name"], m["opcode"]), m["where"], key="C06:nest:%s" % m["name"])

    RL = chk.rule("R-LABEL", "every Builder method that opens a block (pushes a Block and selects it) gives the block its OpLabel, "
                  "otherwise the assembled block has no label and the loader rejects its instructions")
    for m in ms:
        body = m["fn"]["body"]
        opens = any(show_stmt(s_).startswith("self.selected_block = Some(") for s_ in body[1])
        if opens and any("Block::new()" in show_stmt(s_) for s_ in body[1]):
            labelled = any(show_stmt(s_).startswith("bb.label = Some(") or ".label = Some(" in show_stmt(s_) for s_ in body[1])
            chk.check(RL, labelled, "Builder::" + m["name"], "Builder::%s opens a block without an OpLabel; `%s; ret; end_function` assembles "
                      "to a function body the loader rejects (MismatchedTerminator)" % (m["name"], m["name"]), m["where"], key="C06:label:%s" % m["name"])

    R3 = chk.rule("R-NAME", "method name (without insert_ and underscores) equals the opcode name case-insensitively for generated "
                  "methods, and the doc comment names the same Op<opcode>; x and insert_x build the same opcode")
    byname = {m["name"]: m for m in good}
    SPECIAL = {"ret": "Return", "ret_value": "ReturnValue"}
    for m in good:
        if not (m["file"] and "autogen" in m["file"]):
            continue
        base = m["name"][len("insert_"):] if m["name"].startswith("insert_") else m["name"]
        if base.endswith("_id") and base.startswith("type_") and base[:-3] in [x["name"] for x in ms]:
            base = base[:-3]
        want = SPECIAL.get(base)
        ok = (want == m["opcode"]) if want else (base.replace("_", "").lower() == m["opcode"].lower())
        docops = re.findall(r"Op([A-Za-z0-9_]+)", m["doc"] or "")
        ok = ok and (not docops or docops[0] == m["opcode"])
        chk.check(R3, ok, "Builder::" + m["name"], "method %s builds Op%s (doc: %s)" % (m["name"], m["opcode"], docops[:1]), m["where"])
        if m["name"].startswith("insert_") and m["name"][7:] in byname:
            o = byname[m["name"][7:]]
            same = o["opcode"] == m["opcode"] and [(s[0], s[1]) for s in o["slots"]] == [(s[0], s[1]) for s in m["slots"]] \
                and o["rtype"][0] == m["rtype"][0] and o["rid"][0] == m["rid"][0]
            chk.check(R3, same, "Builder::%s~%s" % (m["name"], o["name"]), "insert_ variant builds a different instruction than its twin", m["where"])

    R4 = chk.rule("R-VER", "ModuleHeader::set_version / Builder::set_version (with and without a header) leave the version word 0x00MMmm00 and "
                  "nothing else changed; ModuleHeader::version / Builder::version read (byte 2, byte 1) back (evaluated with the real "
                  "helper functions inlined); create_word_from_version and create_version_from_word are inverse on those bytes")
    from . import lookx, asmx
    try:
        wv, vv = lookx.version_functions(ctx)
        good = wv == asmx.w32([0, ("byte", "minor"), ("byte", "major"), 0]) and vv == ("tuple", [("byte", "b2"), ("byte", "b1")])
        chk.check(R4, good, "version-functions-inverse", "create_word_from_version(major, minor) = %s; create_version_from_word(b0..b3) = %s" % (wv, vv),
                  raw.where("create_word_from_version", None, "version.rs"), sample={"pack": str(wv), "unpack": str(vv)})
    except Anchor as ex:
        chk.bad(R4, "version-functions-inverse", "not analysable: %s" % ex, raw.where("create_word_from_version", None, "version.rs"))
    from . import headerx
    try:
        ipb = headerx.instruction_new_problem(ctx)
    except Anchor as ex:
        ipb = "not analysable: %s" % ex
    chk.check(R0, ipb is None, "Instruction::new", "Instruction::new(opcode, result type, result id, operands) %s" % ipb, raw.where("new", "Instruction", "constructs.rs"))
    nv = headerx.report(chk, R4, raw, headerx.header_api_problems(ctx), only=["set_version", "::version"], keyp="C06")
    chk.floor(R4, "version API cases", nv, 6)
    chk.analysed.update({"builder_methods": len(ms), "emitting": len(em), "loader_evaluations": len(cache)})


def slots_equal(got, want, generated):
    if len(got) != len(want):
        return False
    for (gf, gv), (wf, wv) in zip(got, want):
        if gf != wf:
            return False
        if gv == wv:
            continue
        if len(gv) == len(wv) and all(x == y or (y == "LiteralBit32|LiteralBit64" and x in ("LiteralBit32", "LiteralBit64")) for x, y in zip(gv, wv)):
            continue
        if not generated and gv == ["<Operand>"]:
            continue   # caller-supplied dr::Operand values (conforming arguments are the caller's obligation)
        return False
    return True
