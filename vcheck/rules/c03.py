"""C03 Parser accepts exactly the grammar and reports the first malformed instruction."""
import re

from ..core import Anchor
from ..model import grammar_tables
from ..tree import int_of, is_node, mir_name, path_of, show, show_stmt, sites, unblock, walk, where
from . import codec, parserx

EXPLANATION = (
    "parse_header, parse_inst, parse_operands and parse_spec_constant_op are evaluated (by the rule engine's evaluator of the expanded "
    "syntax tree, helpers inlined, nothing of rspirv executed) against scripted decoders: the four outcomes of reading the header; "
    "no word / word count 0 / unknown opcode / operand error / words left / well-formed (word counts 1 and 0x8421, at byte 0 and 1000); "
    "all operand lists of length <= 3 over the three quantifiers with 0..4 words, and the five special rows. Results, error payloads "
    "(offset, instruction number) and the decoder-limit bracket are compared with the tables of the property statement; the quantifier "
    "table together with the well-formedness of every grammar row (C09) is the grammar's language; inst_index has one writer (MIR "
    "census). A small scope of witness words, not a proof over all word values; the nested operand grammar of OpSpecConstantOp beyond "
    "the evaluated cases is not decided.")
EXHAUSTIVE = False     # the abstract inputs are a stated finite scope, not the whole input space

PAR = "rspirv::binary::parser"


def strip_cond(c):
    """'(X)' / '!(X)' / nested -> (X, polarity)"""
    pol = True
    c = c.strip()
    while True:
        if c.startswith("!"):
            pol = not pol
            c = c[1:].strip()
            continue
        if c.startswith("(") and c.endswith(")") and balanced(c[1:-1]):
            c = c[1:-1].strip()
            continue
        break
    return c, pol


def balanced(s):
    d = 0
    for ch in s:
        if ch == "(":
            d += 1
        elif ch == ")":
            d -= 1
            if d < 0:
                return False
    return d == 0


def atoms(conds, rules):
    out = set()
    for c in conds:
        m = re.match(r"^(.*) matches (.*)$", c)
        if m and not c.startswith("(") and not c.startswith("!"):
            txt, pol = c, True
        else:
            txt, pol = strip_cond(c)
        for name, fn in rules:
            r = fn(txt)
            if r is not None:
                out.add((name, pol if r else not pol))
                break
        else:
            out.add(("UNKNOWN:" + txt[:70], pol))
    return frozenset(out)


def fmt(a):
    return "{" + ", ".join(sorted(("" if p else "not ") + n for n, p in a)) + "}"


ADVANCING = re.compile(r"self\.decoder\.(?!offset\(\)|limit_reached\(\)|has_limit\(\))\w+\(|self\.parse_\w+\(")


def run(ctx, chk):
    raw = ctx.raw
    mir = ctx.mir("rspirv")
    from .codec import consts_of
    consts = consts_of(ctx, PAR)
    sconsts = {c["name"]: int_of(c["init"]) for c in ctx.spirv.items("spirv", "const") if c["name"] != "_"}

    R1 = chk.rule("R-HEADER", "parse_header, evaluated on the four abstract outcomes of reading the header: five words must be readable (else HeaderIncomplete); word 0 equal to the magic number -> "
                  "accept with bound = word 3 and version = word 1; equal to the byte-swapped magic -> EndiannessUnsupported; "
                  "otherwise HeaderIncorrect")
    W = raw.where("parse_header", "Parser")
    f = ctx.rspirv.fn(PAR, "parse_header", "Parser")
    from . import headerx
    for inst, pb, sample in headerx.header_problems(ctx):
        chk.check(R1, pb is None, inst, "%s %s" % (inst, pb), W, key="C03:header:" + inst, sample=sample)
    chk.check(R1, consts.get("HEADER_NUM_WORDS", 5) == 5, "HEADER_NUM_WORDS=5", "HEADER_NUM_WORDS is %s" % consts.get("HEADER_NUM_WORDS"), W)
    chk.check(R1, sconsts.get("MAGIC_NUMBER") == 0x07230203, "MAGIC_NUMBER", "MAGIC_NUMBER is %s" % sconsts.get("MAGIC_NUMBER"), "spirv/autogen_spirv.rs")
    from . import stringx
    pb = stringx.hand_problem(ctx, "words")
    chk.check(R1, pb is None, "Decoder::words(n)=n×word()", "words(n) differs from n successive word() requests: %s" % pb, raw.where("words", "Decoder"))

    R2 = chk.rule("R-FRAME", "parse_inst, evaluated against a scripted decoder (first word 0x8421A5C3 / word count 0 / word count 1, at byte 0 and 1000): no first word -> Complete; word count 0 -> WordCountZero(offset-4, n); unknown opcode -> "
                  "OpcodeUnknown(offset-4, n, opcode); limit = word count - 1 set before the operands are parsed; words left afterwards "
                  "-> OperandExceeded(offset, n); otherwise the instruction; (word count, opcode) = (w >> 16, w & 0xffff)")
    W = raw.where("parse_inst", "Parser")
    f = ctx.rspirv.fn(PAR, "parse_inst", "Parser")
    from . import headerx
    for inst, pb, sample in headerx.parse_inst_problems(ctx):
        chk.check(R2, pb is None, inst, "%s: %s" % (inst, pb), W, key="C03:frame:" + inst.split(",")[0], sample=sample if "well-formed instruction," in inst else None)
    chk.check(R2, consts.get("WORD_NUM_BYTES", 4) == 4, "WORD_NUM_BYTES=4", "is %s" % consts.get("WORD_NUM_BYTES"), W)

    R3 = chk.rule("R-QUANT", "parse_operands, abstractly interpreted on every operand list of length <= 3 over {One, ZeroOrOne, ZeroOrMore} with "
                  "0..4 words left: words left and One|ZeroOrOne -> consume, next logical operand; words left and ZeroOrMore -> consume, same "
                  "operand; no words and One -> OperandExpected(offset, n); no words and ZeroOrOne|ZeroOrMore -> stop; operands are "
                  "delivered in consumption order; the special kinds are routed to result type / result id / context-dependent literal / "
                  "switch pairs / nested opcode")
    from . import quantx
    W = raw.where("parse_operands", "Parser")
    nq = 0
    shape_fail = None
    for quants, words in quantx.cases(quantx.extra(ctx)):
        kinds = ["K%d" % i for i in range(len(quants))]
        try:
            r, h = quantx.evaluate(ctx, kinds, quants, words)
        except Anchor as ex:
            shape_fail = str(ex)
            break
        nq += 1
        want = quantx.reference(quants, words)
        if want[0] == "err":
            good = isinstance(r, tuple) and r[0] == "err" and r[1] == ("enum", "State::OperandExpected", [("sym", "offset"), ("selffield", "inst_index")])
            got = r
        else:
            seq = [c[1] for c in h.consumed if c[0] == "operand"]
            good = isinstance(r, tuple) and r[0] == "ok" and isinstance(r[1], tuple) and r[1][0] == "instruction" and seq == want[1] \
                and len(h.consumed) == len(want[1]) and isinstance(r[1][4], tuple) and r[1][4][0] == "list" and len(r[1][4][1]) == len(want[1]) \
                and r[1][2] == ("none",) and r[1][3] == ("none",)
            got = (r[0] if isinstance(r, tuple) else r, seq)
        chk.check(R3, good, "operands=%s words=%d" % (quants, words), "parse_operands yields %s, the grammar says %s" % (str(got)[:200], want), W,
                  key="C03:quant:%s:%d" % ("/".join(quants), words), sample=str(want) if quants == ["One", "ZeroOrMore"] and words == 3 else None)
    if shape_fail:
        chk.bad(R3, "parse_operands", "parse_operands is not analysable: %s" % shape_fail, W, key="C03:parse_operands-shape")
    chk.floor(R3, "quantifier cases", nq, 200)
    # special kinds
    sp = [("Undef-like: result type and id", ["IdResultType", "IdResult"], ["One", "One"], 2, "Undef", [("id",), ("id",)]),
          ("Constant: literal sized by the result type", ["IdResultType", "IdResult", "LiteralContextDependentNumber"], ["One", "One", "One"], 3, "Constant", None),
          ("Switch: pairs sized by the selector", ["IdRef", "IdRef", "PairLiteralIntegerIdRef"], ["One", "One", "ZeroOrMore"], 6, "Switch", None),
          ("SpecConstantOp: nested opcode", ["IdResultType", "IdResult", "LiteralSpecConstantOpInteger"], ["One", "One", "One"], 3, "SpecConstantOp", None)]
    for name, kinds, quants, words, opcode, _ in sp:
        try:
            r, h = quantx.evaluate(ctx, kinds, quants, words, opcode)
        except Anchor as ex:
            chk.bad(R3, "special:" + name, "not analysable: %s" % ex, W, key="C03:special-shape")
            continue
        ok = isinstance(r, tuple) and r[0] == "ok" and r[1][0] == "instruction"
        why = str(r)[:200]
        if ok and opcode == "Undef":
            ok = r[1][2] == ("some", ("sym", "id1")) and r[1][3] == ("some", ("sym", "id2")) and r[1][4] == ("list", [])
        elif ok and opcode == "Constant":
            ok = h.consumed == [("id",), ("id",), ("literal", ("sym", "id1"))] and r[1][2] == ("some", ("sym", "id1")) and len(r[1][4][1]) == 1
            why = "consumed %s" % h.consumed
        elif ok and opcode == "Switch":
            # selector, default, then (literal sized by the selector's id, label id) pairs
            sel = ("sym", "w1")
            ok = h.consumed == [("operand", "IdRef"), ("operand", "IdRef"), ("literal", sel), ("id",), ("literal", sel), ("id",)] and len(r[1][4][1]) == 6 \
                and r[1][4][1][3] == ("enum", "Operand::IdRef", [("sym", "id4")])
            why = "consumed %s" % h.consumed
        elif ok and opcode == "SpecConstantOp":
            ok = h.consumed == [("id",), ("id",), ("spec",)]
            why = "consumed %s" % h.consumed
        chk.check(R3, ok, "special:" + name, why, W, key="C03:special:%s" % opcode)
    po_ = parserx.parse_operands(ctx) if False else None
    R4 = chk.rule("R-UNKNOWN", "every enumerant/mask operand is decoded through a method that rejects undeclared values with its own "
                  "<Kind>Unknown(offset - 4, word) error (audited decoder shape)")
    dm = codec.decoder_methods(ctx)
    nt = 0
    for mname, d in sorted(dm.items()):
        if d["cls"] in ("enum", "mask"):
            nt += 1
            chk.check(R4, not d["problems"] and d["via"] in ("from_u32", "from_bits"), "Decoder::" + mname, "; ".join(d["problems"]) or d["via"], raw.where(mname, "Decoder"))
    chk.floor(R4, "typed decoder methods", nt, 56)
    pt = codec.parse_operand_table(ctx)
    kinds = grammar_tables(ctx)["kinds"]
    from ..model import spirv_enums, spirv_masks
    en, ma = spirv_enums(ctx), spirv_masks(ctx)
    for k in kinds:
        e = pt.get(k)
        if e and not e.get("panic") and (k in en or k in ma):
            v, m = e["ops"][0]
            chk.check(R4, v == k and m in dm and dm[m]["ty"] == k, "kind:" + k, "kind %s is decoded by %s into %s" % (k, m, v), "rspirv/binary/autogen_parse_operand.rs")

    RP = chk.rule("R-PARAMQ", "parameters of enumerants are consumed with the quantifier the grammar gives them (the reflection table "
                  "additional_operands is the in-repo projection of the grammar's parameter quantifiers): a variadic/optional "
                  "parameter must not be parsed as exactly one word")
    from . import c17
    ao = c17.reflect_table(ctx, "additional_operands", "ops")
    pa = {d["param_ty"]: d for d in codec.parse_arguments(ctx).values()}
    for ty, d in sorted(ao.items()):
        ent = d["map"].items() if d["style"] == "enum" else [(fl, ops) for flags, ops in d["entries"] for fl in flags]
        for name, ops in ent:
            nonone = [(k, q) for k, q in ops if q != "One"]
            chk.check(RP, not nonone, "%s::%s" % (ty, name),
                      "the grammar gives %s::%s the parameters %s but parse_%s_arguments consumes a fixed list of single words: "
                      "grammar-conforming instructions with zero or several of them are rejected" % (ty, name, ops, c17.snake(ty)),
                      "rspirv/binary/autogen_parse_operand.rs", key="C03:paramq:%s::%s" % (ty, name))

    R6 = chk.rule("R-INDEX", "inst_index is written only by parse_inst (exactly one increment per call that read a word) and every positional "
                  "error of the evaluated cases carries (byte offset of the instruction [or of the first excess word], 1-based instruction number)")
    writers = {}
    for p, fn in mir.fns.items():
        for b in fn["blocks"]:
            for s in b["s"]:
                if s["f"] == "fw" and s["chain"] and s["chain"][-1][0].endswith("parser::Parser") and s["chain"][-1][1] == "inst_index":
                    writers.setdefault(mir_name(p), []).append(where(s["span"]))
    chk.check(R6, list(writers) == ["binary::parser::Parser::parse_inst"] and len(writers["binary::parser::Parser::parse_inst"]) == 1,
              "inst_index-writers", "written by %s" % writers, raw.where("parse_inst", "Parser"))
    try:
        pv = headerx.parser_new(ctx)
        chk.check(R6, isinstance(pv, tuple) and pv[0] == "struct" and pv[2].get("inst_index") == 0, "inst_index-starts-at-0",
                  "Parser::new yields %s" % headerx.short(pv)[:160], raw.where("new", "Parser"))
    except Anchor as ex:
        chk.bad(R6, "inst_index-starts-at-0", "Parser::new not analysable: %s" % ex, raw.where("new", "Parser"))
    npos = 0
    for inst, pb, sample in headerx.parse_inst_problems(ctx):
        if any(k in inst for k in ("word count 0", "unknown opcode", "words left after")):
            npos += 1
            chk.check(R6, pb is None, "position:" + inst, "%s: %s" % (inst, pb), raw.where("parse_inst", "Parser"), key="C03:position:" + inst.split(",")[0])
    chk.floor(R6, "positional error cases", npos, 6)
    # parse_spec_constant_op: evaluated symbolically
    from . import quantx as qx
    ERRV = ("err", ("enum", "State::SpecConstantOpIntegerIncorrect", [("sym", "offset"), ("selffield", "inst_index")]))
    scases = [("opcode literal does not fit 16 bits", False, True, ["IdResultType", "IdResult", "IdRef", "IdRef"], "err"),
              ("unknown opcode number", True, False, ["IdRef"], "err"),
              ("IAdd-like nested opcode", True, True, ["IdResultType", "IdResult", "IdRef", "IdRef"], "ok"),
              ("nested opcode with a context dependent literal", True, True, ["IdResultType", "IdResult", "LiteralContextDependentNumber"], "err"),
              ("nested opcode with switch pairs", True, True, ["IdRef", "IdRef", "PairLiteralIntegerIdRef"], "err"),
              ("nested OpSpecConstantOp", True, True, ["IdResultType", "IdResult", "LiteralSpecConstantOpInteger"], "err")]
    for name, fits, known, kinds, want in scases:
        try:
            r, h = qx.spec_eval(ctx, fits, known, kinds)
        except Anchor as ex:
            chk.bad(R6, "parse_spec_constant_op(%s)" % name, "not analysable: %s" % ex, raw.where("parse_spec_constant_op", "Parser"), key="C03:spec-shape")
            continue
        if want == "err":
            good = r == ERRV
        else:
            n_ops = len([k for k in kinds if k not in ("IdResultType", "IdResult")])
            good = isinstance(r, tuple) and r[0] == "ok" and r[1][0] == "list" and len(r[1][1]) == 1 + n_ops and \
                r[1][1][0] == ("enum", "Operand::LiteralSpecConstantOpInteger", [("enum", "Op::IAdd", [])]) and \
                [c for c in h.consumed] == [("operand", k) for k in kinds if k not in ("IdResultType", "IdResult")]
        chk.check(R6, good, "parse_spec_constant_op(%s)" % name, "yields %s (consumed %s)" % (str(r)[:160], h.consumed), raw.where("parse_spec_constant_op", "Parser"),
                  key="C03:spec:%s" % name)

    # delivery order / exactly once / stop at first error: C14's control-flow rules on Parser::parse
    from . import c14
    c14.run(ctx, chk)
    chk.analysed.update({"decision_tables": ["parse_header", "parse_inst", "parse_operands"], "positional_error_sites": npos})


def walk_stmts(b):
    for n in walk(b):
        if n[0] == "block":
            for s in n[1]:
                yield s


