"""Abstract interpretation of the low-level Decoder methods over
   limit in {None, Zero, Pos}  x  remaining bytes r = bytes.len() - offset in {R0 (0), R13 (1..3), R4 (>= 4)}.
Offsets are kept as linear terms O+k over the initial offset O, so slices and error payloads are compared exactly."""
from ..core import Anchor
from ..tree import int_of, is_node, path_of, show, show_stmt, strip_refs, unblock, walk

DEC = "rspirv::binary::decoder"
LIMITS = ("None", "Zero", "Pos")
REMS = ("R0", "R13", "R4")


class Ret(Exception):
    def __init__(self, v):
        self.v = v


class Panic(Exception):
    pass


class Lin:
    """a*O + b*L + c  (O = offset at entry, L = bytes.len())"""

    def __init__(self, a=0, b=0, c=0):
        self.a, self.b, self.c = a, b, c

    def __add__(self, o):
        return Lin(self.a + o.a, self.b + o.b, self.c + o.c)

    def __sub__(self, o):
        return Lin(self.a - o.a, self.b - o.b, self.c - o.c)

    def key(self):
        return (self.a, self.b, self.c)

    def __repr__(self):
        parts = []
        if self.a:
            parts.append("%sO" % ("" if self.a == 1 else self.a))
        if self.b:
            parts.append("%slen" % ("" if self.b == 1 else self.b))
        if self.c or not parts:
            parts.append(str(self.c))
        return "+".join(parts).replace("+-", "-")


def decide(lin, op, rem):
    """truth of (lin op 0) when len - O is in class rem; None if the class does not decide it"""
    # lin = a*O + b*L + c ; with L = O + r: (a+b)*O + b*r + c.  Decidable here only if a + b == 0.
    if lin.a + lin.b != 0:
        return None
    b, c = lin.b, lin.c
    rs = {"R0": (0, 0), "R13": (1, 3), "R4": (4, None)}[rem]

    def val(r):
        return b * r + c

    def cmp(v):
        return {"<": v < 0, "<=": v <= 0, ">": v > 0, ">=": v >= 0, "==": v == 0, "!=": v != 0}[op]
    lo, hi = rs
    if hi is not None:
        vals = {cmp(val(r)) for r in range(lo, hi + 1)}
    else:
        # r >= 4: monotone in r; sample the boundary and the limit behaviour
        vals = {cmp(val(4)), cmp(val(5)), cmp(val(10 ** 9))}
    return vals.pop() if len(vals) == 1 else None


class Interp:
    def __init__(self, ctx, methods, consts, limit, rem, depth=0):
        self.ctx = ctx
        self.methods = methods
        self.consts = consts
        self.limit = limit       # 'None' | 'Zero' | 'Pos' | ('Some', 'arg')
        self.rem = rem
        self.off = Lin(1, 0, 0)  # current offset as a linear term
        self.limit_delta = 0
        self.locals = {}
        self.depth = depth
        self.slices = []

    def num(self, v):
        if isinstance(v, Lin):
            return v
        if isinstance(v, int) and not isinstance(v, bool):
            return Lin(0, 0, v)
        raise Anchor("decoder: not a number: %r" % (v,))

    def value(self, e):
        e = unblock(e)
        k = e[0]
        if k == "block":
            return self.block(e)
        if k == "lit":
            if e[1] == "int":
                return int(e[2])
            if e[1] == "bool":
                return bool(e[2])
            return ("opaque",)
        if k == "path":
            p = e[1]
            if p in self.locals:
                return self.locals[p]
            if p in self.consts and self.consts[p] is not None:
                return self.consts[p]
            if p == "None":
                return ("limit", "None")
            return ("opaque",)
        if k == "field":
            t = show(e)
            if t == "self.offset":
                return self.off
            if t == "self.limit":
                return ("limit", self.limit)
            if t == "self.bytes":
                return ("bytes",)
            return ("opaque",)
        if k in ("ref",):
            return self.value(e[2])
        if k == "unary":
            v = self.value(e[2])
            if e[1] == "!" and isinstance(v, bool):
                return not v
            if e[1] == "*":
                return v
            raise Anchor("decoder: unary %s" % show(e))
        if k == "return":
            raise Ret(self.value(e[1]) if e[1] is not None else None)
        if k == "try":
            v = self.value(e[1])
            if isinstance(v, tuple) and v[0] == "result":
                if v[1] == "err":
                    raise Ret(v)
                return v[2]
            raise Anchor("decoder: `?` on %r" % (v,))
        if k == "binary":
            return self.binary(e)
        if k == "assignop":
            return self.assignop(e)
        if k == "assign":
            t = show(e[1])
            v = self.value(e[2])
            if t == "self.limit":
                if isinstance(v, tuple) and v[0] == "limit":
                    self.limit = v[1]
                    return None
                raise Anchor("decoder: limit assigned %r" % (v,))
            if t == "self.offset":
                self.off = self.num(v)
                return None
            raise Anchor("decoder: assignment to %s" % t)
        if k == "call":
            p = path_of(e[1]) or ""
            args = [self.value(a) for a in e[2]]
            if p == "Some" and len(args) == 1:
                a = args[0]
                if isinstance(a, tuple) and a[0] == "arg":
                    return ("limit", ("Some", a[1]))
                if isinstance(a, int):
                    return ("limit", "Zero" if a == 0 else "Pos")
                return ("some", a)
            if p == "Ok":
                return ("result", "ok", args[0] if args else None)
            if p == "Err":
                return ("result", "err", args[0] if args else None)
            last = p.split("::")[-1]
            if last in ("LimitReached", "StreamExpected") and len(args) == 1:
                return ("errv", last, args[0])
            if last == "from_le_bytes" and len(args) == 1:
                return ("word", args[0])
            return ("opaque",)
        if k == "mcall":
            return self.mcall(e)
        if k == "index":
            base = self.value(e[1])
            if base == ("bytes",) and e[2][0] == "range":
                lo = self.num(self.value(e[2][1])) if e[2][1] is not None else Lin(0, 0, 0)
                hi = self.num(self.value(e[2][2])) if e[2][2] is not None else Lin(0, 1, 0)
                if e[2][3]:
                    hi = hi + Lin(0, 0, 1)
                # bounds: lo <= hi <= len must hold in this class, else the slice panics
                ok1 = decide(hi - Lin(0, 1, 0), "<=", self.rem)
                ok2 = decide(lo - hi, "<=", self.rem)
                if ok1 is not True or ok2 is not True:
                    raise Panic("slice bytes[%r..%r] may be out of range when %s bytes remain" % (lo, hi, self.rem))
                self.slices.append((lo, hi))
                return ("slice", lo, hi)
            raise Anchor("decoder: index %s" % show(e))
        if k == "if":
            return self.if_(e)
        if k == "match":
            return self.match(e)
        if k == "tuple" and not e[1]:
            return None
        raise Anchor("decoder: unrecognised expression %s" % show(e)[:80])

    def binary(self, e):
        op = e[1]
        if op in ("||", "&&"):
            a = self.value(e[2])
            if not isinstance(a, bool):
                raise Anchor("decoder: non-boolean in %s" % show(e))
            if (op == "||" and a) or (op == "&&" and not a):
                return a
            b = self.value(e[3])
            if not isinstance(b, bool):
                raise Anchor("decoder: non-boolean in %s" % show(e))
            return b
        a, b = self.value(e[2]), self.value(e[3])
        if op in ("+", "-"):
            x, y = self.num(a), self.num(b)
            return x + y if op == "+" else x - y
        if op in ("<", "<=", ">", ">=", "==", "!="):
            if isinstance(a, tuple) and a[0] == "lclass" or isinstance(b, tuple) and b[0] == "lclass":
                lc, other = (a, b) if isinstance(a, tuple) and a[0] == "lclass" else (b, a)
                if other == 0 and op in ("==", "!="):
                    return (lc[1] == "Zero") == (op == "==")
                if other == 0 and op == ">" and lc is a:
                    return lc[1] == "Pos"
                raise Anchor("decoder: comparison of the limit %s" % show(e))
            if isinstance(a, tuple) and a[0] == "limit" and isinstance(b, tuple) and b[0] == "limit" and op in ("==", "!="):
                # self.limit == Some(0) / None
                eq = a[1] == b[1] if "Pos" not in (a[1], b[1]) else (False if a[1] != b[1] else None)
                if eq is None:
                    raise Anchor("decoder: equality of two positive limits")
                return eq == (op == "==")
            x, y = self.num(a), self.num(b)
            r = decide(x - y, op, self.rem)
            if r is None:
                raise Anchor("decoder: condition %s is not decided by the remaining-bytes class %s" % (show(e), self.rem))
            return r
        raise Anchor("decoder: operator %s" % op)

    def assignop(self, e):
        t = show(e[2])
        v = self.value(e[3])
        if t == "self.offset" and e[1] == "+":
            d = self.num(v)
            # the advance must stay inside the buffer
            ok = decide((self.off + d) - Lin(0, 1, 0), "<=", self.rem)
            if ok is not True:
                raise Panic("offset advanced by %r with %s bytes remaining" % (d, self.rem))
            self.off = self.off + d
            return None
        tgt = self.value(e[2])
        if isinstance(tgt, tuple) and tgt[0] == "lclass" and e[1] == "-" and v == 1:
            if tgt[1] != "Pos":
                raise Panic("limit decremented at zero")
            self.limit_delta -= 1
            return None
        raise Anchor("decoder: compound assignment %s" % show(e))

    def mcall(self, e):
        recv, m, argn = e[1], e[2], e[3]
        rt = show(recv)
        if rt == "self" and m in self.methods and self.depth < 4:
            f = self.methods[m]
            sub = Interp(self.ctx, self.methods, self.consts, self.limit, self.rem, self.depth + 1)
            sub.off = self.off
            r = sub.run_body(f)
            self.off, self.limit, self.limit_delta = sub.off, sub.limit, self.limit_delta + sub.limit_delta
            return r
        v = self.value(recv)
        if isinstance(v, tuple) and v[0] == "limit":
            lim = v[1]
            if m == "is_some":
                return lim != "None"
            if m == "is_none":
                return lim == "None"
            if m in ("as_mut", "as_ref"):
                return v
            if m in ("unwrap", "expect"):
                if lim == "None":
                    raise Panic("unwrap of an absent limit")
                return ("lclass", lim)
        if v == ("bytes",) and m == "len" and not argn:
            return Lin(0, 1, 0)
        if isinstance(v, tuple) and v[0] == "slice" and m in ("try_into",):
            return v
        if isinstance(v, tuple) and v[0] == "slice" and m in ("unwrap", "expect"):
            if (v[2] - v[1]).key() != (0, 0, 4):
                raise Panic("try_into::<[u8; 4]>().unwrap() on a slice of length %r" % (v[2] - v[1]))
            return v
        raise Anchor("decoder: method call %s" % show(e)[:80])

    def pmatch(self, pat, v):
        k = pat[0]
        if k == "p_wild":
            return True
        if k == "p_ident" and pat[4] is None and pat[1] != "None":
            self.locals[pat[1]] = v
            return True
        if (path_of(pat) or "").split("::")[-1] == "None" and k in ("p_ident", "p_path"):
            return isinstance(v, tuple) and v[0] == "limit" and v[1] == "None"
        if k == "p_ts" and pat[1] == "Some" and len(pat[2]) == 1 and isinstance(v, tuple) and v[0] == "limit":
            if v[1] == "None":
                return False
            inner = pat[2][0]
            if inner[0] == "p_lit":
                n = int_of(inner)
                return (v[1] == "Zero") if n == 0 else (None if v[1] == "Pos" else False)
            return self.pmatch(inner, ("lclass", v[1]))
        if k == "p_ts" and pat[1] in ("Ok", "Err") and isinstance(v, tuple) and v[0] == "result":
            if (pat[1] == "Ok") != (v[1] == "ok"):
                return False
            return self.pmatch(pat[2][0], v[2])
        if k == "p_ref":
            return self.pmatch(pat[2], v)
        raise Anchor("decoder: pattern %s" % show(pat))

    def if_(self, e):
        c = e[1]
        if c[0] == "let":
            v = self.value(c[2])
            r = self.pmatch(c[1], v)
            if r is None:
                raise Anchor("decoder: undecided pattern %s" % show(c[1]))
            if r:
                return self.value(e[2])
            return self.value(e[3]) if e[3] is not None else None
        v = self.value(c)
        if not isinstance(v, bool):
            raise Anchor("decoder: non-boolean condition %s" % show(c))
        if v:
            return self.value(e[2])
        return self.value(e[3]) if e[3] is not None else None

    def match(self, e):
        v = self.value(e[1])
        for pat, guard, body in e[2]:
            saved = dict(self.locals)
            r = self.pmatch(pat, v)
            if r is None:
                raise Anchor("decoder: undecided pattern %s" % show(pat))
            if r:
                if guard is not None:
                    g = self.value(guard)
                    if not isinstance(g, bool):
                        raise Anchor("decoder: guard")
                    if not g:
                        self.locals = saved
                        continue
                return self.value(body)
            self.locals = saved
        raise Anchor("decoder: no arm matches in %s" % show(e)[:60])

    def block(self, b):
        r = None
        for s in b[1]:
            if s[0] == "local":
                if s[3] is None:
                    continue
                v = self.value(s[3])
                if self.pmatch(s[1], v) is not True:
                    raise Anchor("decoder: refutable let")
                r = None
            elif s[0] == "expr":
                r = self.value(s[1])
                if s[2]:
                    r = None
            else:
                raise Anchor("decoder: statement")
        return r

    def run_body(self, f):
        for p in f["sig"]["params"]:
            if p[0] != "self":
                self.locals[p[0]] = ("arg", p[0])
        try:
            return self.block(f["body"])
        except Ret as x:
            return x.v


def evaluate(ctx, name, limit, rem):
    """-> dict(outcome, payload/slice, offset advance, limit effect) for Decoder::<name> in the abstract state"""
    from . import codec
    dm = codec.decoder_methods(ctx)
    methods = {k: v["fn"] for k, v in dm.items() if k in ("word", "has_limit", "limit_reached", "set_limit", "clear_limit")}
    consts = codec.consts_of(ctx, DEC)
    it = Interp(ctx, methods, consts, limit, rem)
    try:
        r = it.run_body(dm[name]["fn"])
    except Panic as x:
        return {"outcome": "panic", "what": str(x)}
    adv = (it.off - Lin(1, 0, 0)).key()
    out = {"advance": adv, "limit": it.limit, "limit_delta": it.limit_delta, "value": r}
    if isinstance(r, tuple) and r[0] == "result":
        out["outcome"] = r[1]
        v = r[2]
        if r[1] == "err" and isinstance(v, tuple) and v[0] == "errv":
            out["error"] = v[1]
            out["payload"] = v[2].key() if isinstance(v[2], Lin) else None
        if r[1] == "ok" and isinstance(v, tuple) and v[0] == "word":
            s = v[1]
            out["slice"] = (s[1].key(), s[2].key()) if isinstance(s, tuple) and s[0] == "slice" else None
    else:
        out["outcome"] = "value"
    return out
