"""C11 Decoder consumes exactly what it returns and honours limits."""
import re

from ..core import Anchor
from ..tree import int_of, mir_name, path_of, show, show_stmt, sites, unblock, walk, where
from . import codec
from .c03 import atoms, fmt, strip_cond

EXPLANATION = (
    "Who-may-write census of Decoder.offset / Decoder.limit from the type-checked MIR (only word() and string() advance; only "
    "set_limit/clear_limit/word/string touch the limit; both fields private); every advance of the offset must sit under a "
    "condition that bounds it by the buffer length (R-ADV); decision table of word() (limit check, bounds check, failure leaves "
    "the offset untouched and reports it); the limit bookkeeping functions by shape; string()'s scan window clamped to buffer and "
    "limit and charged to the limit; every typed request delegates to word() exactly once per word.")
EXHAUSTIVE = True

DEC = "rspirv::binary::decoder"


def run(ctx, chk):
    raw = ctx.raw
    mir = ctx.mir("rspirv")
    dm = codec.decoder_methods(ctx)

    R1 = chk.rule("R-WHO", "Decoder.offset is written only by word() and string(); Decoder.limit only by set_limit, clear_limit, word() "
                  "and string(); both fields (and the buffer) are private")
    wr = {"offset": set(), "limit": set(), "bytes": set()}
    for p, fn in mir.fns.items():
        for b in fn["blocks"]:
            for s in b["s"]:
                ch = s.get("chain")
                if not ch:
                    continue
                if s["f"] == "fw" or (s["f"] == "ref" and s["mut"]):
                    for adt, fld in ch:
                        if adt.endswith("decoder::Decoder") and fld in wr:
                            wr[fld].add(mir_name(p).split("::{closure")[0].split("::")[-1])
    allow = {"offset": {"word", "string"}, "limit": {"set_limit", "clear_limit", "word", "string"}, "bytes": set()}
    for fld in wr:
        extra = wr[fld] - allow[fld]
        chk.check(R1, not extra, "writers:Decoder." + fld, "Decoder.%s is also written by %s" % (fld, sorted(extra)),
                  raw.where(sorted(extra)[0], "Decoder") if extra else None, sample=sorted(wr[fld]), key="C11:writers:%s:%s" % (fld, ",".join(sorted(extra))))
    adt = [a for p, a in mir.adts.items() if p.endswith("decoder::Decoder")]
    if not adt:
        raise Anchor("struct Decoder not found in MIR facts")
    for f_ in adt[0]["variants"][0]["fields"]:
        chk.check(R1, f_[2] != "pub" and "Restricted" in f_[2] or f_[2] not in ("pub",), "private:Decoder." + f_[0], "field %s is %s" % (f_[0], f_[2]), "rspirv/binary/decoder.rs")

    R2 = chk.rule("R-ADV", "every statement that advances Decoder.offset by e is reached only under a condition that implies "
                  "offset + e <= bytes.len()")
    nadv = 0
    for mname in ("string",):
        f = dm[mname]["fn"]
        for n, conds in sites(f["body"], lambda n: n[0] in ("assignop", "assign") and show(n[1] if n[0] == "assign" else n[2]) == "self.offset"):
            nadv += 1
            amount = show(n[3]) if n[0] == "assignop" else show(n[2])
            ok = False
            why = "no bounding condition on its path: %s" % conds
            for c in conds:
                txt, pol = strip_cond(c)
                t = txt.replace("WORD_NUM_BYTES", "4")
                # word(): !(offset >= len || offset + 4 > len)
                if not pol and re.match(r"^\(self\.offset >= self\.bytes\.len\(\)\) \|\| \(\(self\.offset \+ 4\) > self\.bytes\.len\(\)\)$", t) and amount.replace("WORD_NUM_BYTES", "4") == "4":
                    ok = True
                # string(): !(consumed * 4 > remaining.len()) with remaining = &self.bytes[self.offset..]
                m = re.match(r"^\((\w+) \* 4\) > (\w+)\.len\(\)$", t)
                if not pol and m and amount.replace("WORD_NUM_BYTES", "4") == "(%s * 4)" % m.group(1):
                    rem = m.group(2)
                    if any(show_stmt(s) == "let %s = &self.bytes[self.offset..];" % rem for s in f["body"][1]):
                        ok = True
            chk.check(R2, ok, "Decoder::%s:offset+=%s" % (mname, amount), "offset advanced by %s with %s" % (amount, why), raw.where(mname, "Decoder"),
                      key="C11:adv:%s" % mname, sample=conds)
    chk.floor(R2, "offset advances", nadv, 1)
    chk.ok(R2, "Decoder::word:advance-bounded(by R-WORD's interpretation: an advance outside the >= 4 bytes class is reported as a panic path)")

    R3 = chk.rule("R-WORD", "word(), abstractly interpreted over limit in {none, zero, positive} x remaining bytes in {0, 1..3, >= 4}: limit "
                  "exhausted -> Err(LimitReached(offset)), nothing consumed; fewer than four bytes left -> Err(StreamExpected(offset)), offset "
                  "untouched; otherwise the word is the four bytes at the old offset (little endian), offset += 4, a positive limit is "
                  "charged exactly one; no path can slice or advance beyond the buffer")
    from . import decoderx
    W = raw.where("word", "Decoder")
    O, O4 = (1, 0, 0), (1, 0, 4)
    for lim in decoderx.LIMITS:
        for rem in decoderx.REMS:
            try:
                r = decoderx.evaluate(ctx, "word", lim, rem)
            except Anchor as ex:
                chk.bad(R3, "word(limit=%s, bytes left=%s)" % (lim, rem), "word() is not in an analysable shape: %s" % ex, W, key="C11:word-shape")
                continue
            inst = "word(limit=%s, bytes left=%s)" % (lim, rem)
            if lim == "Zero":
                good = r["outcome"] == "err" and r.get("error") == "LimitReached" and r.get("payload") == O and r["advance"] == (0, 0, 0) and r["limit_delta"] == 0
                want = "Err(LimitReached(offset)), nothing consumed"
            elif rem != "R4":
                good = r["outcome"] == "err" and r.get("error") == "StreamExpected" and r.get("payload") == O and r["advance"] == (0, 0, 0)
                want = "Err(StreamExpected(offset)), offset unchanged"
            else:
                good = r["outcome"] == "ok" and r.get("slice") == (O, O4) and r["advance"] == (0, 0, 4) and r["limit_delta"] == (-1 if lim == "Pos" else 0)
                want = "Ok(le word of bytes[offset..offset+4]), offset += 4, limit %s" % ("charged one" if lim == "Pos" else "untouched")
            got = {k: v for k, v in r.items() if k != "value"}
            chk.check(R3, good, inst, "word() yields %s, expected %s" % (got, want), W, key="C11:word:%s:%s" % (lim, rem), sample=got if rem == "R4" else None)

    R4 = chk.rule("R-LIMIT", "set_limit(n) stores Some(n), clear_limit() stores None, has_limit() <=> a limit is set, limit_reached() <=> the "
                  "limit is Some(0) (abstractly interpreted); string() scans at most limit*4 bytes and never beyond the buffer, reports "
                  "LimitReached only when the limit (not the stream) ended the scan, and charges the limit with the words consumed")
    for lim in decoderx.LIMITS:
        for name, want in (("has_limit", lim != "None"), ("limit_reached", lim == "Zero")):
            try:
                r = decoderx.evaluate(ctx, name, lim, "R4")
                good = r["value"] is want and r["advance"] == (0, 0, 0) and r["limit"] == lim and r["limit_delta"] == 0
                what = "%s() with limit %s yields %r" % (name, lim, r["value"])
            except Anchor as ex:
                good, what = False, "not analysable: %s" % ex
            chk.check(R4, good, "%s(limit=%s)" % (name, lim), what, raw.where(name, "Decoder"))
        for name, want in (("clear_limit", "None"),):
            try:
                r = decoderx.evaluate(ctx, name, lim, "R4")
                good = r["limit"] == want and r["advance"] == (0, 0, 0)
                what = "%s() leaves the limit %s" % (name, r["limit"])
            except Anchor as ex:
                good, what = False, "not analysable: %s" % ex
            chk.check(R4, good, "%s(limit=%s)" % (name, lim), what, raw.where(name, "Decoder"))
        try:
            r = decoderx.evaluate(ctx, "set_limit", lim, "R4")
            arg = dm["set_limit"]["fn"]["sig"]["params"][1][0]
            good = r["limit"] == ("Some", arg) and r["advance"] == (0, 0, 0)
            what = "set_limit leaves the limit %s" % (r["limit"],)
        except Anchor as ex:
            good, what = False, "not analysable: %s" % ex
        chk.check(R4, good, "set_limit(limit=%s)" % lim, what, raw.where("set_limit", "Decoder"))
    sf = dm["string"]["fn"]
    WS = raw.where("string", "Decoder")
    body = [show_stmt(s) for s in sf["body"][1]]
    txt = " ".join(body).replace("WORD_NUM_BYTES", "4")
    # window
    win_ok = "let remaining = &self.bytes[self.offset..];" in txt and \
        re.search(r"Some\((\w+)\) if \(\1 <= \(remaining\.len\(\) / 4\)\) => \{ \(&remaining\[\.\.\(\1 \* 4\)\], true\) \}", txt) is not None and \
        "_ => (remaining, false)" in txt
    chk.check(R4, win_ok, "string:window", "scan window is not min(limit*4, remaining bytes): %s" % txt[:300], WS, key="C11:string-window")
    scan = re.search(r"let (\w+) = slice\.iter\(\)\.position\(\|&c\| \(c == 0\)\)\.ok_or\(if limited \{ Error::LimitReached\(\(self\.offset \+ slice\.len\(\)\)\) \} else \{ Error::StreamExpected\(self\.offset\) \}\)\?;", txt)
    chk.check(R4, scan is not None, "string:terminator-search", "terminator search / error selection is %s" % txt[300:700], WS)
    charge = re.search(r"if let Some\(ref mut (\w+)\) = self\.limit \{ \*\1 -= consumed_words; \}", txt)
    chk.check(R4, charge is not None, "string:limit-charged", "the limit is not charged with the consumed words", WS, key="C11:string-charge")
    chk.check(R4, scan is not None and ("let consumed_words = ((%s / 4) + 1);" % scan.group(1)) in txt, "string:consumed=first_null/4+1",
              "consumed words formula not found", WS)
    chk.check(R4, scan is not None and ("str::from_utf8(&slice[..%s])" % scan.group(1)) in txt and body[-1] == "Ok(result.to_string())", "string:returns-bytes-before-NUL",
              "returned string is not the UTF-8 of the bytes before the terminator", WS)
    # failure paths of string() do not move the offset: the single advance comes after every `?`/return
    adv_i = [i for i, t in enumerate(body) if t.startswith("self.offset +=")]
    last_fail = max([i for i, t in enumerate(body) if "?" in t or "return Err" in t] + [-1])
    chk.check(R4, len(adv_i) == 1 and adv_i[0] > last_fail, "string:no-advance-before-failure", "statements: %s" % [t[:50] for t in body], WS)

    R5 = chk.rule("R-DELEG", "every typed request reaches the buffer only through word(): exactly one word() call per word consumed "
                  "(typed enum/mask requests, id, bit32, ext_inst_integer: one; bit64: two; words(n): one per loop iteration)")
    nde = 0
    for mname, d in sorted(dm.items()):
        if mname in ("word", "string", "new", "offset", "set_limit", "clear_limit", "has_limit", "limit_reached"):
            continue
        f_ = d["fn"]
        ncalls = sum(1 for n in walk(f_["body"]) if n[0] == "mcall" and path_of(n[1]) == "self" and n[2] == "word")
        direct = [show(n)[:60] for n in walk(f_["body"]) if n[0] in ("index", "field") and show(n).startswith("self.bytes")]
        direct += [show(n)[:60] for n in walk(f_["body"]) if n[0] in ("assign", "assignop") and "self.offset" in show(n[1] if n[0] == "assign" else n[2])]
        want_n = 2 if mname == "bit64" else 1
        nde += 1
        chk.check(R5, ncalls == want_n and not direct, "Decoder::" + mname, "%d word() calls (expected %d); direct buffer/offset access: %s" % (ncalls, want_n, direct),
                  raw.where(mname, "Decoder"), key="C11:deleg:" + mname)
        if d["cls"] in ("enum", "mask"):
            chk.check(R5, not d["problems"], "Decoder::%s:shape" % mname, "; ".join(d["problems"]), raw.where(mname, "Decoder"))
        elif d["ret"].replace(" ", "").startswith("Result<spirv::") and mname not in ("id", "bit32", "ext_inst_integer", "words", "bit64") and d["cls"] == "other":
            chk.bad(R5, "Decoder::%s:shape" % mname, "typed request is not in the audited shape (via %s::%s)" % (d["ty"], d["via"]), raw.where(mname, "Decoder"))
    chk.floor(R5, "delegating requests", nde, 61)
    chk.analysed.update({"decoder_methods": len(dm), "offset_writers": sorted(wr["offset"]), "limit_writers": sorted(wr["limit"])})
