"""C11 Decoder consumes exactly what it returns and honours limits."""
import re

from ..core import Anchor
from ..tree import int_of, mir_name, path_of, show, show_stmt, sites, unblock, walk, where
from . import codec
from .c03 import atoms, fmt, strip_cond

EXPLANATION = (
    "Who-may-write census of Decoder.offset / Decoder.limit from the type-checked MIR (only word() and string() advance; only "
    "set_limit/clear_limit/word/string touch the limit; both fields private); word() and the limit functions interpreted over "
    "(limit class x remaining-bytes class) with offsets as linear terms; string(), words(n), bit64 and the one-word requests "
    "evaluated state by state in a stated small scope (0..13 bytes left, limit none / 0..4 / 2^62 / 2^64-1, first NUL at every "
    "position with zero padding or non-zero bytes after it, valid / invalid UTF-8; bytes are symbols, so a result names the buffer "
    "bytes it was built from) against the statement: exact bytes, advance by whole words inside the buffer, limit charged, failures "
    "leave offset and limit untouched, no out-of-range slice or usize overflow. All conditions compare terms of period 4, so the scope "
    "covers every ordering of them; it is not a proof over all lengths.")
EXHAUSTIVE = False     # the abstract inputs are a stated finite scope, not the whole input space

DEC = "rspirv::binary::decoder"


def run(ctx, chk):
    raw = ctx.raw
    mir = ctx.mir("rspirv")
    dm = codec.decoder_methods(ctx)

    R1 = chk.rule("R-WHO", "Decoder.offset is written only by the hand-written requests evaluated below (word, string, words, bit64, id, bit32, ext_inst_integer) and "
                  "private helpers only they call; Decoder.limit by these and set_limit / clear_limit; never by a generated request; both fields (and the buffer) are private")
    wr = {"offset": set(), "limit": set(), "bytes": set()}
    for p, fn in mir.fns.items():
        for b in fn["blocks"]:
            for s in b["s"]:
                ch = s.get("chain")
                if not ch:
                    continue
                if s["f"] == "fw" or (s["f"] == "ref" and s["mut"]):
                    for adt, fld in ch:
                        if adt.endswith("decoder::Decoder") and fld in wr:
                            wr[fld].add(mir_name(p).split("::{closure")[0].split("::")[-1])
    # the requests whose effect on offset and limit is evaluated state by state below (R-WORD, R-LIMIT, R-DELEG) may write them
    from . import stringx as _sx
    evaluated = {"word", "string"} | set(_sx.HAND)
    allow = {"offset": set(evaluated), "limit": {"set_limit", "clear_limit"} | evaluated, "bytes": set()}
    # a private helper that only the allowed writers call writes on their behalf
    callers_of = {}
    for p_, fn_ in mir.fns.items():
        for b_ in fn_["blocks"]:
            if b_["t"]["t"] == "call" and b_["t"].get("rn") and (b_["t"].get("rs") or "").endswith("Decoder"):
                callers_of.setdefault(b_["t"]["rn"], set()).add(mir_name(p_).split("::{closure")[0].split("::")[-1])
    private = {k_ for k_, d_ in dm.items() if d_["vis"] != "pub"}
    for fld in wr:
        helpers = {w_ for w_ in wr[fld] if w_ in private and callers_of.get(w_) and callers_of[w_] <= (allow[fld] | private)}
        extra = wr[fld] - allow[fld] - helpers
        chk.check(R1, not extra, "writers:Decoder." + fld, "Decoder.%s is also written by %s" % (fld, sorted(extra)),
                  raw.where(sorted(extra)[0], "Decoder") if extra else None, sample=sorted(wr[fld]), key="C11:writers:%s:%s" % (fld, ",".join(sorted(extra))))
    adt = [a for p, a in mir.adts.items() if p.endswith("decoder::Decoder")]
    if not adt:
        raise Anchor("struct Decoder not found in MIR facts")
    for f_ in adt[0]["variants"][0]["fields"]:
        chk.check(R1, f_[2] != "pub" and "Restricted" in f_[2] or f_[2] not in ("pub",), "private:Decoder." + f_[0], "field %s is %s" % (f_[0], f_[2]), "rspirv/binary/decoder.rs")

    from . import stringx as sx
    R2 = chk.rule("R-ADV", "in every evaluated state (buffer with 0..13 bytes left, limit none or 0..4 words, every position of the first NUL) "
                  "no request slices or indexes beyond the buffer, underflows the limit, or leaves the offset beyond bytes.len()")
    nadv = [0]

    def adv(name, out, inst):
        nadv[0] += 1
        if "panic" in out:
            chk.bad(R2, inst, "Decoder::%s panics: %s" % (name, out["panic"]), raw.where(name, "Decoder"), key="C11:adv:%s" % name)
            return False
        if not (isinstance(out["offset"], int) and out["offset"] <= out["len"]):
            chk.bad(R2, inst, "Decoder::%s leaves the offset at %s in a buffer of %s bytes" % (name, out["offset"], out["len"]), raw.where(name, "Decoder"),
                    key="C11:adv:%s" % name)
            return False
        return True

    R3 = chk.rule("R-WORD", "word(), evaluated in every state (0..13 bytes left x limit none / 0..4 / 2^62 / 2^64-1): limit exhausted -> "
                  "Err(LimitReached(offset)), nothing consumed; fewer than four bytes left -> Err(StreamExpected(offset)), offset untouched; "
                  "otherwise the word is the four bytes at the old offset (little endian), offset += 4, a set limit is charged exactly one; "
                  "no path can slice or advance beyond the buffer")
    W = raw.where("word", "Decoder")
    rmax, lmax = sx.scope(ctx)
    LIMS = [None] + list(range(0, lmax + 1)) + sx.HUGE
    nword = 0
    try:
        for r in range(0, rmax + 1):
            for lim in LIMS:
                inst = "word(bytes left=%d, limit=%s)" % (r, lim)
                out = sx.evaluate(ctx, "word", r, lim)
                nword += 1
                if not adv("word", out, inst):
                    continue
                ref, roff, rlim = sx.word_seq(r, lim, 1)
                v = out["result"]
                if ref[0] == "err":
                    good = (isinstance(v, tuple) and v[0] == "err" and isinstance(v[1], tuple) and v[1][0] == "enum" and v[1][1].split("::")[-1] == ref[1]
                            and v[1][2] == [ref[2]] and out["offset"] == roff and (rlim is None or out["limit"] == rlim))
                else:
                    good = v == ("ok", ("le", ref[1][0])) and out["offset"] == roff and out["limit"] == rlim
                chk.check(R3, good, inst, "word() yields %s; expected %s, offset %s, limit %s" % (
                    sx.describe(out), ref if ref[0] == "err" else "Ok(le word of bytes %s)" % [b[1] for b in ref[1][0]], roff, rlim), W,
                    key="C11:word:%s" % (ref[1] if ref[0] == "err" else "ok"), sample=sx.describe(out) if (r, lim) == (8, 2) else None)
    except Anchor as ex:
        chk.bad(R3, "word()", "word() is not in an analysable shape: %s" % ex, W, key="C11:word-shape")
    chk.floor(R3, "word() states", nword, 100)

    R4 = chk.rule("R-LIMIT", "set_limit(n) stores Some(n), clear_limit() stores None, has_limit() <=> a limit is set, limit_reached() <=> the "
                  "limit is Some(0) (evaluated in every limit state, offset and buffer untouched); string() scans at most limit*4 bytes and "
                  "never beyond the buffer, reports LimitReached only when the limit (not the stream) ended the scan, and charges the limit "
                  "with the words consumed")
    for lim in LIMS:
        for name, want in (("has_limit", lim is not None), ("limit_reached", lim == 0)):
            try:
                out = sx.evaluate(ctx, name, 8, lim)
                good = out.get("result") is want and out["offset"] == sx.PRE and out["limit"] == lim
                what = "%s() with limit %s yields %r (offset %s, limit %s)" % (name, lim, out.get("result", out.get("panic")), out["offset"], out["limit"])
            except Anchor as ex:
                good, what = False, "not analysable: %s" % ex
            chk.check(R4, good, "%s(limit=%s)" % (name, lim), what, raw.where(name, "Decoder"))
        try:
            out = sx.evaluate(ctx, "clear_limit", 8, lim)
            good = "panic" not in out and out["limit"] is None and out["offset"] == sx.PRE
            what = "clear_limit() leaves the limit %s" % (out["limit"],)
        except Anchor as ex:
            good, what = False, "not analysable: %s" % ex
        chk.check(R4, good, "clear_limit(limit=%s)" % lim, what, raw.where("clear_limit", "Decoder"))
        for n_ in (0, 7):
            try:
                out = sx.evaluate(ctx, "set_limit", 8, lim, args=[n_])
                good = "panic" not in out and out["limit"] == n_ and out["offset"] == sx.PRE
                what = "set_limit(%d) leaves the limit %s" % (n_, out["limit"])
            except Anchor as ex:
                good, what = False, "not analysable: %s" % ex
            chk.check(R4, good, "set_limit(%d; limit=%s)" % (n_, lim), what, raw.where("set_limit", "Decoder"))
    WS = raw.where("string", "Decoder")
    nstr = 0
    shown = 0
    try:
        for r, lim, pz, u8 in sx.string_cases(ctx):
            inst = "string(bytes left=%d, limit=%s, first NUL at %s, utf8 %s)" % (r, lim, pz, "valid" if u8 is True else ("valid, non-zero bytes after the NUL" if u8 == "unpadded" else ("valid, first character two bytes long" if u8 else "invalid")))
            out = sx.evaluate(ctx, "string", r, lim, pz, u8 is not False, padded=(u8 != "unpadded"), multibyte=(u8 == "multibyte"))
            nstr += 1
            if not adv("string", out, inst):
                continue
            ref = sx.string_reference(r, lim, pz, u8 is not False)
            v = out["result"]
            if isinstance(v, tuple) and v[0] == "err" and isinstance(v[1], tuple) and v[1][0] == "enum" and v[1][2]:
                got = ("err", v[1][1].split("::")[-1], v[1][2][0], out["offset"], out["limit"])
            elif isinstance(v, tuple) and v[0] == "ok" and isinstance(v[1], tuple) and v[1][0] == "utf8":
                got = ("ok", v[1][1], None, out["offset"], out["limit"])
            else:
                got = ("?", v)
            if got == ref:
                if shown < 6 and ref[0] == "ok" and lim is not None:
                    chk.ok(R4, inst, sample=sx.describe(out))
                    shown += 1
                else:
                    chk.ok(R4, inst)
            else:
                if ref[0] == "ok":
                    want = "Ok(the %d bytes before the NUL), offset %d, limit %s" % (pz, ref[3], ref[4])
                    key = "C11:string-ok"
                else:
                    want = "Err(%s(%s)), offset and limit unchanged" % (ref[1], ref[2])
                    key = "C11:string-%s" % ref[1]
                chk.bad(R4, inst, "string() yields %s, expected %s" % (sx.describe(out), want), WS, key=key)
    except Anchor as ex:
        chk.bad(R4, "string()", "string() is not in an analysable shape: %s" % ex, WS, key="C11:string-shape")
    chk.floor(R4, "string() states", nstr, 1000)

    R5 = chk.rule("R-DELEG", "every typed request reaches the buffer only through word(): the hand-written ones (id, bit32, "
                  "ext_inst_integer: one word; bit64: two words, low word first; words(n): n words) are evaluated state by state against "
                  "the composition of word() results, stopping at the first failure; the generated enum/mask requests call word() "
                  "exactly once and convert its result")
    nde = 0
    HAND = sx.HAND

    for mname, d in sorted(dm.items()):
        if mname in ("word", "string", "new", "offset", "set_limit", "clear_limit", "has_limit", "limit_reached"):
            continue
        if d["vis"] != "pub":
            continue        # a private helper is evaluated in place with the public request that uses it
        nde += 1
        W_ = raw.where(mname, "Decoder")
        if mname in HAND:
            try:
                for inst, out, good, reft in sx.hand_states(ctx, mname):
                    if not adv(mname, out, inst):
                        continue
                    chk.check(R5, good, inst, "%s yields %s; %s" % (mname, sx.describe(out), reft), W_, key="C11:deleg:" + mname)
            except Anchor as ex:
                chk.bad(R5, "Decoder::" + mname, "not in an analysable shape: %s" % ex, W_, key="C11:deleg:" + mname)
            continue
        f_ = d["fn"]
        ncalls = sum(1 for n in walk(f_["body"]) if n[0] == "mcall" and path_of(n[1]) == "self" and n[2] == "word")
        direct = [show(n)[:60] for n in walk(f_["body"]) if n[0] in ("index", "field") and show(n).startswith("self.bytes")]
        direct += [show(n)[:60] for n in walk(f_["body"]) if n[0] in ("assign", "assignop") and "self.offset" in show(n[1] if n[0] == "assign" else n[2])]
        chk.check(R5, ncalls == 1 and not direct, "Decoder::" + mname, "%d word() calls (expected 1); direct buffer/offset access: %s" % (ncalls, direct),
                  W_, key="C11:deleg:" + mname)
        if d["cls"] in ("enum", "mask"):
            chk.check(R5, not d["problems"], "Decoder::%s:shape" % mname, "; ".join(d["problems"]), W_)
        elif d["ret"].replace(" ", "").startswith("Result<spirv::") and d["cls"] == "other":
            chk.bad(R5, "Decoder::%s:shape" % mname, "typed request is not in the audited shape (via %s::%s)" % (d["ty"], d["via"]), W_)
    chk.floor(R5, "delegating requests", nde, 61)
    chk.ok(R2, "states evaluated without an out-of-range access", sample=nadv[0])
    chk.floor(R2, "evaluated states", nadv[0], 1300)
    chk.analysed.update({"decoder_methods": len(dm), "offset_writers": sorted(wr["offset"]), "limit_writers": sorted(wr["limit"])})
