"""C11 Decoder consumes exactly what it returns and honours limits."""
import re

from ..core import Anchor
from ..tree import int_of, mir_name, path_of, show, show_stmt, sites, unblock, walk, where
from . import codec
from .c03 import atoms, fmt, strip_cond

EXPLANATION = (
    "Who-may-write census of Decoder.offset / Decoder.limit from the type-checked MIR (only word() and string() advance; only "
    "set_limit/clear_limit/word/string touch the limit; both fields private); every advance of the offset must sit under a "
    "condition that bounds it by the buffer length (R-ADV); decision table of word() (limit check, bounds check, failure leaves "
    "the offset untouched and reports it); the limit bookkeeping functions by shape; string()'s scan window clamped to buffer and "
    "limit and charged to the limit; every typed request delegates to word() exactly once per word.")
EXHAUSTIVE = True

DEC = "rspirv::binary::decoder"


def run(ctx, chk):
    raw = ctx.raw
    mir = ctx.mir("rspirv")
    dm = codec.decoder_methods(ctx)

    R1 = chk.rule("R-WHO", "Decoder.offset is written only by word() and string(); Decoder.limit only by set_limit, clear_limit, word() "
                  "and string(); both fields (and the buffer) are private")
    wr = {"offset": set(), "limit": set(), "bytes": set()}
    for p, fn in mir.fns.items():
        for b in fn["blocks"]:
            for s in b["s"]:
                ch = s.get("chain")
                if not ch:
                    continue
                if s["f"] == "fw" or (s["f"] == "ref" and s["mut"]):
                    for adt, fld in ch:
                        if adt.endswith("decoder::Decoder") and fld in wr:
                            wr[fld].add(mir_name(p).split("::{closure")[0].split("::")[-1])
    allow = {"offset": {"word", "string"}, "limit": {"set_limit", "clear_limit", "word", "string"}, "bytes": set()}
    for fld in wr:
        extra = wr[fld] - allow[fld]
        chk.check(R1, not extra, "writers:Decoder." + fld, "Decoder.%s is also written by %s" % (fld, sorted(extra)),
                  raw.where(sorted(extra)[0], "Decoder") if extra else None, sample=sorted(wr[fld]), key="C11:writers:%s:%s" % (fld, ",".join(sorted(extra))))
    adt = [a for p, a in mir.adts.items() if p.endswith("decoder::Decoder")]
    if not adt:
        raise Anchor("struct Decoder not found in MIR facts")
    for f_ in adt[0]["variants"][0]["fields"]:
        chk.check(R1, f_[2] != "pub" and "Restricted" in f_[2] or f_[2] not in ("pub",), "private:Decoder." + f_[0], "field %s is %s" % (f_[0], f_[2]), "rspirv/binary/decoder.rs")

    R2 = chk.rule("R-ADV", "every statement that advances Decoder.offset by e is reached only under a condition that implies "
                  "offset + e <= bytes.len()")
    nadv = 0
    for mname in ("word", "string"):
        f = dm[mname]["fn"]
        for n, conds in sites(f["body"], lambda n: n[0] in ("assignop", "assign") and show(n[1] if n[0] == "assign" else n[2]) == "self.offset"):
            nadv += 1
            amount = show(n[3]) if n[0] == "assignop" else show(n[2])
            ok = False
            why = "no bounding condition on its path: %s" % conds
            for c in conds:
                txt, pol = strip_cond(c)
                t = txt.replace("WORD_NUM_BYTES", "4")
                # word(): !(offset >= len || offset + 4 > len)
                if not pol and re.match(r"^\(self\.offset >= self\.bytes\.len\(\)\) \|\| \(\(self\.offset \+ 4\) > self\.bytes\.len\(\)\)$", t) and amount.replace("WORD_NUM_BYTES", "4") == "4":
                    ok = True
                # string(): !(consumed * 4 > remaining.len()) with remaining = &self.bytes[self.offset..]
                m = re.match(r"^\((\w+) \* 4\) > (\w+)\.len\(\)$", t)
                if not pol and m and amount.replace("WORD_NUM_BYTES", "4") == "(%s * 4)" % m.group(1):
                    rem = m.group(2)
                    if any(show_stmt(s) == "let %s = &self.bytes[self.offset..];" % rem for s in f["body"][1]):
                        ok = True
            chk.check(R2, ok, "Decoder::%s:offset+=%s" % (mname, amount), "offset advanced by %s with %s" % (amount, why), raw.where(mname, "Decoder"),
                      key="C11:adv:%s" % mname, sample=conds)
    chk.floor(R2, "offset advances", nadv, 2)

    R3 = chk.rule("R-WORD", "word(): limit set and exhausted -> Err(LimitReached(offset)) with nothing consumed; limit set and not exhausted "
                  "-> charged one word; fewer than four bytes left -> Err(StreamExpected(offset)) without touching the offset; otherwise "
                  "offset += 4 and the four bytes before the new offset are returned as a little-endian word")
    f = dm["word"]["fn"]
    W = raw.where("word", "Decoder")
    rules = [("HAS_LIMIT", lambda t: True if t == "self.has_limit()" else None),
             ("LIMIT_REACHED", lambda t: True if t == "self.limit_reached()" else None),
             ("OUT_OF_BYTES", lambda t: True if t.replace("WORD_NUM_BYTES", "4") == "(self.offset >= self.bytes.len()) || ((self.offset + 4) > self.bytes.len())" else None)]
    res = []
    for n, conds in sites(f["body"], lambda n: n[0] == "call" and path_of(n[1]) in ("Ok", "Err") and len(n[2]) == 1):
        v = n[2][0]
        res.append((path_of(n[1]), show(v), atoms(conds, rules)))
    want = {("Err", "Error::LimitReached(self.offset)"): {("HAS_LIMIT", True), ("LIMIT_REACHED", True)},
            ("Err", "Error::StreamExpected(self.offset)"): {("OUT_OF_BYTES", True)}}
    okv = [r for r in res if r[0] == "Ok"]
    for (k, v), a in want.items():
        got = [r for r in res if r[0] == k and r[1] == v]
        chk.check(R3, len(got) == 1 and set(got[0][2]) == a, "word:%s(%s)" % (k, v.split("::")[-1]),
                  "%s sites: %s" % (v, [(fmt(r[2])) for r in got]), W, sample=[fmt(r[2]) for r in got])
    chk.check(R3, len(res) == 3 and len(okv) == 1 and set(okv[0][2]) == {("OUT_OF_BYTES", False)} and
              re.match(r"^spirv::Word::from_le_bytes\(self\.bytes\[\(self\.offset - 4\)\.\.self\.offset\]\.try_into\(\)\.unwrap\(\)\)$", okv[0][1]) is not None,
              "word:Ok", "result sites: %s" % [(r[0], r[1][:70], fmt(r[2])) for r in res], W)
    dec = sites(f["body"], lambda n: n[0] == "assignop" and n[1] == "-" and "self.limit" in show(n[2]))
    chk.check(R3, len(dec) == 1 and int_of(dec[0][0][3]) == 1 and set(atoms(dec[0][1], rules)) == {("HAS_LIMIT", True), ("LIMIT_REACHED", False)},
              "word:limit-charged-once", "limit decrements: %s" % [(show(d[0]), d[1]) for d in dec], W)
    # order: the limit check precedes the bounds check precedes the advance
    order = [show_stmt(s)[:40] for s in f["body"][1]]
    chk.check(R3, len(order) == 2 and order[0].startswith("if self.has_limit()") and order[1].startswith("if ((self.offset >="), "word:order",
              "statements: %s" % order, W)

    R4 = chk.rule("R-LIMIT", "set_limit(n) stores Some(n), clear_limit() stores None, has_limit() = is_some, limit_reached() = (Some(0)); "
                  "string() scans at most limit*4 bytes and never beyond the buffer, reports LimitReached only when the limit (not the "
                  "stream) ended the scan, and charges the limit with the words consumed")
    shapes = {"set_limit": ["self.limit = Some(%s)"], "clear_limit": ["self.limit = None"], "has_limit": ["self.limit.is_some()"],
              "limit_reached": ["if let Some(left) = self.limit { (left == 0) } else { false }"]}
    for name, want_ in shapes.items():
        f_ = dm[name]["fn"]
        got = [show_stmt(s).rstrip(";") for s in f_["body"][1]]
        w_ = [x % f_["sig"]["params"][1][0] if "%s" in x else x for x in want_]
        alt = name == "limit_reached" and got in (["(self.limit == Some(0))"], ["match self.limit { Some(left) => (left == 0), None => false }"], ["matches!(self.limit, Some(0))"])
        chk.check(R4, got == w_ or alt, "Decoder::" + name, "body is %s" % got, raw.where(name, "Decoder"), sample=got)
    sf = dm["string"]["fn"]
    WS = raw.where("string", "Decoder")
    body = [show_stmt(s) for s in sf["body"][1]]
    txt = " ".join(body).replace("WORD_NUM_BYTES", "4")
    # window
    win_ok = "let remaining = &self.bytes[self.offset..];" in txt and \
        re.search(r"Some\((\w+)\) if \(\1 <= \(remaining\.len\(\) / 4\)\) => \{ \(&remaining\[\.\.\(\1 \* 4\)\], true\) \}", txt) is not None and \
        "_ => (remaining, false)" in txt
    chk.check(R4, win_ok, "string:window", "scan window is not min(limit*4, remaining bytes): %s" % txt[:300], WS, key="C11:string-window")
    scan = re.search(r"let (\w+) = slice\.iter\(\)\.position\(\|&c\| \(c == 0\)\)\.ok_or\(if limited \{ Error::LimitReached\(\(self\.offset \+ slice\.len\(\)\)\) \} else \{ Error::StreamExpected\(self\.offset\) \}\)\?;", txt)
    chk.check(R4, scan is not None, "string:terminator-search", "terminator search / error selection is %s" % txt[300:700], WS)
    charge = re.search(r"if let Some\(ref mut (\w+)\) = self\.limit \{ \*\1 -= consumed_words; \}", txt)
    chk.check(R4, charge is not None, "string:limit-charged", "the limit is not charged with the consumed words", WS, key="C11:string-charge")
    chk.check(R4, scan is not None and ("let consumed_words = ((%s / 4) + 1);" % scan.group(1)) in txt, "string:consumed=first_null/4+1",
              "consumed words formula not found", WS)
    chk.check(R4, scan is not None and ("str::from_utf8(&slice[..%s])" % scan.group(1)) in txt and body[-1] == "Ok(result.to_string())", "string:returns-bytes-before-NUL",
              "returned string is not the UTF-8 of the bytes before the terminator", WS)
    # failure paths of string() do not move the offset: the single advance comes after every `?`/return
    adv_i = [i for i, t in enumerate(body) if t.startswith("self.offset +=")]
    last_fail = max([i for i, t in enumerate(body) if "?" in t or "return Err" in t] + [-1])
    chk.check(R4, len(adv_i) == 1 and adv_i[0] > last_fail, "string:no-advance-before-failure", "statements: %s" % [t[:50] for t in body], WS)

    R5 = chk.rule("R-DELEG", "every typed request reaches the buffer only through word(): exactly one word() call per word consumed "
                  "(typed enum/mask requests, id, bit32, ext_inst_integer: one; bit64: two; words(n): one per loop iteration)")
    nde = 0
    for mname, d in sorted(dm.items()):
        if mname in ("word", "string", "new", "offset", "set_limit", "clear_limit", "has_limit", "limit_reached"):
            continue
        f_ = d["fn"]
        ncalls = sum(1 for n in walk(f_["body"]) if n[0] == "mcall" and path_of(n[1]) == "self" and n[2] == "word")
        direct = [show(n)[:60] for n in walk(f_["body"]) if n[0] in ("index", "field") and show(n).startswith("self.bytes")]
        direct += [show(n)[:60] for n in walk(f_["body"]) if n[0] in ("assign", "assignop") and "self.offset" in show(n[1] if n[0] == "assign" else n[2])]
        want_n = 2 if mname == "bit64" else 1
        nde += 1
        chk.check(R5, ncalls == want_n and not direct, "Decoder::" + mname, "%d word() calls (expected %d); direct buffer/offset access: %s" % (ncalls, want_n, direct),
                  raw.where(mname, "Decoder"), key="C11:deleg:" + mname)
        if d["cls"] in ("enum", "mask"):
            chk.check(R5, not d["problems"], "Decoder::%s:shape" % mname, "; ".join(d["problems"]), raw.where(mname, "Decoder"))
        elif d["ret"].replace(" ", "").startswith("Result<spirv::") and mname not in ("id", "bit32", "ext_inst_integer", "words", "bit64") and d["cls"] == "other":
            chk.bad(R5, "Decoder::%s:shape" % mname, "typed request is not in the audited shape (via %s::%s)" % (d["ty"], d["via"]), raw.where(mname, "Decoder"))
    chk.floor(R5, "delegating requests", nde, 61)
    chk.analysed.update({"decoder_methods": len(dm), "offset_writers": sorted(wr["offset"]), "limit_writers": sorted(wr["limit"])})
