"""C15 Module traversals visit exactly the assembled instruction sequence."""
from ..core import Anchor
from .trav import BLOCK_LAYOUT, FUNCTION_LAYOUT, MODULE_LAYOUT, Trav, elem_type, expected_module_all

EXPLANATION = (
    "The six traversal methods and the four assemble_into implementations are read as sequences of field paths "
    "(iterator chains and statement lists are normalised; calls of one traversal from another are inlined) and compared with "
    "each other, with the declaration of dr::Module/Function/Block (every instruction-typed field must be visited) and with the "
    "SPIR-V logical layout order. The property is a statement about code shape; it is decided in full.")
EXHAUSTIVE = True


def run(ctx, chk):
    tv = Trav(ctx)
    raw = ctx.raw
    R = chk.rule("R-TRAV", "global_inst_iter[_mut], all_inst_iter[_mut], Function::all_inst_iter[_mut] and the assemble_into "
                 "implementations of Module/Function/Block walk identical field sequences in SPIR-V logical-layout order, covering "
                 "every instruction-typed field; _mut variants differ only in mutability")
    exp = {("Module", "global_inst_iter"): MODULE_LAYOUT, ("Module", "all_inst_iter"): expected_module_all(),
           ("Function", "all_inst_iter"): FUNCTION_LAYOUT}
    n = 0
    for (ty, name), want in exp.items():
        for mut in (False, True):
            fname = name + ("_mut" if mut else "")
            w = raw.where(fname, ty, "constructs.rs")
            try:
                seq = tv.iter_fn(ty, fname)
            except Anchor as ex:
                chk.bad(R, "%s::%s" % (ty, fname), "traversal is not in an analysable shape: %s" % ex, w)
                continue
            n += 1
            paths = [p for p, _ in seq]
            chk.check(R, paths == want, "%s::%s:sequence" % (ty, fname),
                      "visits %s, expected %s" % (diffseq(paths, want), "the logical-layout order"), w, sample=paths)
            chk.check(R, all(m == mut for _, m in seq), "%s::%s:mutability" % (ty, fname),
                      "mixes shared and mutable iteration: %s" % [(p, m) for p, m in seq if m != mut], w)
    chk.floor(R, "traversal methods", n, 6)
    # every instruction-typed field is visited
    for ty, layout in (("Module", MODULE_LAYOUT + ["functions"]), ("Function", ["def", "parameters", "blocks", "end"]),
                       ("Block", BLOCK_LAYOUT)):
        for f, fty in tv.fields[ty].items():
            et = elem_type(fty)
            if et in ("Instruction", "Function", "Block"):
                chk.check(R, f in layout, "%s.%s:visited" % (ty, f),
                          "field %s.%s: %s holds instructions but is not part of the traversal order" % (ty, f, fty),
                          "rspirv/dr/constructs.rs struct %s" % ty)
        for f in layout:
            chk.check(R, f in tv.fields[ty], "%s.%s:exists" % (ty, f), "expected field %s.%s is missing" % (ty, f),
                      "rspirv/dr/constructs.rs struct %s" % ty)

    A = chk.rule("R-ASM-ORDER", "Module::assemble_into = header then exactly the all_inst_iter sequence; Function/Block assemble_into "
                 "walk def, parameters, blocks(label, instructions), end")
    na = 0
    for ty, want in (("Block", BLOCK_LAYOUT), ("Function", FUNCTION_LAYOUT), ("Module", ["header"] + expected_module_all())):
        w = raw.where("assemble_into", ty, "assemble.rs")
        try:
            seq = tv.asm_fn(ty)
        except Anchor as ex:
            chk.bad(A, "%s::assemble_into" % ty, "not in an analysable shape: %s" % ex, w)
            continue
        na += 1
        chk.check(A, seq == want, "%s::assemble_into:sequence" % ty, "emits %s" % diffseq(seq, want), w, sample=seq)
    try:
        allseq = [p for p, _ in tv.iter_fn("Module", "all_inst_iter")]
        chk.check(A, tv.asm_fn("Module") == ["header"] + allseq, "Module::assemble_into=header+all_inst_iter",
                  "assembly order differs from all_inst_iter", raw.where("assemble_into", "Module", "assemble.rs"))
    except Anchor:
        pass
    # ModuleHeader emission: five words in header order
    from . import headerx
    headerx.report(chk, A, raw, headerx.header_api_problems(ctx), only=["ModuleHeader::assemble_into"], keyp="C15")
    chk.floor(A, "assemble_into impls", na, 3)
    chk.analysed.update({"traversal_methods": n, "assemble_impls": na + 1})


def header_words(f):
    from ..tree import walk, path_of
    res = f["sig"]["params"][1][0]
    out = None
    for n in walk(f["body"]):
        if n[0] == "mcall" and path_of(n[1]) == res and n[2] == "extend" and len(n[3]) == 1 and n[3][0][0] in ("array", "vec"):
            out = []
            for e in n[3][0][1]:
                if e[0] == "field" and path_of(e[1]) == "self":
                    out.append(e[2])
                else:
                    out.append("?")
    return out


def diffseq(got, want):
    missing = [p for p in want if p not in got]
    extra = [p for p in got if p not in want]
    if missing or extra:
        return "missing %s, unexpected %s" % (missing, extra)
    for i, (a, b) in enumerate(zip(got, want)):
        if a != b:
            return "order differs at position %d: %s where %s is expected" % (i, a, b)
    if len(got) != len(want):
        return "length %d vs %d (duplicates: %s)" % (len(got), len(want), sorted(set(p for p in got if got.count(p) > 1)))
    return "the expected sequence"
