"""C15 Module traversals visit exactly the assembled instruction sequence."""
from ..core import Anchor
from .trav import BLOCK_LAYOUT, FUNCTION_LAYOUT, MODULE_LAYOUT, Trav, elem_type, expected_module_all

EXPLANATION = (
    "The six traversal methods and the assemble_into implementations of Module/Function/Block are evaluated on an abstract module "
    "(one distinct instruction in every section the struct declares, a complete function, a function without definition and "
    "parameters whose first block has no label and whose last block is empty, and the same module without header and memory model); "
    "the visited / emitted sequences must equal the SPIR-V logical layout order computed from the module value. The struct "
    "declarations are read so that a new instruction-holding field cannot stay outside the abstract module.")
EXHAUSTIVE = False     # the abstract inputs are a stated finite scope, not the whole input space


def run(ctx, chk):
    tv = Trav(ctx)
    raw = ctx.raw
    R = chk.rule("R-TRAV", "global_inst_iter[_mut], all_inst_iter[_mut], Function::all_inst_iter[_mut] and the assemble_into "
                 "implementations of Module/Function/Block walk identical field sequences in SPIR-V logical-layout order, covering "
                 "every instruction-typed field; _mut variants differ only in mutability")
    from . import travx, headerx
    cases = travx.cases(ctx)
    n = 0
    for inst, wh, got, want in cases:
        if "assemble_into" in inst:
            continue
        n += 1
        chk.check(R, got == want, inst + ":sequence", "on the abstract module (one instruction per section; a complete function and one without "
                  "definition/parameters, with an unlabelled and an empty block) it visits %s, expected %s" % (
                      diffseq(got, want) if isinstance(got, list) else got, "the assembly order"), raw.where(*wh), sample=got if inst == "Module::all_inst_iter" else None,
                  key="C15:trav:" + inst.split(" (")[0])
    chk.floor(R, "traversal cases", n, 9)
    # the abstract module has one instruction in every section the struct declares
    for f, fty in tv.fields["Module"].items():
        if elem_type(fty) == "Instruction":
            chk.check(R, f in travx.SECTION_ORDER, "Module.%s:in-abstract-module" % f, "field Module.%s: %s holds instructions but the abstract module leaves it empty" % (f, fty),
                      "rspirv/dr/constructs.rs struct Module")
    # every instruction-typed field is visited
    for ty, layout in (("Module", MODULE_LAYOUT + ["functions"]), ("Function", ["def", "parameters", "blocks", "end"]),
                       ("Block", BLOCK_LAYOUT)):
        for f, fty in tv.fields[ty].items():
            et = elem_type(fty)
            if et in ("Instruction", "Function", "Block"):
                chk.check(R, f in layout, "%s.%s:visited" % (ty, f),
                          "field %s.%s: %s holds instructions but is not part of the traversal order" % (ty, f, fty),
                          "rspirv/dr/constructs.rs struct %s" % ty)
        for f in layout:
            chk.check(R, f in tv.fields[ty], "%s.%s:exists" % (ty, f), "expected field %s.%s is missing" % (ty, f),
                      "rspirv/dr/constructs.rs struct %s" % ty)

    A = chk.rule("R-ASM-ORDER", "Module::assemble_into = header then exactly the all_inst_iter sequence; Function/Block assemble_into "
                 "walk def, parameters, blocks(label, instructions), end")
    na = 0
    for inst, wh, got, want in cases:
        if "assemble_into" not in inst:
            continue
        na += 1
        chk.check(A, got == want, inst + ":sequence", "emits %s, expected header, global sections in logical-layout order, then per function definition, "
                  "parameters, per block label and instructions, end" % (diffseq(got, want) if isinstance(got, list) else got), raw.where(*wh),
                  sample=got if inst == "Module::assemble_into" else None, key="C15:asm:" + inst.split(" (")[0])
    # ModuleHeader emission: five words in header order
    from . import headerx
    headerx.report(chk, A, raw, headerx.header_api_problems(ctx), only=["ModuleHeader::assemble_into"], keyp="C15")
    chk.floor(A, "assemble_into cases", na, 7)
    chk.analysed.update({"traversal_methods": n, "assemble_impls": na + 1})


def diffseq(got, want):
    missing = [p for p in want if p not in got]
    extra = [p for p in got if p not in want]
    if missing or extra:
        return "missing %s, unexpected %s" % (missing, extra)
    for i, (a, b) in enumerate(zip(got, want)):
        if a != b:
            return "order differs at position %d: %s where %s is expected" % (i, a, b)
    if len(got) != len(want):
        return "length %d vs %d (duplicates: %s)" % (len(got), len(want), sorted(set(p for p in got if got.count(p) > 1)))
    return "the expected sequence"
