"""Abstract interpretation of Parser::parse_operands over small abstract grammars and word budgets (C03 R-QUANT)."""
import itertools

from ..core import Anchor
from ..symeval import SymEval, Hooks, NONE, Panic as SPanic

PAR = "rspirv::binary::parser"
QS = ("One", "ZeroOrOne", "ZeroOrMore")


class H(Hooks):
    def __init__(self, kinds, quants, words, opcode="Nop"):
        self.kinds, self.quants, self.words, self.opcode = kinds, quants, words, opcode
        self.consumed = []        # ('operand', logical index) | ('id',) | ('literal', type-id) | ('spec',)
        self.n = 0

    def take(self):
        if self.words <= 0:
            return False
        self.words -= 1
        self.n += 1
        return True

    def path(self, p):
        if p == "self":
            return ("self",)
        return NotImplemented

    def field(self, base, name, e):
        if base == ("self",):
            return ("selffield", name)
        if isinstance(base, tuple) and base and base[0] == "grammar":
            if name == "operands":
                return ("list", [("lop", i) for i in range(len(self.kinds))])
            if name == "opcode":
                return ("enum", "Op::" + self.opcode, [])
        if isinstance(base, tuple) and base[0] == "lop":
            if name == "kind":
                return ("enum", "OperandKind::" + self.kinds[base[1]], [("lopidx", base[1])] if self.kinds[base[1]].startswith("K") else [])
            if name == "quantifier":
                return ("enum", "OperandQuantifier::" + self.quants[base[1]], [])
        return NotImplemented

    def binary(self, op, a, b, e):
        if op in ("==", "!=") and isinstance(a, tuple) and isinstance(b, tuple) and a[0] == "enum" and b[0] == "enum":
            return (a[1].split("::")[-1] == b[1].split("::")[-1]) == (op == "==")
        return NotImplemented

    def call(self, p, args, e):
        if p.endswith("Instruction::new") and len(args) == 4:
            return ("instruction", args[0], args[1], args[2], args[3])
        return NotImplemented

    def mcall(self, recv, m, args, e, ev):
        if recv == ("selffield", "decoder"):
            if m == "limit_reached":
                return self.words <= 0
            if m == "offset":
                return ("sym", "offset")
            if m == "id":
                if not self.take():
                    return ("err", ("sym", "LimitReached"))
                self.consumed.append(("id",))
                return ("ok", ("sym", "id%d" % self.n))
            return NotImplemented
        if recv == ("self",):
            if m == "parse_operand" and len(args) == 1:
                k = args[0]
                if not self.take():
                    return ("err", ("sym", "LimitReached"))
                idx = k[2][0][1] if (isinstance(k, tuple) and k[0] == "enum" and k[2] and k[2][0][0] == "lopidx") else None
                name = k[1].split("::")[-1] if isinstance(k, tuple) and k[0] == "enum" else "?"
                self.consumed.append(("operand", idx if idx is not None else name))
                variant = "IdRef" if name.startswith("K") or name == "IdRef" else name
                return ("ok", ("list", [("enum", "Operand::" + variant, [("sym", "w%d" % self.n)])]))
            if m == "parse_literal" and len(args) == 1:
                if not self.take():
                    return ("err", ("sym", "LimitReached"))
                self.consumed.append(("literal", args[0]))
                return ("ok", ("enum", "Operand::LiteralBit32", [("sym", "w%d" % self.n)]))
            if m == "parse_spec_constant_op":
                if not self.take():
                    return ("err", ("sym", "LimitReached"))
                self.consumed.append(("spec",))
                return ("ok", ("list", [("enum", "Operand::LiteralSpecConstantOpInteger", [("sym", "w%d" % self.n)])]))
            # any other method of the parser (a private helper extracted from the function under evaluation) is evaluated in place
            ctx = getattr(self, "ctx", None)
            if ctx is not None and getattr(self, "_depth", 0) < 4:
                c = [f_ for f_ in ctx.rspirv.fns(PAR, "Parser") if f_["name"] == m]
                if len(c) == 1:
                    ps = [q[0] for q in c[0]["sig"]["params"] if q[0] != "self"]
                    if len(ps) == len(args):
                        from ..symeval import Return
                        self._depth = getattr(self, "_depth", 0) + 1
                        ev.note_ret(c[0])
                        ctx.memo("inlined_fns", dict).setdefault("Parser::%s" % m, set()).add(ev.what)
                        try:
                            try:
                                return ev.block(c[0]["body"], dict(zip(ps, args), self=("self",)))
                            except Return as r_:
                                return r_.v
                        finally:
                            self._depth -= 1
        return NotImplemented

    def match_path(self, v, path):
        segs = path.split("::")
        if isinstance(v, tuple) and v[0] == "enum" and len(segs) >= 2:
            return v[1].split("::")[-1] == segs[-1]
        return NotImplemented


def reference(quants, words):
    """the statement's quantifier semantics -> ('ok', [consumed logical indices]) | ('err', 'OperandExpected')"""
    i = 0
    out = []
    steps = 0
    while i < len(quants):
        steps += 1
        if steps > 1000:
            break
        q = quants[i]
        if words > 0:
            words -= 1
            out.append(i)
            if q in ("One", "ZeroOrOne"):
                i += 1
        else:
            if q == "One":
                return ("err", "OperandExpected")
            break
    return ("ok", out)


def evaluate(ctx, kinds, quants, words, opcode="Nop"):
    f = ctx.rspirv.fn(PAR, "parse_operands", "Parser")
    h = H(kinds, quants, words, opcode)
    h.ctx = ctx
    ev = SymEval(h, "parse_operands")
    try:
        r = ev.run(f, {f["sig"]["params"][1][0]: ("grammar",)})
    except SPanic as x:
        return ("panic", str(x)), h
    return r, h


def cases(extra=0):
    """operand lists of length <= 3 (<= extra + 1 if the code counts further), 0..4 (extra + 2) words left"""
    for n in range(0, max(4, min(extra + 2, 6))):
        for qs in itertools.product(QS, repeat=n):
            for w in range(0, max(5, extra + 3)):
                yield list(qs), w


def extra(ctx):
    from ..tree import small_literals
    return max(small_literals(ctx.rspirv.fn(PAR, "parse_operands", "Parser")["body"]) | {0})


SPECIAL_ROWS = {
    "IdResultType": (["IdResultType", "IdResult"], ["One", "One"], 2, "Undef"),
    "IdResult": (["IdResult"], ["One"], 1, "Label"),
    "LiteralContextDependentNumber": (["IdResultType", "IdResult", "LiteralContextDependentNumber"], ["One", "One", "One"], 3, "Constant"),
    "PairLiteralIntegerIdRef": (["IdRef", "IdRef", "PairLiteralIntegerIdRef"], ["One", "One", "ZeroOrMore"], 6, "Switch"),
    "LiteralSpecConstantOpInteger": (["IdResultType", "IdResult", "LiteralSpecConstantOpInteger"], ["One", "One", "One"], 3, "SpecConstantOp"),
}


def special(ctx):
    """kind -> consumption trace of parse_operands on the grammar row that contains the special kind (memoised)"""
    def build():
        out = {}
        for k, (kinds, quants, words, opcode) in SPECIAL_ROWS.items():
            r, h = evaluate(ctx, kinds, quants, words, opcode)
            out[k] = {"result": r, "consumed": list(h.consumed)}
        return out
    return ctx.memo("quantx_special", build)


def any_panic(ctx):
    """first abstract case of the quantifier family in which parse_operands panics, or None"""
    for quants, words in cases(extra(ctx)):
        r, h = evaluate(ctx, ["K%d" % i for i in range(len(quants))], quants, words)
        if isinstance(r, tuple) and r and r[0] == "panic":
            return (quants, words, r[1])
    return None


class SH(H):
    """parse_spec_constant_op: the opcode literal, then the nested opcode's operands"""

    def __init__(self, fits, known, kinds):
        H.__init__(self, kinds, ["One"] * len(kinds), 100, "IAdd")
        self.fits, self.known = fits, known

    def path(self, p):
        if p.endswith("lookup_opcode"):
            return ("fnref", p)
        return H.path(self, p)

    def call(self, p, args, e):
        if p.endswith("u16::try_from") and len(args) == 1:
            return ("ok", ("narrowed", args[0])) if self.fits else ("err", ("sym", "TryFromIntError"))
        if p.endswith("lookup_opcode") and len(args) == 1:
            a = args[0]
            if isinstance(a, tuple) and a[0] == "narrowed" and self.known:
                return ("some", ("grammar",))
            if isinstance(a, tuple) and a[0] == "as16":
                return ("some", ("grammar", "truncated")) if self.known else NONE
            return NONE
        return H.call(self, p, args, e)

    def cast(self, v, ty, e):
        if ty in ("u16", "u8") and v == ("sym", "NUMBER"):
            return ("as16", v)
        return NotImplemented

    def mcall(self, recv, m, args, e, ev):
        if recv == ("selffield", "decoder") and m == "bit32":
            return ("ok", ("sym", "NUMBER"))
        return H.mcall(self, recv, m, args, e, ev)


def spec_eval(ctx, fits, known, kinds):
    f = ctx.rspirv.fn(PAR, "parse_spec_constant_op", "Parser")
    h = SH(fits, known, kinds)
    h.ctx = ctx
    ev = SymEval(h, "parse_spec_constant_op")
    try:
        r = ev.run(f, {})
    except SPanic as x:
        return ("panic", str(x)), h
    return r, h


def spec_excluded(ctx, kinds):
    """the operand kinds that parse_spec_constant_op never hands to the generic operand parser (evaluated: the nested opcode's row
    contains the kind; it is skipped or the instruction is rejected)"""
    def build():
        out = set()
        for k in kinds:
            r, h = spec_eval(ctx, True, True, [k, "IdRef"])
            if isinstance(r, tuple) and r and r[0] == "panic":
                continue
            if not any(c == ("operand", k) for c in h.consumed):
                out.add(k)
        return out
    return ctx.memo("quantx_spec_excluded:" + ",".join(sorted(kinds)), build)
