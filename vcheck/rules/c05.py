"""C05 Loader accepts exactly well-bracketed function/block structure."""
from ..core import Anchor
from ..model import op_values
from .. import ospec
from . import loadeval as loaderx

EXPLANATION = (
    "The loader is a finite transducer over (function open?, block open?) x opcode. Loader::consume_instruction is evaluated (rule "
    "engine's evaluator of the expanded syntax tree on a Loader value built by Loader::new(); guards resolved by deciding each "
    "grammar::reflect predicate per opcode) for every one of the 787 opcodes in each of the 4 states, and Loader::finalize in each "
    "state; where the instruction value ends up, which objects are created or handed over, and the next state are read off the "
    "resulting value and compared with the reference automaton transcribed from the property statement and the SPIR-V logical layout "
    "(O-STMT/O-SPEC). Every case is repeated with a finished function in the module and a finished block in the open function, and the "
    "outcome must be the same: the loader's value has more state than the two flags, and that part is sampled, not enumerated. No loader code is run.")
EXHAUSTIVE = False     # opcode x automaton state is enumerated in full; the contents of the module under construction are a stated sample

STATES = [(False, False), (True, False), (True, True), (False, True)]


def sname(s):
    return "(function %s, block %s)" % ("open" if s[0] else "closed", "open" if s[1] else "closed")


def reference(op, cls, st):
    """-> list of acceptable outcomes: ('error', V) | ('ok', sink, next_state, events-set)"""
    F, B = st
    keep = st
    sect = ospec.SECTION_OF.get(op)
    if sect:
        return [("ok", "module." + sect, keep)]
    if op in cls["annotation"][0]:
        return [("ok", "module.annotations", keep)]
    if op in cls["type"][0] or op in cls["constant"][0]:
        return [("ok", "module.types_global_values", keep)]
    if op in ("Line", "NoLine"):
        return [("ok", "block.instructions" if B else "module.types_global_values", keep)]
    if op in ("Variable", "Undef"):
        if not F:
            return [("ok", "module.types_global_values", keep)]
        return [("ok", "block.instructions", keep)] if B else [("error", "DetachedInstruction")]
    if op == "Function":
        return [("error", "NestedFunction")] if F else [("ok", "function.def", (True, B), "new function")]
    if op == "FunctionEnd":
        if not F:
            return [("error", "MismatchedFunctionEnd")]
        if B:
            return [("error", "UnclosedBlock")]
        return [("ok", "function.end", (False, False), "function->module.functions")]
    if op == "FunctionParameter":
        return [("ok", "function.parameters", keep)] if F else [("error", "DetachedFunctionParameter")]
    if op == "Label":
        if not F:
            return [("error", "DetachedBlock")]
        if B:
            return [("error", "NestedBlock")]
        return [("ok", "block.label", (True, True), "new block")]
    if op in ospec.BLOCK_TERMINATION:
        if not B:
            return [("error", "MismatchedTerminator")]
        return [("ok", "block.instructions", (F, False), "block->function.blocks")]
    generic = [("ok", "block.instructions", keep)] if B else [("error", "DetachedInstruction")]
    # vendor Type*/Constant* opcodes outside the required classes may be filed as module-level or treated generically
    if op in cls["type"][1] or op in cls["constant"][1]:
        return generic + [("ok", "module.types_global_values", keep)]
    return generic


def matches(res, ref):
    if res[0] == "error":
        return ref[0] == "error" and ref[1] == res[1]
    if res[0] != "ok" or ref[0] != "ok":
        return False
    sinks, nxt, ev = res[1], res[2], res[3]
    if sinks != [ref[1]] or nxt != ref[2]:
        return False
    if len(ref) > 3:
        if ref[3] == "new function":
            return any(e.startswith("new function") and "def" in e for e in ev) and len(ev) == 1
        if ref[3] == "new block":
            return any(e.startswith("new block") and "label" in e for e in ev) and len(ev) == 1
        return ev == [ref[3]]
    return ev == []


def run(ctx, chk):
    ops, _ = op_values(ctx)
    cls = ospec.classes(ctx)
    raw = ctx.raw
    W = raw.where("consume_instruction", "Loader")
    chk.trusted += ["O-STMT loader automaton (DESIGN.md B.2) transcribed from the property statement",
                    "O-SPEC opcode classes (vcheck/ospec.py)"]
    R = chk.rule("R-AUTO", "for every opcode and every abstract state, the outcome of consume_instruction (error variant, or the single "
                 "container the instruction is moved into, the next state, and which function/block is created or closed) equals "
                 "the reference automaton")
    RI = chk.rule("R-AUTO-INV", "the state (function closed, block open) is unreachable from the initial state; no unwrap can fail "
                  "in a reachable state; the instruction is moved exactly once on every path")
    trans = {}
    table = {}
    for st in STATES:
        for op in sorted(ops):
            try:
                res, moves = loaderx.consume(ctx, op, st[0], st[1])
            except Anchor as ex:
                chk.bad(R, "consume(%s)%s" % (op, sname(st)), "loader is not in an analysable shape: %s" % ex, W, key="C05:shape:%s" % str(ex)[:80])
                return
            table[(op, st)] = res
            # the same instruction when it is not the first of its kind (a finished function in the module, a finished block in the open
            # function): the outcome must not depend on that
            if st != (False, True):
                try:
                    res2, _m2 = loaderx.consume(ctx, op, st[0], st[1], True)
                except Anchor as ex:
                    res2 = ("not analysable", str(ex))
                same = res2[:1] == res[:1] and (res[0] != "error" or res2[1] == res[1]) and (res[0] != "ok" or (res2[1] == res[1] and res2[2] == res[2]))
                chk.check(R, same, "Op%s in %s, after an earlier function and block" % (op, sname(st)),
                          "with a finished function in the module and a finished block in the open function the outcome is %s, without them %s" % (str(res2[:3])[:200], str(res[:3])[:200]),
                          W, key="C05:later:%s:%s" % (op, "F%dB%d" % st))
            if res[0] == "ok":
                trans.setdefault(st, set()).add(res[2])
            if st == (False, True):
                continue
            inst = "Op%s in %s" % (op, sname(st))
            if res[0] == "panic":
                continue
            refs = reference(op, cls, st)
            good = any(matches(res, r) for r in refs)
            what = ""
            if not good:
                got = ("error %s" % res[1]) if res[0] == "error" else ("stored in %s, next state %s, events %s" % (res[1], sname(res[2]), res[3]))
                want = " or ".join(("error %s" % r[1]) if r[0] == "error" else ("stored in %s, next state %s%s" % (r[1], sname(r[2]), (", " + r[3]) if len(r) > 3 else "")) for r in refs)
                what = "loader outcome for %s: %s; expected: %s" % (inst, got, want)
            chk.check(R, good, inst, what, W, key="C05:%s:%s" % (op, "F%dB%d" % st),
                      sample={"outcome": res[:3]} if op in ("Label", "Return", "Name") else None)
            if res[0] in ("ok", "error"):
                exp_moves = 1
                chk.check(RI, moves == exp_moves or (res[0] == "error" and moves in (0, 1)), inst + ":moved-once",
                          "the instruction value is used %d times on this path" % moves, W)
    # reachability
    reach = {(False, False)}
    frontier = [(False, False)]
    while frontier:
        s = frontier.pop()
        for n in trans.get(s, ()):
            if n not in reach:
                reach.add(n)
                frontier.append(n)
    chk.check(RI, (False, True) not in reach, "state(function closed, block open):unreachable",
              "a block can be open while no function is open (reachable states: %s)" % sorted(reach), W)
    for (op, st), res in table.items():
        if res[0] == "panic" and st in reach:
            chk.bad(RI, "Op%s in %s:no-panic" % (op, sname(st)), "reachable panic: %s" % res[1], W, key="C05:panic:%s" % op)
    npanic_unreach = sum(1 for (op, st), res in table.items() if res[0] == "panic" and st not in reach)
    chk.ok(RI, "panics-only-in-unreachable-state(%d)" % npanic_unreach)

    RF = chk.rule("R-FINAL", "finalize: Err UnclosedBlock if a block is open, else Err UnclosedFunction if a function is open, else Continue")
    WF = raw.where("finalize", "Loader")
    for st in STATES[:3]:
        res = loaderx.finalize(ctx, st[0], st[1])
        want = ("error", "UnclosedBlock") if st[1] else (("error", "UnclosedFunction") if st[0] else ("ok",))
        chk.check(RF, res[:len(want)] == want and (res[0] != "ok" or (res[2] == st and not res[1] and not res[3])), "finalize in " + sname(st),
                  "outcome %s, expected %s" % (res[:2], want), WF, sample=res[:2])
    chk.floor(R, "opcodes", len(ops), 787)
    chk.analysed.update({"opcodes": len(ops), "states": 4, "abstract_evaluations": len(table) + 3, "reachable_states": sorted(reach)})
