"""Abstract interpretation of dr::Builder methods over the selection typestate.

Abstract state: F in {None, 'valid'} (selected_function), B in {None, 'valid', 'stale'} (selected_block; 'stale' = an index
that was not established for the currently selected function).  For a method and a state the interpreter enumerates all
paths (unknown data conditions fork) and yields, per path: outcome Ok/Err(variant)/PANIC, next state, whether module
instructions were mutated, ids reserved.  Unknown constructs raise Anchor (fail closed)."""
from ..core import Anchor
from ..tree import int_of, is_node, path_of, show, show_stmt, strip_refs, unblock, walk

BLD = "rspirv::dr::build"

OPAQUE = ("opaque",)


class Ret(Exception):
    def __init__(self, v):
        self.v = v


class Panic(Exception):
    pass


class NeedChoice(Exception):
    pass


def mentions_self(n):
    for x in walk(n):
        if x[0] == "path" and x[1] == "self":
            return True
    return False


class Run:
    """One path through one method."""

    def __init__(self, bx, fn, state, decisions, depth=0):
        self.bx = bx
        self.fn = fn
        self.F, self.B = state
        self.dec = decisions
        self.di = 0
        self.widths = []
        self.locals = {}
        self.mutated = False          # module instructions changed
        self.header_mutated = False
        self.ids = 0
        self.assumed = []
        self.pushed_fn = False
        self.pushed_blk = False
        self.checked = {}              # local name -> 'F' | 'B' (index proven in range)
        self.pushes = {}               # module container path -> number of pushes on this path
        self.depth = depth
        self.trace = []

    # ---- choice
    def choose(self, n, what):
        if n <= 1:
            return 0
        if self.di < len(self.dec):
            c = self.dec[self.di]
        else:
            c = 0
            self.dec.append(0)
        self.widths.append(n)
        self.di += 1
        self.trace.append("%s=%d" % (what, c))
        return c

    # ---- evaluation
    def block(self, b):
        r = None
        for s in b[1]:
            if s[0] == "local":
                if s[3] is None:
                    continue
                v = self.value(s[3])
                if s[4] is not None:
                    # let PAT = EXPR else { diverge };
                    saved = dict(self.locals)
                    m = self.pat_facts(s[1], v)
                    if m is None:
                        self.locals = saved
                        m = self.choose(2, "let-else") == 1
                        if m:
                            self.bind_opaque(s[1])
                    if not m:
                        self.locals = saved
                        self.value(s[4])
                        raise Anchor("builder: the else branch of a let-else does not diverge")
                else:
                    self.bind(s[1], v)
                r = None
            elif s[0] == "expr":
                r = self.value(s[1])
                if s[2]:
                    r = None
            elif s[0] == "item":
                continue
            else:
                raise Anchor("builder: statement %s" % show_stmt(s)[:60])
        return r

    def bind(self, pat, v):
        k = pat[0]
        if k == "p_ident":
            self.locals[pat[1]] = v
        elif k == "p_tuple" and isinstance(v, tuple) and v and v[0] == "tuple":
            for p, x in zip(pat[1], v[1]):
                self.bind(p, x)
        elif k == "p_wild":
            pass
        elif k == "p_tuple":
            for p in pat[1]:
                self.bind(p, OPAQUE)
        elif k in ("p_ts", "p_struct", "p_ref", "p_type"):
            for x in walk(pat):
                if x[0] == "p_ident":
                    self.locals[x[1]] = OPAQUE
        else:
            raise Anchor("builder: binding pattern %s" % show(pat))

    def sel(self, which):
        v = self.F if which == "F" else self.B
        return ("optidx", which, v)

    def value(self, e):
        e = unblock(e) if e[0] == "block" and len(e[1]) == 1 and e[1][0][0] == "expr" and not e[1][0][2] else e
        k = e[0]
        if k == "block":
            return self.block(e)
        if k in ("lit",):
            return OPAQUE
        if k == "path":
            p = e[1]
            if p in self.locals:
                return self.locals[p]
            if p == "None":
                return ("none",)
            return OPAQUE
        if k == "return":
            raise Ret(self.value(e[1]) if e[1] is not None else None)
        if k == "try":
            v = self.value(e[1])
            if isinstance(v, tuple) and v[0] == "result":
                if v[1] == "err":
                    raise Ret(v)
                return v[2] if len(v) > 2 else OPAQUE
            if v == OPAQUE:
                raise Anchor("builder: `?` on a value of unknown origin: %s" % show(e)[:80])
            raise Anchor("builder: `?` on %s" % (v,))
        if k == "field":
            t = show(e)
            if t == "self.selected_function":
                return self.sel("F")
            if t == "self.selected_block":
                return self.sel("B")
            if t.startswith("self.module"):
                return self.modplace(e)
            base = self.value(e[1])
            if isinstance(base, tuple) and base[0] == "mod":
                return ("mod", base[1] + "." + e[2])
            if isinstance(base, tuple) and base[0] == "tuple" and e[2].isdigit():
                return base[1][int(e[2])]
            return OPAQUE
        if k == "index":
            base = self.value(e[1])
            idx = self.value(e[2])
            if isinstance(base, tuple) and base[0] == "mod":
                self.index_check(base[1], idx, e)
                return ("mod", base[1] + "[]")
            return OPAQUE
        if k == "ref":
            return self.value(e[2])
        if k == "unary":
            v = self.value(e[2])
            if e[1] == "!" and isinstance(v, bool):
                return not v
            return v if e[1] == "*" else OPAQUE
        if k == "binary":
            return self.binary(e)
        if k == "assign":
            self.assign(e[1], e[2])
            return None
        if k == "assignop":
            t = show(e[2])
            if t == "self.next_id":
                self.value(e[3])
                return None
            if t.startswith("self.selected_"):
                raise Anchor("builder: arithmetic on the selection: %s" % show(e))
            if t.startswith("self.module"):
                self.mutated = True
            self.value(e[3])
            return None
        if k == "tuple":
            return ("tuple", [self.value(x) for x in e[1]])
        if k == "call":
            return self.call(e)
        if k == "mcall":
            return self.mcall(e)
        if k == "match":
            return self.match(e)
        if k == "if":
            return self.if_(e)
        if k == "for":
            if not mentions_self(e[3]):
                self.value(e[2])
                return None
            self.value(e[2])
            if self.choose(2, "loop") == 1:
                self.bind(e[1], OPAQUE)
                self.block(e[3])
            return None
        if k in ("vec", "array"):
            for x in e[1]:
                self.value(x)
            return OPAQUE
        if k == "struct":
            for _, x in e[2]:
                self.value(x)
            return OPAQUE
        if k == "closure":
            if mentions_self(e[2]):
                return ("closure", e)
            return OPAQUE
        if k == "cast":
            return self.value(e[1])
        if k == "macro":
            if e[1] in ("panic", "unreachable", "todo", "unimplemented", "assert", "assert_eq"):
                raise Panic("%s!" % e[1])
            return OPAQUE
        if k in ("range", "repeat"):
            return OPAQUE
        if not mentions_self(e):
            return OPAQUE
        raise Anchor("builder: unrecognised expression %s" % show(e)[:100])

    def modplace(self, e):
        """self.module.<...> -> ('mod', path)"""
        t = show(e)
        return ("mod", t[len("self."):])

    def index_check(self, path, idx, e):
        if path.endswith("module.functions"):
            if isinstance(idx, tuple) and idx[0] == "idx" and idx[1] == "F" and idx[2] == "valid":
                return
            if isinstance(idx, tuple) and idx[0] == "local" and self.checked.get(idx[1]) == "F":
                return
            raise Panic("index into functions with %s at %s" % (idx, show(e)[:80]))
        if path.endswith(".blocks"):
            if isinstance(idx, tuple) and idx[0] == "idx" and idx[1] == "B":
                if idx[2] == "valid":
                    return
                raise Panic("stale block index at %s" % show(e)[:80])
            if isinstance(idx, tuple) and idx[0] == "local" and self.checked.get(idx[1]) == "B":
                return
            raise Panic("index into blocks with %s at %s" % (idx, show(e)[:80]))
        # other indexing into module data with caller data: assumed in range (statement: offsets within the block)
        self.assumed.append(show(e)[:80])

    def binary(self, e):
        op = e[1]
        if op in ("&&", "||"):
            a = self.value(e[2])
            if isinstance(a, bool):
                if (op == "&&" and not a) or (op == "||" and a):
                    return a
                return self.value(e[3])
            self.value(e[3])
            return OPAQUE
        if op == "<":
            l, r = e[2], e[3]
            rt = show(r)
            lp = path_of(l)
            if lp is not None and rt == "self.module.functions.len()":
                return ("cmp_idx", lp, "F")
            if lp is not None and rt.startswith("self.module.functions[") and rt.endswith("].blocks.len()"):
                inner = r[1][1]  # field(index(...), blocks) -> receiver of len()
                # validate the function index used in the comparison
                self.value(r[1])
                return ("cmp_idx", lp, "B")
        a, b = self.value(e[2]), self.value(e[3])
        if op == "-" and isinstance(a, tuple) and a[0] == "len":
            return ("lenminus", a[1])
        return OPAQUE

    def assign(self, lhs, rhs):
        t = show(lhs)
        if t in ("self.selected_function", "self.selected_block"):
            which = "F" if t.endswith("function") else "B"
            v = self.value(rhs)
            new = None
            if v == ("none",):
                new = None
            elif isinstance(v, tuple) and v[0] == "some":
                x = v[1]
                if isinstance(x, tuple) and x[0] == "len" and len(x) == 3:
                    # index = length read before exactly one push on the same container
                    one_more = self.pushes.get(x[1], 0) == x[2] + 1
                    if which == "F" and x[1].endswith("module.functions") and one_more:
                        new = "valid"
                    elif which == "B" and x[1].endswith(".blocks") and one_more:
                        new = "valid"
                    else:
                        new = "stale"
                elif isinstance(x, tuple) and x[0] == "lenminus":
                    if which == "F" and x[1].endswith("module.functions") and self.pushed_fn:
                        new = "valid"
                    elif which == "B" and x[1].endswith(".blocks") and self.pushed_blk:
                        new = "valid"
                    else:
                        new = "stale"
                elif isinstance(x, tuple) and x[0] == "local" and self.checked.get(x[1]) == which:
                    new = "valid"
                elif isinstance(x, tuple) and x[0] == "idx" and x[1] == which:
                    new = x[2]
                else:
                    new = "stale"
            else:
                raise Anchor("builder: selection assigned %s" % show(rhs)[:60])
            if which == "F":
                if new == "stale":
                    raise Panic("selected_function set to an unchecked index: %s" % show(rhs)[:60])
                self.F = new
                # a block index established for another function is stale now
                if self.B is not None:
                    self.B = "stale"
            else:
                self.B = new
            return
        if t == "self.next_id":
            self.value(rhs)
            return
        if t.startswith("self.module"):
            self.value(lhs[1]) if lhs[0] == "field" else None
            self.value(rhs)
            if t == "self.module.header" or ".header" in t:
                self.header_mutated = True
            else:
                self.mutated = True
            return
        base = lhs
        while base[0] in ("field", "index"):
            base = base[1]
        bp = path_of(base)
        if bp in self.locals and isinstance(self.locals[bp], tuple) and self.locals[bp][0] == "mod":
            self.value(rhs)
            if ".header" in self.locals[bp][1] or t.endswith(".bound"):
                self.header_mutated = True
            else:
                self.mutated = True
            return
        self.value(rhs)
        if bp is not None and lhs[0] == "path":
            self.locals[bp] = OPAQUE

    def call(self, e):
        p = path_of(e[1]) or ""
        args = [self.value(a) for a in e[2]]
        if p == "Some" and len(args) == 1:
            return ("some", args[0])
        if p == "Ok":
            return ("result", "ok", args[0] if args else OPAQUE)
        if p == "Err":
            a = e[2][0]
            name = "?"
            if a[0] == "call":
                name = (path_of(a[1]) or "?").split("::")[-1]
            elif a[0] == "path":
                name = a[1].split("::")[-1]
            return ("result", "err", name)
        return OPAQUE

    MUT = {"push", "insert", "pop", "remove", "clear", "truncate", "extend", "append", "swap", "retain", "drain", "sort", "dedup",
           "extend_from_slice", "resize", "swap_remove", "take", "replace", "get_or_insert_with", "insert_with"}

    def mcall(self, e):
        recv, m, argn = e[1], e[2], e[3]
        rt = show(recv)
        if rt == "self":
            return self.selfcall(m, argn, e)
        # Option methods on the selection
        if rt in ("self.selected_function", "self.selected_block"):
            v = self.sel("F" if rt.endswith("function") else "B")
            if m == "is_some":
                return v[2] is not None
            if m == "is_none":
                return v[2] is None
            if m in ("unwrap", "expect"):
                if v[2] is None:
                    raise Panic("%s on empty selection" % m)
                return ("idx", v[1], v[2])
            if m in ("ok_or", "ok_or_else") and len(argn) == 1:
                if v[2] is None:
                    a = argn[0]
                    if a[0] == "closure":
                        a = a[2]
                    nm = (path_of(a) or (path_of(a[1]) if a[0] == "call" else None) or "?").split("::")[-1]
                    return ("result", "err", nm)
                return ("result", "ok", ("idx", v[1], v[2]))
            if m == "take":
                if v[1] == "F":
                    self.F = None
                    if self.B is not None:
                        self.B = "stale"
                else:
                    self.B = None
                return v
            raise Anchor("builder: method %s on the selection" % m)
        r = self.value(recv)
        args = [self.value(a) for a in argn]
        if isinstance(r, tuple) and r[0] == "closure":
            return OPAQUE
        if isinstance(r, tuple) and r[0] == "mod":
            if m == "len" and not args:
                return ("len", r[1], self.pushes.get(r[1], 0))
            if m in self.MUT:
                if m == "pop":
                    # pop().ok_or(..) handled by the caller via ('popped')
                    return ("popped", r[1])
                if m in ("insert", "remove", "swap_remove"):
                    self.assumed.append(show(e)[:80])
                if ".header" in r[1]:
                    self.header_mutated = True
                else:
                    self.mutated = True
                    if m == "push":
                        self.pushes[r[1]] = self.pushes.get(r[1], 0) + 1
                    if r[1].endswith("module.functions") and m == "push":
                        self.pushed_fn = True
                    if r[1].endswith(".blocks") and m == "push":
                        self.pushed_blk = True
                return None
            if m in ("as_mut", "as_ref", "iter", "iter_mut", "unwrap", "expect", "last", "first", "enumerate", "get", "get_mut", "is_none", "is_some", "map", "is_empty"):
                if m in ("unwrap", "expect") and ".header" not in r[1]:
                    self.assumed.append(show(e)[:80])
                return ("mod", r[1]) if m not in ("is_none", "is_some", "is_empty") else OPAQUE
            return OPAQUE
        if isinstance(r, tuple) and r[0] == "popped":
            if m == "ok_or":
                if self.choose(2, "pop") == 0:
                    self.mutated = True
                    return ("result", "ok", OPAQUE)
                a = argn[0]
                return ("result", "err", (path_of(a) or "?").split("::")[-1])
            if m in ("unwrap", "expect"):
                self.assumed.append(show(e)[:80])
                self.mutated = True
                return OPAQUE
        if isinstance(r, tuple) and r[0] == "result":
            if m in ("expect", "unwrap"):
                if r[1] == "err":
                    raise Panic("%s on Err(%s): %s" % (m, r[2], show(e)[:60]))
                return r[2]
            if m == "is_ok":
                return r[1] == "ok"
            if m == "is_err":
                return r[1] == "err"
            if m in ("ok",):
                return ("some", r[2]) if r[1] == "ok" else ("none",)
            return r
        if m == "unwrap_or_else" and len(argn) == 1 and argn[0][0] == "closure" and mentions_self(argn[0]):
            # result_id.unwrap_or_else(|| self.id())
            if self.choose(2, "unwrap_or_else") == 1:
                return self.value(argn[0][2])
            return OPAQUE
        for a in argn:
            if a[0] == "closure" and mentions_self(a):
                raise Anchor("builder: closure capturing self passed to %s" % m)
        return OPAQUE

    def selfcall(self, m, argn, e):
        for a in argn:
            self.value(a)
        if m == "id" and not argn:
            self.ids += 1
            return OPAQUE
        callee = self.bx.methods.get(m)
        if callee is None:
            raise Anchor("builder: call of unknown method self.%s" % m)
        if self.depth > 6:
            raise Anchor("builder: call depth exceeded at self.%s" % m)
        # inline: explore the callee's paths through our own decision list
        sub = Run(self.bx, callee, (self.F, self.B), self.dec, self.depth + 1)
        sub.di = self.di
        sub.widths = self.widths
        sub.trace = self.trace
        sub.pushes = self.pushes
        try:
            r = sub.block(callee["body"])
        except Ret as x:
            r = x.v
        self.di = sub.di
        self.F, self.B = sub.F, sub.B
        self.mutated = self.mutated or sub.mutated
        self.header_mutated = self.header_mutated or sub.header_mutated
        self.ids += sub.ids
        self.assumed += sub.assumed
        ret = callee["sig"]["ret"].replace(" ", "")
        if ret.startswith("BuildResult<") or ret.startswith("Result<"):
            if not (isinstance(r, tuple) and r[0] == "result"):
                raise Anchor("builder: %s does not evaluate to a Result: %s" % (m, (r,)))
            return r
        if ret.startswith("Option<"):
            if r in (("none",),):
                return ("none",)
            if isinstance(r, tuple) and r[0] == "some":
                return r
            if isinstance(r, tuple) and r[0] == "optidx":
                return r
            return ("maybe",)
        return r if r is not None else OPAQUE

    def pat_facts(self, pat, v):
        """-> True (matches, bindings applied) | False | None (unknown)"""
        k = pat[0]
        if k == "p_wild":
            return True
        if k == "p_ident" and pat[4] is None and pat[1] != "None":
            self.locals[pat[1]] = self.unwrap_local(v, pat[1])
            return True
        if k in ("p_path", "p_ident") and (path_of(pat) or "").split("::")[-1] == "None":
            if isinstance(v, tuple) and v[0] == "optidx":
                return v[2] is None
            if v == ("none",):
                return True
            if isinstance(v, tuple) and v[0] == "some":
                return False
            return None
        if k == "p_ts" and pat[1] == "Some" and len(pat[2]) == 1:
            if isinstance(v, tuple) and v[0] == "optidx":
                if v[2] is None:
                    return False
                return self.pat_facts(pat[2][0], ("idx", v[1], v[2]))
            if v == ("none",):
                return False
            if isinstance(v, tuple) and v[0] == "some":
                return self.pat_facts(pat[2][0], v[1])
            if isinstance(v, tuple) and v[0] == "maybe" or v == OPAQUE:
                return None
            return None
        if k == "p_tuple" and isinstance(v, tuple) and v[0] == "tuple" and len(pat[1]) == len(v[1]):
            res = True
            for p, x in zip(pat[1], v[1]):
                r = self.pat_facts(p, x)
                if r is False:
                    return False
                if r is None:
                    res = None
            return res
        if k == "p_or":
            rs = [self.pat_facts(c, v) for c in pat[1]]
            if any(r is True for r in rs):
                return True
            if all(r is False for r in rs):
                return False
            return None
        if k == "p_ref":
            return self.pat_facts(pat[2], v)
        return None

    def unwrap_local(self, v, name):
        if v == OPAQUE:
            return ("local", name)
        return v

    def bind_opaque(self, pat):
        for x in walk(pat):
            if x[0] == "p_ident" and x[1] != "None":
                self.locals[x[1]] = ("local", x[1])

    def match(self, e):
        v = self.value(e[1])
        arms = e[2]
        unknown = []
        for i, (pat, guard, body) in enumerate(arms):
            saved = dict(self.locals)
            r = self.pat_facts(pat, v)
            if r is True and guard is None:
                if unknown:
                    unknown.append(i)
                    break
                return self.value(body)
            self.locals = saved
            if r is False:
                continue
            unknown.append(i)
        if not unknown:
            raise Anchor("builder: no arm can match in %s" % show(e)[:60])
        c = self.choose(len(unknown), "match")
        pat, guard, body = arms[unknown[c]]
        if self.pat_facts(pat, v) is None:
            self.bind_opaque(pat)
        if guard is not None:
            self.value(guard)
        return self.value(body)

    def if_(self, e):
        c = e[1]
        if c[0] == "let":
            v = self.value(c[2])
            saved = dict(self.locals)
            r = self.pat_facts(c[1], v)
            if r is None:
                self.locals = saved
                if not mentions_self(e[2]) and (e[3] is None or not mentions_self(e[3])):
                    return OPAQUE
                r = self.choose(2, "iflet") == 1
                if r:
                    self.bind_opaque(c[1])
            if r:
                return self.value(e[2])
            self.locals = saved
            return self.value(e[3]) if e[3] is not None else None
        v = self.value(c)
        if isinstance(v, tuple) and v[0] == "cmp_idx":
            if self.choose(2, "idx-in-range") == 0:
                self.checked[v[1]] = v[2]
                try:
                    return self.value(e[2])
                finally:
                    pass
            return self.value(e[3]) if e[3] is not None else None
        if not isinstance(v, bool):
            if not mentions_self(e[2]) and (e[3] is None or not mentions_self(e[3])):
                return OPAQUE
            v = self.choose(2, "if") == 1
        if v:
            return self.value(e[2])
        return self.value(e[3]) if e[3] is not None else None

    def run(self):
        try:
            r = self.block(self.fn["body"])
        except Ret as x:
            r = x.v
        except Panic as x:
            return {"outcome": "panic", "what": str(x), "next": (self.F, self.B), "mutated": self.mutated, "ids": self.ids,
                    "trace": list(self.trace), "assumed": self.assumed}
        out = "ok"
        err = None
        if isinstance(r, tuple) and r[0] == "result":
            out = r[1]
            err = r[2] if r[1] == "err" else None
        return {"outcome": out, "err": err, "next": (self.F, self.B), "mutated": self.mutated, "ids": self.ids,
                "trace": list(self.trace), "assumed": self.assumed, "header": self.header_mutated}


class BuilderX:
    def __init__(self, ctx):
        self.methods = {}
        for f in ctx.rspirv.fns(BLD, "Builder"):
            self.methods[f["name"]] = f
        self._memo = {}

    def skeleton(self, f):
        return tuple(show_stmt(s) for s in f["body"][1] if mentions_self(s))

    def paths(self, name, state):
        f = self.methods[name]
        key = (self.skeleton(f), f["sig"]["ret"], state)
        if key in self._memo:
            return self._memo[key]
        out = []
        dec = []
        for _ in range(4096):
            d = list(dec)
            run = Run(self, f, state, d)
            res = run.run()
            out.append(res)
            # next decision vector (odometer over the widths seen on this run)
            widths = run.widths
            d = d[:len(widths)]
            i = len(widths) - 1
            while i >= 0 and d[i] + 1 >= widths[i]:
                i -= 1
            if i < 0:
                break
            dec = d[:i] + [d[i] + 1]
        else:
            raise Anchor("builder: too many paths in %s" % name)
        self._memo[key] = out
        return out
