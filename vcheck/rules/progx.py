"""Hooks that evaluate calls into the analysed crate in place: `Type::method(..)`, `module::function(..)` and `value.method(..)` on
struct values are resolved against the expanded source of rspirv (by last path segments; ambiguous names are not inlined), so a
rule can evaluate an entry point together with the helpers it is written in terms of.  Word values use the byte-lane algebra of
lookx.VH (shifts/masks by whole bytes are exact; anything else stays symbolic)."""
from ..symeval import SymEval, Hooks, NONE, UNIT, Return
from .. import symeval as _symeval
from ..tree import lastseg, strip_generics
from . import lookx


def _index(ctx):
    def build():
        meth, free, consts = {}, {}, {}
        for m in ctx.rspirv.modules():
            for it in ctx.rspirv.items(m):
                k = it.get("kind")
                if k == "fn":
                    free.setdefault(it["name"], []).append(it)
                elif k == "impl":
                    st = lastseg(strip_generics(it["self_ty"]))
                    for x in it["items"]:
                        if x.get("kind") == "fn":
                            x = dict(x)
                            x["self_ty"] = st
                            x["trait"] = it.get("trait")
                            meth.setdefault((st, x["name"]), []).append(x)
                elif k == "const" and it.get("init") is not None:
                    consts.setdefault(it["name"], []).append(it)
        for m in ctx.spirv.modules():
            for it in ctx.spirv.items(m):
                if it.get("kind") == "const" and it.get("init") is not None and it.get("name") != "_":
                    consts.setdefault(it["name"], []).append(it)
        return meth, free, consts
    return ctx.memo("progx_index", build)


def _split_top(t):
    """split at commas outside angle brackets / parentheses"""
    out, depth, cur = [], 0, ""
    for ch in t:
        if ch in "<([":
            depth += 1
        elif ch in ">)]":
            depth -= 1
        if ch == "," and depth == 0:
            out.append(cur)
            cur = ""
        else:
            cur += ch
    if cur.strip():
        out.append(cur)
    return out


class _InlineMixin:
    """evaluates calls into the analysed crate in place; combined with a base hooks class below"""
    MAXDEPTH = 8
    NO_INLINE = ()

    is_inliner = True

    def _init_inline(self, ctx):
        self.ctx = ctx
        self.ev = None
        self._depth = 0

    def inline(self, f, args, selfv=None):
        ps = [q[0] for q in f["sig"]["params"] if q[0] != "self"]
        if len(ps) != len(args) or self._depth >= self.MAXDEPTH:
            return NotImplemented
        env = dict(zip(ps, args))
        if selfv is not None:
            env["self"] = selfv
        # explicit type arguments (`f::<u32>()`): the function's type parameters are bound for the evaluation of its body
        tf, self._turbofish = getattr(self, "_turbofish", None), None
        bound = {}
        gen = (f["sig"].get("generics") or "").strip()
        if tf and gen.startswith("<"):
            names = [g_.split(":")[0].strip() for g_ in _split_top(gen[1:-1]) if not g_.strip().startswith("'") and not g_.strip().startswith("const ")]
            targs = [t_.strip() for t_ in _split_top(tf.strip().lstrip(":").strip()[1:-1]) if not t_.strip().startswith("'")]
            if len(names) == len(targs):
                bound = dict(zip(names, targs))
        saved_tp = getattr(self, "tparams", {})
        self.tparams = dict(saved_tp, **bound) if bound else saved_tp
        try:
            return self._inline_body(f, env)
        finally:
            self.tparams = saved_tp

    def _inline_body(self, f, env):
        self._depth += 1
        self.ev.note_ret(f)
        inl = self.ctx.memo("inlined_fns", dict)
        inl.setdefault("%s::%s" % (f.get("self_ty") or "", f["name"]), set()).add(self.ev.what)
        try:
            try:
                return self.ev.block(f["body"], env)
            except Return as r:
                return r.v
        finally:
            self._depth -= 1

    def index(self, base, idx, e):
        r = super().index(base, idx, e)
        if r is not NotImplemented:
            return r
        if isinstance(base, tuple) and base and base[0] == "struct":
            # `value[idx]` on a struct of the crate: its `impl Index<..>`
            meth, free, consts = _index(self.ctx)
            c = [x for x in meth.get((base[1], "index"), []) if lastseg(strip_generics((x.get("trait") or "").replace(" ", ""))) == "Index"]
            if len(c) == 1:
                saved = getattr(self, "self_ty", None)
                self.self_ty = base[1]
                try:
                    return self.inline(c[0], [idx], base)
                finally:
                    self.self_ty = saved
        return NotImplemented

    def convert_from(self, src, v):
        """`v.into()` where exactly one `impl From<src> for Dst` exists in the crate: its `from` evaluated on v"""
        meth, free, consts = _index(self.ctx)
        cands = []
        for (st_, nm_), fs_ in meth.items():
            if nm_ != "from":
                continue
            for x in fs_:
                tr = (x.get("trait") or "").replace(" ", "")
                if tr.split("::")[-1].startswith("From<") and lastseg(strip_generics(tr[tr.index("<") + 1:tr.rindex(">")])) == src:
                    cands.append(x)
        if len(cands) != 1:
            return NotImplemented
        saved = getattr(self, "self_ty", None)
        self.self_ty = cands[0]["self_ty"]
        try:
            return self.inline(cands[0], [v])
        finally:
            self.self_ty = saved

    def path(self, p):
        r = super().path(p)
        if r is not NotImplemented:
            return r
        meth, free, consts = _index(self.ctx)
        c = consts.get(p.split("::")[-1], [])
        if len(c) > 1:
            from ..tree import int_of
            vals = {int_of(x["init"]) for x in c}
            if len(vals) == 1 and None not in vals:
                return vals.pop()
        if len(c) == 1 and self.ev is not None:
            from ..tree import int_of
            v = int_of(c[0]["init"])
            if v is not None:
                return v
            try:
                return self.ev.ev(c[0]["init"], {})
            except Exception:
                return NotImplemented
        return NotImplemented

    def binary(self, op, a, b, e):
        if isinstance(a, int) and isinstance(b, int):
            return NotImplemented
        return super().binary(op, a, b, e)

    def call(self, p, args, e):
        r = super().call(p, args, e)
        if r is not NotImplemented:
            return r
        segs = p.split("::")
        meth, free, consts = _index(self.ctx)
        if segs[-1] in self.NO_INLINE or p in self.NO_INLINE:
            return NotImplemented
        if len(segs) >= 2 and segs[-1] == "from" and len(args) == 1 and segs[-2] in ("Word", "u8", "u16", "u32", "u64", "usize", "i32", "i64", "u128"):
            return args[0]          # a lossless integer widening of a symbolic value
        if len(segs) >= 2 and (segs[-2], segs[-1]) not in meth:
            from ..symeval import _type_alias as _ta
            al2_ = _ta(segs[-2])            # `type ExtSets = tracker::ExtInstSetTracker;` - the alias names the type's functions too
            if al2_ and (lastseg(strip_generics(al2_)), segs[-1]) in meth:
                segs = segs[:-2] + [lastseg(strip_generics(al2_)), segs[-1]]
        if len(segs) >= 2 and segs[-1] in ("new", "default", "with_capacity") and segs[-2] not in ("HashMap", "BTreeMap", "HashSet", "BTreeSet"):
            from ..symeval import _type_alias
            al_ = _type_alias(segs[-2])         # `type IdMap<L> = HashMap<..>;`
            if al_ and lastseg(strip_generics(al_)) in ("HashMap", "BTreeMap", "HashSet", "BTreeSet"):
                return ("map", {})
        if len(segs) >= 2 and segs[-2] in ("HashMap", "BTreeMap", "HashSet", "BTreeSet") and segs[-1] in ("new", "default", "with_capacity"):
            return ("map", {})
        if segs[-1] == "default" and not args and (len(segs) == 1 or segs[-2] == "Default"):
            return ("default",)
        if len(segs) >= 2 and segs[-2] in getattr(self, "tparams", {}):
            segs = segs[:-2] + [lastseg(strip_generics(self.tparams[segs[-2]])), segs[-1]]       # `T::f(..)` with T bound by explicit type arguments
        if len(segs) >= 2 and (segs[-2][:1].isupper() or (segs[-2], segs[-1]) in meth):
            st = segs[-2]
            if st == "Self":
                st = getattr(self, "self_ty", None) or getattr(self.ev, "fn_self_ty", None)
            c = meth.get((st, segs[-1]), [])
            if len(c) == 1:
                f = c[0]
                has_self = any(q[0] == "self" for q in f["sig"]["params"])
                saved = getattr(self, "self_ty", None)
                self.self_ty = st
                try:
                    if has_self and args:
                        return self.inline(f, args[1:], args[0])
                    return self.inline(f, args)
                finally:
                    self.self_ty = saved
            return NotImplemented
        c = free.get(segs[-1], [])
        if len(c) == 1:
            return self.inline(c[0], args)
        return NotImplemented

    def mcall(self, recv, m, args, e, ev):
        r = super().mcall(recv, m, args, e, ev)
        if r is not NotImplemented:
            return r
        self._turbofish = e[4] if (e is not None and len(e) > 4 and isinstance(e[4], str)) else None
        try:
            return self._mcall(recv, m, args, e, ev)
        finally:
            self._turbofish = None

    def _mcall(self, recv, m, args, e, ev):
        if m == "to_string" and not args and isinstance(recv, tuple) and recv and recv[0] == "struct":
            # a struct of the crate with its own `impl Display`: what its `fmt` writes into the formatter
            meth, free, consts = _index(self.ctx)
            c = [x for x in meth.get((recv[1], "fmt"), []) if lastseg(strip_generics((x.get("trait") or "").replace(" ", ""))) == "Display"]
            if len(c) == 1:
                ps = [q[0] for q in c[0]["sig"]["params"] if q[0] != "self"]
                if len(ps) == 1:
                    buf = ("fmt", [])
                    saved = getattr(self, "self_ty", None)
                    self.self_ty = recv[1]
                    try:
                        r = self.inline(c[0], [buf], recv)
                    finally:
                        self.self_ty = saved
                    if r is NotImplemented:
                        return r
                    if not (isinstance(r, tuple) and r and r[0] == "ok"):
                        from ..symeval import Panic
                        raise Panic("a Display implementation returned an error")
                    return buf
        if m == "into" and not args:
            # a value whose Rust type the rule's hooks know (e.g. what a decoder request returns): the crate's `impl From<that type>`
            t_ = self.ev.h.type_of(recv) if hasattr(self.ev.h, "type_of") else NotImplemented
            if isinstance(t_, str):
                r = self.convert_from(lastseg(strip_generics(t_)), recv)
                if r is not NotImplemented:
                    return r
        if m == "into" and not args and isinstance(recv, tuple) and recv and recv[0] in ("enum", "struct"):
            # a conversion defined in the crate: `impl From<Src> for Dst` (used when exactly one such impl exists for the source type)
            r = self.convert_from(recv[1].split("::")[0] if recv[0] == "enum" else recv[1], recv)
            if r is not NotImplemented:
                return r
        if isinstance(recv, tuple) and recv and recv[0] == "enum" and "::" in recv[1] and m not in self.NO_INLINE:
            meth, free, consts = _index(self.ctx)
            c = meth.get((recv[1].split("::")[0], m), [])
            if len(c) == 1:
                saved = getattr(self, "self_ty", None)
                self.self_ty = recv[1].split("::")[0]
                try:
                    return self.inline(c[0], args, recv)
                finally:
                    self.self_ty = saved
        if isinstance(recv, tuple) and recv and recv[0] not in ("struct", "enum", "list", "some", "none", "ok", "err", "fmt", "str", "map", "tuple", "lazy", "chunks") \
                and m not in self.NO_INLINE:
            # an abstract value of a rule (a block, an instruction ..): a method that exists exactly once in the crate is evaluated on it
            meth, free, consts = _index(self.ctx)
            c = [x for (st_, nm_), fs_ in meth.items() if nm_ == m for x in fs_]
            if len(c) == 1 and any(q[0] == "self" for q in c[0]["sig"]["params"]):
                saved = getattr(self, "self_ty", None)
                self.self_ty = c[0].get("self_ty")
                try:
                    return self.inline(c[0], args, recv)
                finally:
                    self.self_ty = saved
        if isinstance(recv, tuple) and recv and recv[0] == "struct" and m not in self.NO_INLINE:
            meth, free, consts = _index(self.ctx)
            c = meth.get((recv[1], m), [])
            if len(c) == 1:
                saved = getattr(self, "self_ty", None)
                self.self_ty = recv[1]
                try:
                    return self.inline(c[0], args, recv)
                finally:
                    self.self_ty = saved
        return NotImplemented



    def struct_built(self, name, fields):
        """fields initialised with `Default::default()` get the default of their declared type"""
        if not any(v == ("default",) for v in fields.values()):
            return fields
        decl = None
        for m in self.ctx.rspirv.modules():
            for it in self.ctx.rspirv.items(m, "struct"):
                if it.get("name") == name and {fl[0] for fl in it.get("fields", []) if isinstance(fl, (list, tuple))} == set(fields):
                    decl = it
        if decl is None:
            return fields
        types = {}
        for fl in decl.get("fields", []):
            if isinstance(fl, (list, tuple)) and len(fl) >= 2:
                types[fl[0]] = str(fl[1]).replace(" ", "")
        out = dict(fields)
        for k, v in fields.items():
            if v != ("default",):
                continue
            t = types.get(k, "")
            if t.startswith("Option<"):
                out[k] = NONE
            elif t.startswith(("Vec<", "vec::Vec<")):
                out[k] = ("list", [])
            elif t in ("u8", "u16", "u32", "u64", "usize", "i32", "i64", "spirv::Word", "Word"):
                out[k] = 0
            elif t == "bool":
                out[k] = False
            elif t in ("String", "string::String"):
                out[k] = ("str", "")
            elif "HashMap<" in t or "BTreeMap<" in t:
                out[k] = ("map", {})
            else:
                # a type of the crate with a `Default` impl (derived or written out): its `default()` evaluated
                meth, free, consts = _index(self.ctx)
                tn = lastseg(strip_generics(t.lstrip("&")))
                c = [x for x in meth.get((tn, "default"), []) if not [q for q in x["sig"]["params"]]]
                if len(c) == 1 and self.ev is not None and self._depth < self.MAXDEPTH:
                    saved = getattr(self, "self_ty", None)
                    self.self_ty = tn
                    try:
                        r = self.inline(c[0], [])
                    finally:
                        self.self_ty = saved
                    if r is not NotImplemented:
                        out[k] = r
        return out


class InlineHooks(_InlineMixin, lookx.VH):
    """subclasses set self.ev (the SymEval using these hooks); word values use the byte-lane algebra of lookx.VH"""

    def __init__(self, ctx):
        lookx.VH.__init__(self)
        self._init_inline(ctx)


class Inliner(_InlineMixin, Hooks):
    """only the in-place evaluation of crate functions: the fallback behind every rule's own hooks"""

    def __init__(self, ctx):
        self._init_inline(ctx)


class OpHooks(InlineHooks):
    """InlineHooks + spirv::Op values: alias-resolved opcode paths, equality of enum values, grammar::reflect predicates decided by
    the per-opcode predicate evaluation, Box/Rc/Arc::new as identity"""

    def __init__(self, ctx):
        InlineHooks.__init__(self, ctx)
        from ..model import predeval
        self.pe = predeval(ctx)

    def path(self, p):
        o = self.pe.resolve_op(p)
        if o is not None:
            return ("enum", "Op::" + o, [])
        return InlineHooks.path(self, p)

    def match_path(self, v, path):
        o = self.pe.resolve_op(path)
        if o is not None and isinstance(v, tuple) and v[0] == "enum":
            return v[1] == "Op::" + o
        return NotImplemented

    def binary(self, op, a, b, e):
        if op in ("==", "!=") and isinstance(a, tuple) and isinstance(b, tuple) and a and b and a[0] == "enum" and b[0] == "enum":
            return (a[1:] == b[1:]) == (op == "==")
        return InlineHooks.binary(self, op, a, b, e)

    def call(self, p, args, e):
        last = p.split("::")[-1]
        if last in self.pe.fns and len(args) == 1 and isinstance(args[0], tuple) and args[0][0] == "enum" and args[0][1].startswith("Op::"):
            return args[0][1][4:] in self.pe.predicate(last)
        if p.split("::")[-2:] in (["Box", "new"], ["Rc", "new"], ["Arc", "new"]) and len(args) == 1:
            return args[0]
        return InlineHooks.call(self, p, args, e)


def make(hooks, what):
    ev = SymEval(hooks, what)
    hooks.ev = ev
    return ev


_symeval.FALLBACK_FACTORY = Inliner
