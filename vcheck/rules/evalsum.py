"""Summary of a dr::Builder method by evaluation (fallback of builder.summarise for hand-written methods whose statements are
not in one of the recognised shapes): the method is evaluated, with the real helper functions inlined, on a builder that has one
function with one block selected (and again with nothing selected), all Option parameters absent / present and every slice or
iterator parameter holding two elements.  The instruction it creates, the place it ends up in and the value returned give the
same record builder.summarise produces."""
import copy

from ..core import Anchor
from ..symeval import NONE, UNIT, Panic as SPanic
from ..tree import walk as _walk
from . import progx

BLD = "rspirv::dr::build"
FRESH0 = 1000


class NoInstruction(Exception):
    """the method creates no instruction in any selection state"""


class BH(progx.OpHooks):
    def __init__(self, ctx):
        progx.OpHooks.__init__(self, ctx)
        self.insts = []
        self.self_ty = "Builder"

    def call(self, p, args, e):
        segs = p.split("::")
        if segs[-2:] == ["Instruction", "new"] and len(args) == 4:
            v = ("struct", "Instruction", {"class": ("struct", "Instruction", {"opcode": args[0], "opname": ("sym", "OPNAME"), "capabilities": ("list", []), "extensions": ("list", []), "operands": ("list", [("sym", "LOGICAL_OPERAND")])}), "result_type": args[1], "result_id": args[2], "operands": args[3]})
            self.insts.append(v)
            return v
        return progx.OpHooks.call(self, p, args, e)

    def mcall(self, recv, m, args, e, ev):
        if m == "into" and not args and isinstance(recv, tuple) and recv and recv[0] == "param" and getattr(self, "param_types", {}).get(recv[1]):
            # an argument of a known scalar type converted with a `From` impl of the crate (e.g. u32 -> Operand::LiteralBit32)
            r = self.convert_from(self.param_types[recv[1]].replace(" ", "").split("::")[-1], recv)
            if r is not NotImplemented:
                return r
        if isinstance(recv, tuple) and recv and recv[0] in ("param", "elem") and m in ("into", "to_string", "to_owned", "clone", "as_ref", "borrow", "as_str"):
            return recv
        return progx.InlineHooks.mcall(self, recv, m, args, e, ev)


def _templates(ctx):
    def build():
        h = BH(ctx)
        ev = progx.make(h, "dr constructors")
        out = {}
        for ty in ("Module", "Function", "Block"):
            f = ctx.rspirv.fn("rspirv::dr::constructs", "new", ty, False)
            h.self_ty = ty
            out[ty] = ev.run(f, {})
            if not (isinstance(out[ty], tuple) and out[ty][0] == "struct"):
                raise Anchor("dr::%s::new() is not a struct literal" % ty)
        return out
    return ctx.memo("evalsum_templates", build)


def fresh_builder(ctx, selected):
    t = copy.deepcopy(_templates(ctx))
    blk, fn, mod = t["Block"], t["Function"], t["Module"]
    blk[2]["label"] = ("some", ("sym", "EXISTING_LABEL"))
    blk[2]["instructions"] = ("list", [("sym", "EXISTING_INSTRUCTION")])
    fn[2]["def"] = ("some", ("sym", "EXISTING_DEF"))
    fn[2]["blocks"] = ("list", [blk])
    mod[2]["functions"] = ("list", [fn])
    sel = selected in ("block", "function")
    return ("struct", "Builder", {"module": mod, "next_id": FRESH0, "selected_function": ("some", 0) if sel else NONE,
                                  "selected_block": ("some", 0) if selected == "block" else NONE})


def param_value(name, ty, variant):
    t = ty.replace(" ", "")
    if t.startswith("Option<"):
        return ("some", ("param", name)) if variant == "some" else NONE
    if t.lstrip("&").replace("mut", "").endswith("Instruction"):
        return ("struct", "Instruction", {"class": ("struct", "Instruction", {"opcode": ("enum", "Op::TypeVoid", []), "opname": ("str", "TypeVoid"), "capabilities": ("list", []), "extensions": ("list", []), "operands": ("list", [("sym", "LOGICAL_OPERAND")])}),
                                          "result_type": NONE, "result_id": NONE, "operands": ("list", []), "name": "ARGUMENT:" + name})
    if t == "InsertPoint" or t.endswith("::InsertPoint"):
        return ("enum", "InsertPoint::End", [])
    seq = t.startswith(("implAsRef<[", "implIntoIterator<", "Vec<", "&[", "implIterator<"))
    if seq:
        idxs = (0, 0) if variant == "dup" else (0, 1)          # "dup": the same element twice
        if "(" in t:
            return ("list", [("tuple", [("elem", name, i, 0), ("elem", name, i, 1)]) for i in idxs])
        return ("list", [("elem", name, i) for i in idxs])
    return ("param", name)


def run(ctx, f, variant, selected, insert_point=None, twin=None):
    b = fresh_builder(ctx, selected)
    if twin is not None:
        # an instruction equal by value to the one this call will build already sits in every section and in the selected block
        for k_, v_ in b[2]["module"][2].items():
            if isinstance(v_, tuple) and v_ and v_[0] == "list" and k_ != "functions":
                v_[1].append(copy.deepcopy(twin))
        for fn_ in b[2]["module"][2]["functions"][1]:
            fn_[2]["parameters"][1].append(copy.deepcopy(twin))
            for bl_ in fn_[2]["blocks"][1]:
                bl_[2]["instructions"][1].append(copy.deepcopy(twin))
    h = BH(ctx)
    h.param_types = {p[0]: p[1] for p in f["sig"]["params"] if p[0] != "self" and p[1].replace(" ", "") in ("u32", "u64", "spirv::Word", "Word", "f32", "f64", "bool")}
    ev = progx.make(h, "Builder::" + f["name"])
    env = {"self": b}
    for name, ty in [(p[0], p[1]) for p in f["sig"]["params"] if p[0] != "self"]:
        # variant: "some" / "none" (all optional arguments), or ("only", p) / ("without", p)
        var = "some" if variant == "dup" else variant
        if variant == "dup" and not ty.replace(" ", "").startswith("Option<"):
            var = "dup"
        if isinstance(variant, tuple):
            var = ("some" if name == variant[1] else "none") if variant[0] == "only" else ("none" if name == variant[1] else "some")
        v = param_value(name, ty, var)
        if insert_point is not None and v == ("enum", "InsertPoint::End", []):
            v = ("enum", "InsertPoint::" + insert_point, [])
        env[name] = v
    try:
        r = ev.run(f, env)
    except SPanic as x:
        r = ("panic", str(x))
    return r, b, h


def locate(b, inst):
    """where the instruction value lives in the builder state"""
    mod = b[2]["module"][2]
    for k, v in mod.items():
        if k == "functions":
            continue
        if isinstance(v, tuple) and v[0] == "list" and any(x is inst for x in v[1]):
            return ("section", k), [i for i, x in enumerate(v[1]) if x is inst][0]
        if isinstance(v, tuple) and v[0] == "some" and v[1] is inst:
            return ("section", k), None
    for fi, fn in enumerate(mod["functions"][1]):
        fl = fn[2]
        if fl.get("def") == ("some", inst) and fl["def"][1] is inst:
            return ("fn_def",), fi
        if isinstance(fl.get("end"), tuple) and fl["end"][0] == "some" and fl["end"][1] is inst:
            return ("fn_end",), fi
        if any(x is inst for x in fl["parameters"][1]):
            return ("fn_param",), fi
        for bi, blk in enumerate(fl["blocks"][1]):
            bl = blk[2]
            if isinstance(bl.get("label"), tuple) and bl["label"][0] == "some" and bl["label"][1] is inst:
                return ("label",), bi
            for ii, x in enumerate(bl["instructions"][1]):
                if x is inst:
                    return ("block",), ii
    return None, None


def opt_shape(v, fresh_ok=False):
    if v == NONE:
        return ("none",)
    if isinstance(v, tuple) and v[0] == "some":
        x = v[1]
        if isinstance(x, tuple) and x[0] == "param":
            return ("some", x[1])
        if isinstance(x, int) and x >= FRESH0:
            return ("some", "<fresh id>")
        return ("some", repr(x))
    return ("other", repr(v))


def summarise(ctx, f, base):
    """base: the record of builder.summarise (copied and completed); raises Anchor when the evaluation gives no single answer"""
    s = dict(base)
    s["problems"] = []
    params = [(p[0], p[1]) for p in f["sig"]["params"] if p[0] != "self"]
    opt_params = [n for n, t in params if t.replace(" ", "").startswith("Option<")]
    created = 0
    for state in ("block", "function", "none"):
        r1, b1, h1 = run(ctx, f, "some", state)
        created += len(h1.insts)
        if h1.insts and not (isinstance(r1, tuple) and r1 and r1[0] == "err"):
            break
    if not created:
        raise NoInstruction()
    r0, b0, h0 = run(ctx, f, "none", state)
    for r in (r1, r0):
        if isinstance(r, tuple) and r and r[0] == "panic":
            raise Anchor("panics on a builder with a selected block: %s" % r[1])
    placed = []
    for h, b in ((h1, b1), (h0, b0)):
        here = [(i, locate(b, i)) for i in h.insts]
        here = [(i, l) for i, l in here if l[0] is not None]
        if len(here) != 1:
            raise Anchor("%d of the %d instructions created are stored in the module" % (len(here), len(h.insts)))
        placed.append(here[0])
    (i1, (loc1, pos1)), (i0, (loc0, pos0)) = placed
    if loc1 != loc0:
        raise Anchor("the instruction goes to %s or %s depending on optional arguments" % (loc1, loc0))
    op1, op0 = i1[2]["class"][2]["opcode"], i0[2]["class"][2]["opcode"]
    if op1 != op0 or not (isinstance(op1, tuple) and op1[0] == "enum" and op1[1].startswith("Op::")):
        raise Anchor("opcode is %s / %s" % (op1, op0))
    s["opcode"] = op1[1].split("::")[-1]
    # sink
    if loc1 == ("block",):
        closed = b1[2]["selected_block"] == NONE
        ip = "InsertPoint::End"
        if any(t.replace(" ", "").endswith("InsertPoint") for _, t in params):
            rb, bb, hb = run(ctx, f, "some", "block", insert_point="Begin")
            lb = [locate(bb, i) for i in hb.insts]
            lb = [l for l in lb if l[0] is not None]
            if len(lb) == 1 and lb[0][0] == ("block",) and lb[0][1] == 0 and pos1 == 1:
                ip = [n for n, t in params if t.replace(" ", "").endswith("InsertPoint")][0]
        elif pos1 != 1:
            raise Anchor("the instruction is inserted at position %s of a block holding one instruction" % pos1)
        s["sink"] = ("end_block" if closed else "block", ip)
        # without a selected block the method must not silently put the instruction elsewhere, unless it is a documented global fallback
        rn, bn, hn = run(ctx, f, "some", "none")
        ln = [locate(bn, i) for i in hn.insts]
        ln = [l for l in ln if l[0] is not None]
        if ln and not closed:
            if len(ln) == 1 and ln[0][0] == ("section", "types_global_values"):
                s["sink"] = ("block_or_global", "by evaluation")
            else:
                raise Anchor("with nothing selected the instruction goes to %s" % [l[0] for l in ln])
    else:
        s["sink"] = loc1
    # result type / id
    rt1, rt0 = i1[2]["result_type"], i0[2]["result_type"]
    id1, id0 = i1[2]["result_id"], i0[2]["result_id"]

    def two(v1, v0, what):
        a, b = opt_shape(v1), opt_shape(v0)
        if a == b:
            return a
        if a[0] == "some" and a[1] in opt_params and b == ("none",):
            return ("path", a[1])
        if a[0] == "some" and a[1] in opt_params and b == ("some", "<fresh id>"):
            return ("some", "<%s or fresh>" % a[1])
        raise Anchor("%s is %s / %s" % (what, a, b))
    s["rtype"] = two(rt1, rt0, "result type")
    s["rid"] = two(id1, id0, "result id")
    rid = s["rid"]
    if rid == ("none",):
        s["id_src"] = ("none",)
    elif rid[0] == "path":
        s["id_src"] = ("optparam", rid[1])
    elif rid[1] == "<fresh id>":
        s["id_src"] = ("fresh",)
    elif rid[1].startswith("<") and rid[1].endswith(" or fresh>"):
        s["id_src"] = ("param_or_fresh", rid[1][1:-len(" or fresh>")])
    elif rid[1] in [n for n, _ in params]:
        s["id_src"] = ("param", rid[1])
    else:
        s["id_src"] = ("other", str(rid))
    # fresh ids: exactly the ones used (no id consumed and dropped)
    for b, idv in ((b1, id1), (b0, id0)):
        used = 1 if (isinstance(idv, tuple) and idv[0] == "some" and isinstance(idv[1], int) and idv[1] >= FRESH0) else 0
        if b[2]["next_id"] != FRESH0 + used:
            raise Anchor("allocates %s fresh ids but the instruction carries %d" % (b[2]["next_id"] - FRESH0 if isinstance(b[2]["next_id"], int) else "?", used))
    # operand slots
    ops1 = i1[2]["operands"]
    ops0 = i0[2]["operands"]
    if not (isinstance(ops1, tuple) and ops1[0] == "list" and isinstance(ops0, tuple) and ops0[0] == "list"):
        raise Anchor("operand list is %r" % (ops1,))
    pnames = [n for n, _ in params]
    items = []          # (kind text, source) per operand
    for o in ops1[1]:
        if isinstance(o, tuple) and o[0] == "enum" and o[1].startswith("Operand::") and len(o[2]) == 1:
            kind, a = o[1].split("::")[-1], o[2][0]
        elif isinstance(o, tuple) and o[0] == "elem":
            kind, a = "<Operand>", o
        else:
            raise Anchor("operand %r is not Operand::K(argument)" % (o,))
        if not (isinstance(a, tuple) and a[0] in ("param", "elem") and a[1] in pnames):
            raise Anchor("operand %s(%r) does not come from an argument" % (kind, a))
        items.append((kind, a, o))
    out = []
    i = 0
    while i < len(items):
        kind, a, o = items[i]
        if a[0] == "param":
            if a[1] in opt_params:
                if o in ops0[1]:
                    raise Anchor("optional argument %s appears although absent" % a[1])
                out.append(("opt", [kind], a[1]))
            else:
                out.append(("one", [kind], a[1]))
            i += 1
            continue
        # a run of operands built from the elements of one slice / iterator argument
        j = i
        per = {}
        while j < len(items) and items[j][1][0] == "elem" and items[j][1][1] == a[1]:
            k_, a_, _ = items[j]
            per.setdefault(a_[2], []).append(k_ if len(a_) == 3 else "%s@%d" % (k_, a_[3]))
            j += 1
        if sorted(per) != [0, 1] or per[0] != per[1] or [x[1][2] for x in items[i:j]] != sorted(x[1][2] for x in items[i:j]):
            raise Anchor("the elements of %s are encoded as %s" % (a[1], per))
        if per[0] == ["<Operand>"] and a[1] == "additional_params" and j == len(items):
            out.append(("additional", [], a[1]))
        else:
            out.append(("many", per[0], a[1]))
        i = j
    # the absent-variant operands must be the present-variant ones minus the optional slots
    keep = [o for o in ops1[1] if not (isinstance(o, tuple) and o[0] == "enum" and len(o[2]) == 1 and isinstance(o[2][0], tuple)
                                       and o[2][0][0] == "param" and o[2][0][1] in opt_params)]
    if list(ops0[1]) != keep:
        raise Anchor("operands with the optional arguments absent are %r" % (ops0[1],))
    # mixed presence: each optional argument alone present / alone absent changes exactly its own operand (and the id source)
    if len(opt_params) > 1:
        def is_opt(o, names):
            return (isinstance(o, tuple) and o[0] == "enum" and len(o[2]) == 1 and isinstance(o[2][0], tuple)
                    and o[2][0][0] == "param" and o[2][0][1] in names)
        for pn in opt_params:
            for kind in ("only", "without"):
                rm, bm, hm = run(ctx, f, (kind, pn), state)
                if isinstance(rm, tuple) and rm and rm[0] == "panic":
                    raise Anchor("panics with %s %s: %s" % (kind, pn, rm[1]))
                placed_m = [i for i in hm.insts if locate(bm, i)[0] is not None]
                if len(placed_m) != 1 or locate(bm, placed_m[0])[0] != loc1:
                    raise Anchor("with %s %s the instruction is stored differently" % (kind, pn))
                absent = [q for q in opt_params if (q != pn) == (kind == "only")]
                want_ops = [o for o in ops1[1] if not is_opt(o, absent)]
                got_ops = placed_m[0][2]["operands"][1]
                if list(got_ops) != want_ops:
                    raise Anchor("with %s the optional argument %s present the operands are %r" % ("only" if kind == "only" else "all but", pn, got_ops))
                for fld, v_all, v_none in (("result_id", id1, id0), ("result_type", rt1, rt0)):
                    vm = placed_m[0][2][fld]
                    src_param = v_all[1][1] if (isinstance(v_all, tuple) and v_all[0] == "some" and isinstance(v_all[1], tuple) and v_all[1][0] == "param") else None
                    present = src_param is None or src_param not in absent
                    exp = v_all if present else v_none
                    if opt_shape(vm) != opt_shape(exp):
                        raise Anchor("with %s %s the %s is %s" % (kind, pn, fld, opt_shape(vm)))
    s["slots"] = out
    # a slice / iterator argument holding the same element twice: both occurrences are emitted
    if any(sl[0] in ("many", "additional") for sl in out):
        rd, bd, hd = run(ctx, f, "dup", state)
        placed_d = [i for i in hd.insts if locate(bd, i)[0] is not None]
        if len(placed_d) != 1:
            raise Anchor("with a repeated element the instruction is not stored exactly once")

        def first_elem(o):
            if isinstance(o, tuple):
                if o and o[0] == "elem" and len(o) >= 3 and o[2] == 1:
                    return o[:2] + (0,) + o[3:]
                return tuple(first_elem(x) for x in o)
            if isinstance(o, list):
                return [first_elem(x) for x in o]
            return o
        want_d = [first_elem(o) for o in ops1[1]]
        got_d = list(placed_d[0][2]["operands"][1])
        if got_d != want_d:
            raise Anchor("given the same element twice the operands are %r (a repeated element is dropped or altered)" % (got_d,))
    # an equal instruction already present must not change what the call does (emitting twice is the caller's business)
    if not base.get("dedup") and "dedup_insert_type" not in repr(f["body"])[:0]:
        if not any(x[0] == "mcall" and x[2] == "dedup_insert_type" for x in _walk(f["body"])):
            rt_, bt_, ht_ = run(ctx, f, "some", state, twin=i1)
            placed_t = [i for i in ht_.insts if locate(bt_, i)[0] is not None]
            if isinstance(rt_, tuple) and rt_ and rt_[0] == "panic":
                raise Anchor("panics when an equal instruction is already present: %s" % rt_[1])
            if len(placed_t) != 1 or locate(bt_, placed_t[0])[0] != loc1:
                raise Anchor("when an equal instruction is already present the new one is %s" % (
                    "not stored" if not placed_t else "stored in %s" % (locate(bt_, placed_t[0])[0],)))
    # return value
    rv = r1
    if isinstance(rv, tuple) and rv[0] == "ok":
        rv = rv[1]
    if rv == UNIT:
        s["returns"] = "()"
    elif isinstance(id1, tuple) and id1[0] == "some" and rv == id1[1]:
        s["returns"] = s["rid"][1]
    else:
        s["returns"] = "other:%r" % (rv,)
    s["emits"] = True
    s["dedup"] = False
    s["by_evaluation"] = True
    return s


def dedup_summary(ctx, f, base):
    """Implicit-type methods (those that consult dedup_insert_type): the explicit / found / fresh decision evaluated on builders whose
    types_global_values do or do not contain an identical declaration.  -> summary record with s["dedup"] filled in."""
    params = [(p[0], p[1]) for p in f["sig"]["params"] if p[0] != "self"]
    opt = [n for n, t in params if t.replace(" ", "").startswith("Option<")]
    if not opt:
        raise Anchor("no optional result id parameter")
    ep = "result_id" if "result_id" in opt else opt[0]
    s = summarise(ctx, f, base)            # explicit id present / absent on a module without earlier declarations
    if s["sink"] != ("section", "types_global_values"):
        raise Anchor("the declaration is stored in %s" % (s["sink"],))

    def go(explicit, twin):
        b = fresh_builder(ctx, "none")
        tgv = b[2]["module"][2]["types_global_values"]
        other = ("struct", "Instruction", {"class": ("struct", "Instruction", {"opcode": ("enum", "Op::TypeVoid", []), "opname": ("str", "TypeVoid"), "capabilities": ("list", []), "extensions": ("list", []), "operands": ("list", [("sym", "LOGICAL_OPERAND")])}),
                                           "result_type": NONE, "result_id": ("some", 555), "operands": ("list", [("enum", "Operand::IdRef", [("elem", "UNRELATED", 0)])])})
        tgv[1].append(other)
        if twin is not None:
            tgv[1].append(twin)
        h = BH(ctx)
        ev = progx.make(h, "Builder::" + f["name"])
        env = {"self": b}
        for name, ty in params:
            env[name] = param_value(name, ty, "some" if (name != ep or explicit) else "none")
        n0 = len(tgv[1])
        try:
            r = ev.run(f, env)
        except SPanic as x:
            raise Anchor("panics: %s" % x)
        if isinstance(r, tuple) and r and r[0] == "ok":
            r = r[1]
        pushed = tgv[1][n0:]
        pid = None
        if pushed:
            v = pushed[-1][2]["result_id"] if isinstance(pushed[-1], tuple) and pushed[-1][0] == "struct" else None
            pid = "E" if v == ("some", ("param", ep)) else ("F" if isinstance(v, tuple) and v[0] == "some" and isinstance(v[1], int) and v[1] >= FRESH0 else repr(v))
        ret = "E" if r == ("param", ep) else ("D" if r == 777 else ("F" if isinstance(r, int) and r >= FRESH0 else repr(r)))
        nid = b[2]["next_id"]
        return (len(pushed), pid, ret, (nid - FRESH0) if isinstance(nid, int) else None), (pushed[-1] if pushed else None)
    # the declaration it builds (all other optional arguments present), then a twin with another id and an incomplete twin
    (_, built) = go(False, None)
    if built is None:
        raise Anchor("nothing is appended when no identical declaration exists")
    twin = copy.deepcopy(built)
    twin[2]["result_id"] = ("some", 777)
    table = {}
    for explicit in (True, False):
        for found in (True, False):
            table[(explicit, found)] = go(explicit, copy.deepcopy(twin) if found else None)[0]
    want = {(True, True): (1, "E", "E", 0), (True, False): (1, "E", "E", 0), (False, True): (0, None, "D", 0), (False, False): (1, "F", "F", 1)}
    ok = table == want
    why = "decision table %s" % {str(k): v for k, v in sorted(table.items())}
    order_ok = True
    if built[2]["operands"][1]:
        part = copy.deepcopy(twin)
        del part[2]["operands"][1][-1]
        if go(False, part)[0] != want[(False, False)]:
            order_ok = False
    s["dedup"] = {"shape_ok": ok, "explicit_param": ep, "why": why, "text": "", "complete_before_lookup": order_ok, "by_evaluation": True}
    s["rid"] = ("path", ep)
    s["returns"] = "dedup"
    return s


def _ti(opcode, operands, rid=None, rtype=None):
    return ("struct", "Instruction", {"class": ("struct", "Instruction", {"opcode": ("enum", "Op::" + opcode, []), "opname": ("str", opcode), "capabilities": ("list", []), "extensions": ("list", []), "operands": ("list", [("sym", "LOGICAL_OPERAND")])}),
                                      "result_type": NONE if rtype is None else ("some", rtype), "result_id": NONE if rid is None else ("some", rid),
                                      "operands": ("list", list(operands))})


def type_identity_problems(ctx):
    """Instruction::is_type_identical = same opcode and equal operand lists (ids and result types ignored);
    Builder::dedup_insert_type = id of the first identical declaration in types_global_values that has a result id"""
    out = []
    A, B, C = (("enum", "Operand::IdRef", [("elem", "x", i)]) for i in range(3))
    f = ctx.rspirv.fn("rspirv::dr::constructs", "is_type_identical", "Instruction", False)
    other = [q[0] for q in f["sig"]["params"] if q[0] != "self"][0]
    cases = [("same opcode, equal operands, different ids", _ti("TypeStruct", [A, B], 1), _ti("TypeStruct", [A, B], 2, 9), True),
             ("same opcode, no operands", _ti("TypeVoid", []), _ti("TypeVoid", [], 5), True),
             ("different opcode, equal operands", _ti("TypeStruct", [A, B]), _ti("TypeFunction", [A, B]), False),
             ("last operand differs", _ti("TypeStruct", [A, B]), _ti("TypeStruct", [A, C]), False),
             ("first operand differs", _ti("TypeStruct", [A, B]), _ti("TypeStruct", [C, B]), False),
             ("other has one operand more", _ti("TypeStruct", [A]), _ti("TypeStruct", [A, B]), False),
             ("other has one operand less", _ti("TypeStruct", [A, B]), _ti("TypeStruct", [A]), False),
             ("one has no operands", _ti("TypeStruct", []), _ti("TypeStruct", [A]), False)]
    for name, a, b, want in cases:
        h = BH(ctx)
        ev = progx.make(h, "Instruction::is_type_identical")
        h.self_ty = "Instruction"
        try:
            r = ev.run(f, {"self": a, other: b})
        except SPanic as x:
            r = "panics: %s" % x
        except Anchor as ex:
            r = "not analysable: %s" % ex
        out.append(("is_type_identical(%s)" % name, None if r is want else "yields %r, expected %s" % (r, want), ("is_type_identical", "Instruction")))
    g = ctx.rspirv.fn(BLD, "dedup_insert_type", "Builder")
    ip = [q[0] for q in g["sig"]["params"] if q[0] != "self"][0]
    probe = _ti("TypeStruct", [A, B])
    for name, tgv, want in (("an unrelated declaration, an identical one without id, then two identical ones with ids 20 and 30",
                             [_ti("TypeStruct", [A, C], 10), _ti("TypeStruct", [A, B]), _ti("TypeStruct", [A, B], 20), _ti("TypeStruct", [A, B], 30)], ("some", 20)),
                            ("only unrelated declarations and an identical one without id", [_ti("TypeStruct", [A], 10), _ti("TypeFunction", [A, B], 11), _ti("TypeStruct", [A, B])], NONE),
                            ("no declarations", [], NONE)):
        b = fresh_builder(ctx, "none")
        b[2]["module"][2]["types_global_values"] = ("list", list(tgv))
        # as in any real module the declarations are referred to from other sections (a name, a decoration, a member decoration)
        for t_ in tgv:
            rid_ = t_[2]["result_id"]
            if rid_ != NONE:
                ref_ = ("enum", "Operand::IdRef", [rid_[1]])
                b[2]["module"][2]["debug_names"][1].append(_ti("Name", [ref_, ("enum", "Operand::LiteralString", [("str", "t%s" % rid_[1])])]))
                b[2]["module"][2]["annotations"][1].append(_ti("Decorate", [ref_, ("enum", "Operand::Decoration", [("enum", "Decoration::Block", [])])]))
                b[2]["module"][2]["annotations"][1].append(_ti("MemberDecorate", [ref_, ("enum", "Operand::LiteralBit32", [0]), ("enum", "Operand::Decoration", [("enum", "Decoration::Offset", [])]),
                                                                                  ("enum", "Operand::LiteralBit32", [0])]))
        before = repr(b)
        h = BH(ctx)
        ev = progx.make(h, "Builder::dedup_insert_type")
        try:
            r = ev.run(g, {"self": b, ip: probe})
        except SPanic as x:
            r = "panics: %s" % x
        except Anchor as ex:
            r = "not analysable: %s" % ex
        pb = None if r == want else "yields %r, expected %r" % (r, want)
        if pb is None and repr(b) != before:
            pb = "changes the builder"
        out.append(("dedup_insert_type(%s)" % name, pb, ("dedup_insert_type", "Builder")))
    return out
