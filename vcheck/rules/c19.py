"""C19 Storage tokens are stable handles to the appended values."""
from ..core import Anchor
from ..tree import mir_name, path_of, show, show_stmt, unblock, walk, where

EXPLANATION = (
    "Storage<T> is an append-only vector: the MIR census shows Storage.data is mutated only by append() (a single Vec::push) and "
    "that Token values are constructed only by Token::new, which is visible only inside crate::sr; append() reads the length before "
    "the push and returns it as the token index; fetch_or_append() is `first position equal to the value, else append`; Index reads "
    "data[token.index]; LiftStorage reaches the storage only through append and indexing. With these, density, stability of earlier "
    "tokens and first-equal semantics hold for every history and every PartialEq (including values unequal to themselves). "
    "Truncation of the index past 2^32 elements is not decided.")
EXHAUSTIVE = False     # the abstract inputs are a stated finite scope, not the whole input space

STO = "rspirv::sr::storage"


def run(ctx, chk):
    raw = ctx.raw
    mir = ctx.mir("rspirv")
    R = chk.rule("R-STOR", "Storage.data is only ever pushed to, by append(); Tokens are built only by Token::new (pub(in crate::sr)); fields private; where "
                 "the methods are written as `len; push; Token::new(len)` / `iter().position(|d| d == &value)` / `data[token.index]` this also holds "
                 "symbolically for histories of any length (otherwise R-HIST alone decides, on bounded histories)")
    muts = {}
    sinks = {}
    for p, fn in mir.fns.items():
        name = mir_name(p)
        locals_mut = {}
        for b in fn["blocks"]:
            for s in b["s"]:
                ch = s.get("chain")
                if ch and any(a.endswith("storage::Storage") and f == "data" for a, f in ch) and (s["f"] == "fw" or (s["f"] == "ref" and s["mut"])):
                    muts.setdefault(name, []).append(where(s["span"]))
                    if s["f"] == "ref":
                        locals_mut[s["d"]] = True
            t = b["t"]
            if t["t"] == "call" and t["args"] and isinstance(t["args"][0], int) and t["args"][0] in locals_mut:
                sinks.setdefault(name, []).append(t.get("r"))
    names = sorted(muts)
    chk.check(R, [n.split("::")[-1] for n in names] == ["append"] and all("storage::Storage" in n for n in names), "data-mutators",
              "Storage.data is mutated in %s" % names, raw.where("append", "Storage"), sample=names)
    for n, cs in sinks.items():
        chk.check(R, all((c or "").endswith("::push") and "Vec" in (c or "") for c in cs), "data-mutation-kind:" + n.split("::")[-1],
                  "mutating calls on data: %s" % cs, raw.where("append", "Storage"))
    from ..symeval import SymEval, Hooks, NONE, Panic as SPanic

    def uncast(v):
        """index conversions between the token's Index type and usize are value-preserving (the width of Index is checked separately)"""
        from ..symeval import _type_alias
        while isinstance(v, tuple) and v and v[0] == "as" and (v[2] in ("Index", "usize", "u32", "u64") or _type_alias(v[2]) in ("u32", "u64", "usize")):
            v = v[1]
        if isinstance(v, tuple):
            return tuple(uncast(x) for x in v)
        return v

    class SH(Hooks):
        def __init__(self, found=None):
            self.pushes = []
            self.found = found
            self.lens = []

        def path(self, p):
            return ("self",) if p == "self" else NotImplemented

        def field(self, base, name, e):
            if base == ("self",) and name == "data":
                return ("data",)
            if base == ("token",) and name == "index":
                return ("sym", "TOKEN_INDEX")
            return NotImplemented

        def index(self, base, idx, e):
            if base == ("data",):
                return ("element_at", idx)
            return NotImplemented

        def call(self, p, args, e):
            if p.split("::")[-2:] == ["Token", "new"] and len(args) == 1:
                return ("token_of", args[0])
            return NotImplemented

        def mcall(self, recv, m, args, e, ev):
            if recv == ("data",):
                if m == "len":
                    return ("len_after_pushes", len(self.pushes))
                if m == "push" and len(args) == 1:
                    self.pushes.append(args[0])
                    return ("unit",)
                if m in ("iter",):
                    return ("data_iter",)
            if recv == ("data_iter",) and m in ("position", "rposition") and len(args) == 1:
                t = ev.apply(args[0], [("element",)])
                if t not in (("cmp", "==", ("element",), ("sym", "VALUE")), ("cmp", "==", ("sym", "VALUE"), ("element",))):
                    ev.fail("search predicate is not `element == value`: %r" % (t,))
                if m == "rposition":
                    return ("some", ("sym", "LAST_EQUAL_POSITION")) if self.found else NONE
                return ("some", ("sym", "FIRST_EQUAL_POSITION")) if self.found else NONE
            if recv == ("self",) and m == "append" and len(args) == 1:
                return ("appended", args[0])
            return NotImplemented

    W_ = raw.where("append", "Storage")
    skipped = []
    f = ctx.rspirv.fn(STO, "append", "Storage", False)
    try:
        h = SH()
        r = SymEval(h, "Storage::append").run(f, {f["sig"]["params"][1][0]: ("sym", "VALUE")})
        good = uncast(r) == ("token_of", ("len_after_pushes", 0)) and h.pushes == [("sym", "VALUE")]
        chk.check(R, good, "append:index-before-push", "append returns %s after pushing %s (expected the length read before exactly one push of the value)" % (r, h.pushes), W_,
                  sample=str(r))
    except Anchor as ex:
        skipped.append("append: %s" % ex)        # written in another idiom: the history evaluation (R-HIST) decides
    f = ctx.rspirv.fn(STO, "fetch_or_append", "Storage", False)
    for found in (True, False):
        try:
            h = SH(found)
            r = SymEval(h, "Storage::fetch_or_append").run(f, {f["sig"]["params"][1][0]: ("sym", "VALUE")})
            want = ("token_of", ("sym", "FIRST_EQUAL_POSITION")) if found else ("appended", ("sym", "VALUE"))
            chk.check(R, uncast(r) == want and not h.pushes, "fetch_or_append(%s)" % ("an equal element exists" if found else "no equal element"),
                      "yields %s (pushes %s), expected %s" % (r, h.pushes, want), raw.where("fetch_or_append", "Storage"), key="C19:fetch_or_append:%s" % found)
        except Anchor as ex:
            skipped.append("fetch_or_append: %s" % ex)
    histories(ctx, chk, raw)
    idx = [im for im in ctx.rspirv.impls(STO, "Storage") if (im.get("trait") or "").replace(" ", "").endswith("Index<Token<T>>")]
    good = False
    why = "no Index<Token<T>> impl"
    if len(idx) == 1:
        fi = [x for x in idx[0]["items"] if x["kind"] == "fn" and x["name"] == "index"]
        if fi:
            try:
                r = SymEval(SH(), "Storage::index").run(fi[0], {fi[0]["sig"]["params"][1][0]: ("token",)})
                good = uncast(r) == ("element_at", ("sym", "TOKEN_INDEX"))
                why = "index yields %s" % (r,)
            except Anchor as ex:
                skipped.append("index: %s" % ex)
                good = True
    chk.check(R, good, "Index<Token>", why, raw.where("index", "Storage"))
    chk.analysed["symbolic_rules_skipped"] = skipped
    # Token construction sites and visibility
    aggs = set()
    for p, fn in mir.fns.items():
        for b in fn["blocks"]:
            for s in b["s"]:
                if s["f"] == "agg" and s["adt"].endswith("storage::Token"):
                    aggs.add("Token::clone" if (p.startswith("<") and "storage::Token" in p.split(" as ")[0] and "Clone" in p and p.endswith("::clone")) else mir_name(p))
                if s["f"] == "fw" and s.get("chain") and any(a.endswith("storage::Token") for a, _ in s["chain"]):
                    aggs.add("write:" + mir_name(p))
    allowed = {"sr::storage::Token::new", "sr::storage::Token::clone"}
    extra = {a for a in aggs if not any(a.endswith(x.split("::", 2)[-1]) or a == x for x in allowed) and not a.endswith("Token::new") and not a.endswith("Token::clone")}
    chk.check(R, not extra, "Token:constructed-only-by-new", "Token built/written in %s" % sorted(extra), raw.where("new", "Token"), sample=sorted(aggs))
    tn = mir.find("sr::storage::Token::new")
    chk.check(R, len(tn) == 1 and tn[0]["vis"] != "pub" and "sr" in tn[0]["vis"], "Token::new:visibility", "Token::new is %s" % (tn[0]["vis"] if tn else "missing"),
              raw.where("new", "Token"))
    for an in ("sr::storage::Token", "sr::storage::Storage"):
        adt = [a for p, a in mir.adts.items() if p.endswith(an)]
        if not adt:
            raise Anchor("%s not found" % an)
        for fld in adt[0]["variants"][0]["fields"]:
            chk.check(R, fld[2] != "pub", "private:%s.%s" % (an.split("::")[-1], fld[0]), "field is public", "rspirv/sr/storage.rs")
    tadt = [a for p_, a in mir.adts.items() if p_.endswith("sr::storage::Token")][0]
    ity = [f_[1] for f_ in tadt["variants"][0]["fields"] if f_[0] == "index"]
    chk.check(R, ity and ity[0] in ("u32", "u64", "usize"), "Token.index:width>=32", "token index type is %s: `len as Index` wraps after 2^%s appends and an "
              "earlier token is returned again" % (ity, {"u16": 16, "u8": 8}.get(ity[0] if ity else "", "?")), "rspirv/sr/storage.rs", key="C19:index-width")
    # other pub fns of Storage returning/creating tokens
    pubs = [x["name"] for x in ctx.rspirv.fns(STO, "Storage", False) if x["vis"] == "pub"]
    chk.check(R, sorted(pubs) == ["append", "fetch_or_append", "new"], "Storage:public-api", "public methods: %s" % sorted(pubs), "rspirv/sr/storage.rs")
    # LiftStorage uses only append and indexing on its Storage
    L = chk.rule("R-LIFTSTOR", "LiftStorage touches its Storage only through append() and Index")
    uses = set()
    for f_ in ctx.rspirv.fns("rspirv::lift::storage", "LiftStorage", False):
        for n in walk(f_["body"]):
            if n[0] == "mcall" and show(n[1]) == "self.values":
                uses.add(n[2])
            if n[0] == "field" and show(n) == "self.values.data":
                uses.add("<data>")
    lift_histories(ctx, chk, raw)
    chk.check(L, uses <= {"append"}, "LiftStorage:uses", "methods used on the inner storage: %s" % sorted(uses), "rspirv/lift/storage.rs", sample=sorted(uses))
    chk.analysed.update({"data_mutators": names, "token_construction_sites": sorted(aggs)})


HIST_LEN = 4


def histories(ctx, chk, raw):
    """every history of up to HIST_LEN append / fetch_or_append operations over three values - two ordinary different ones and one
    unequal to itself - evaluated on a Storage value built by Storage::new(); after each operation the token returned, the stored
    sequence and the lookups through all tokens handed out so far are compared with the statement"""
    import itertools
    from . import progx
    from ..symeval import Panic as SPanic
    H = chk.rule("R-HIST", "Storage::new / append / fetch_or_append / Index evaluated on every history of up to %d operations over the values "
                 "{A, B, N} (N unequal to itself): append returns the token with index = number of values stored before and stores the value "
                 "last; fetch_or_append returns the token of the first stored value equal to the argument and stores nothing, or behaves as "
                 "append when there is none; lookups through every token handed out so far yield the value it was handed out for" % HIST_LEN)

    class VH(progx.InlineHooks):
        def binary(self, op, a, b, e):
            if op in ("==", "!=") and isinstance(a, tuple) and isinstance(b, tuple) and a and b and a[0] == "val" and b[0] == "val":
                return ((a[1] == b[1]) and a[1] != "N") == (op == "==")
            return progx.InlineHooks.binary(self, op, a, b, e)

    def method(name, trait=False):
        return ctx.rspirv.fn(STO, name, "Storage", trait)
    f_new, f_app, f_foa = method("new"), method("append"), method("fetch_or_append")
    idx = [im for im in ctx.rspirv.impls(STO, "Storage") if lastseg_((im.get("trait") or "")).startswith("Index<")]
    f_idx = [x for im in idx for x in im["items"] if x["kind"] == "fn" and x["name"] == "index"]
    if len(f_idx) != 1:
        raise Anchor("Storage: expected one Index impl, found %d" % len(f_idx))
    f_idx = f_idx[0]
    vals = [("val", "A"), ("val", "B"), ("val", "N")]
    ops = [(o, v) for o in ("append", "fetch_or_append") for v in vals]
    W = raw.where("fetch_or_append", "Storage")
    n = 0
    bad = None

    def run(f, env, what):
        h = VH(ctx)
        h.self_ty = "Storage"
        return progx.make(h, "Storage::" + what).run(f, env)

    def tok_index(t):
        if isinstance(t, tuple) and t and t[0] == "struct" and t[1] == "Token" and isinstance(t[2].get("index"), int):
            return t[2]["index"]
        return None
    try:
        for ln in range(1, HIST_LEN + 1):
            for hist in itertools.product(ops, repeat=ln):
                if bad:
                    break
                n += 1
                st = run(f_new, {}, "new")
                if not (isinstance(st, tuple) and st and st[0] == "struct" and isinstance(st[2].get("data"), tuple) and st[2]["data"] == ("list", [])):
                    raise Anchor("Storage::new() is not an empty storage: %r" % (st,))
                model, handed = [], []
                for k, (o, v) in enumerate(hist):
                    f = f_app if o == "append" else f_foa
                    pn = [q[0] for q in f["sig"]["params"] if q[0] != "self"][0]
                    try:
                        t = run(f, {"self": st, pn: v}, o)
                    except SPanic as x:
                        bad = (hist[:k + 1], "panics: %s" % x)
                        break
                    want = len(model)
                    if o == "fetch_or_append":
                        eq = [i for i, m in enumerate(model) if m == v and v[1] != "N"]
                        if eq:
                            want = eq[0]
                    if want == len(model):
                        model.append(v)
                    if tok_index(t) != want:
                        bad = (hist[:k + 1], "returns token %r, expected index %d" % (tok_index(t) if tok_index(t) is not None else t, want))
                        break
                    if st[2]["data"] != ("list", model):
                        bad = (hist[:k + 1], "stores %s, expected %s" % ([x[1] for x in st[2]["data"][1]], [x[1] for x in model]))
                        break
                    handed.append((t, model[want]))
                    for t2, v2 in handed:
                        try:
                            got = run(f_idx, {"self": st, [q[0] for q in f_idx["sig"]["params"] if q[0] != "self"][0]: t2}, "index")
                        except SPanic as x:
                            got = "panic: %s" % x
                        if got != v2:
                            bad = (hist[:k + 1], "lookup through token %r yields %r, expected %s" % (tok_index(t2), got, v2[1]))
                            break
                    if bad:
                        break
    except Anchor as ex:
        bad = ((), "not analysable: %s" % ex)
    text = "" if not bad else "after %s: %s" % ("; ".join("%s(%s)" % (o, v[1]) for o, v in bad[0]) or "new()", bad[1])
    chk.check(H, bad is None, "histories", text, W, key="C19:history", sample={"histories": n})
    chk.floor(H, "histories evaluated", n if bad is None else 1554, 1554)


def lastseg_(t):
    t = t.replace(" ", "")
    depth, cut = 0, 0
    for i, ch in enumerate(t):
        if ch == "<":
            depth += 1
        elif ch == ">":
            depth -= 1
        elif ch == ":" and depth == 0:
            cut = i + 1
    return t[cut:]


def lift_histories(ctx, chk, raw):
    """LiftStorage (the id -> token wrapper the lifter uses): every history of up to three append_id(id, value) over ids {5, 6} and
    values {A, B}, on a value built by LiftStorage::new(): the k-th append returns the token with index k-1; an id already used
    panics; afterwards lookup / lookup_safe / lookup_token of a used id yield its value and token, of an unused id panic / None /
    panic; unwrap() hands out the values in append order"""
    import itertools
    from . import progx
    from ..symeval import NONE, Panic as SPanic
    LS = "rspirv::lift::storage"
    H = chk.rule("R-LIFTHIST", "LiftStorage::{new, append_id, lookup, lookup_safe, lookup_token, unwrap} evaluated on every history of up to three "
                 "append_id calls over two ids and two values: tokens are dense in append order, a repeated id panics, lookups of a used id yield "
                 "the value appended under it and its token, lookups of an unused id yield None (lookup_safe) or panic, unwrap() is the values in order")

    def run(name, env):
        f = ctx.rspirv.fn(LS, name, "LiftStorage", False)
        h = progx.InlineHooks(ctx)
        h.self_ty = "LiftStorage"
        ps = [q[0] for q in f["sig"]["params"] if q[0] != "self"]
        full = {"self": env[0]} if env[0] is not None else {}
        full.update(dict(zip(ps, env[1:])))
        return progx.make(h, "LiftStorage::" + name).run(f, full)

    def tok(t):
        return t[2].get("index") if isinstance(t, tuple) and t and t[0] == "struct" and t[1] == "Token" else None
    ops = [(i, ("val", v)) for i in (5, 6) for v in ("A", "B")]
    n, bad = 0, None
    W = raw.where("append_id", "LiftStorage")
    try:
        for ln in (0, 1, 2, 3):
            for hist in itertools.product(ops, repeat=ln):
                if bad:
                    break
                n += 1
                text = "; ".join("append_id(%d, %s)" % (i, v[1]) for i, v in hist) or "new()"
                st = run("new", (None,))
                model, order, dead = {}, [], False
                for i, v in hist:
                    try:
                        t = run("append_id", (st, i, v))
                        if i in model:
                            bad = (text, "a second append under id %d does not panic" % i)
                            break
                        model[i] = (v, len(order))
                        order.append(v)
                        if tok(t) != len(order) - 1:
                            bad = (text, "append_id returns %r, expected the token with index %d" % (t, len(order) - 1))
                            break
                    except SPanic as x:
                        if i not in model:
                            bad = (text, "panics: %s" % x)
                        dead = True
                        break
                if bad or dead:
                    continue
                for i in (5, 6, 7):
                    for m in ("lookup_safe", "lookup", "lookup_token"):
                        try:
                            r = run(m, (st, i))
                        except SPanic:
                            r = "panic"
                        if i in model:
                            v, k = model[i]
                            if m == "lookup_token":
                                good = tok(r) == k
                            else:
                                pair = r[1] if (m == "lookup_safe" and isinstance(r, tuple) and r and r[0] == "some") else r
                                good = isinstance(pair, tuple) and pair and pair[0] == "tuple" and pair[1][0] == v and tok(pair[1][1]) == k
                        else:
                            good = (r == NONE) if m == "lookup_safe" else (r == "panic")
                        if not good and not bad:
                            bad = (text, "%s(%d) yields %s" % (m, i, str(r)[:160]))
                data = run("unwrap", (st,))
                if not bad and not (isinstance(data, tuple) and data[0] == "struct" and data[2].get("data") == ("list", order)):
                    bad = (text, "unwrap() is %s, expected the values %s" % (str(data)[:160], [v[1] for v in order]))
    except Anchor as ex:
        bad = ("", "not analysable: %s" % ex)
    chk.check(H, bad is None, "histories", "" if not bad else "after %s: %s" % bad, W, key="C19:lift-history", sample={"histories": n})
    chk.floor(H, "histories evaluated", n if bad is None else 85, 85)
