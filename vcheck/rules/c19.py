"""C19 Storage tokens are stable handles to the appended values."""
from ..core import Anchor
from ..tree import mir_name, path_of, show, show_stmt, unblock, walk, where

EXPLANATION = (
    "Storage<T> is an append-only vector: the MIR census shows Storage.data is mutated only by append() (a single Vec::push) and "
    "that Token values are constructed only by Token::new, which is visible only inside crate::sr; append() reads the length before "
    "the push and returns it as the token index; fetch_or_append() is `first position equal to the value, else append`; Index reads "
    "data[token.index]; LiftStorage reaches the storage only through append and indexing. With these, density, stability of earlier "
    "tokens and first-equal semantics hold for every history and every PartialEq (including values unequal to themselves). "
    "Truncation of the index past 2^32 elements is not decided.")
EXHAUSTIVE = True

STO = "rspirv::sr::storage"


def run(ctx, chk):
    raw = ctx.raw
    mir = ctx.mir("rspirv")
    R = chk.rule("R-STOR", "Storage.data is only ever pushed to, by append(); append returns Token(len before the push); fetch_or_append "
                 "returns the token of the first element equal to the value (Iterator::position with `d == &value`), else appends; "
                 "Index<Token> reads data[token.index]; Tokens are built only by Token::new (pub(in crate::sr)); fields private")
    muts = {}
    sinks = {}
    for p, fn in mir.fns.items():
        name = mir_name(p)
        locals_mut = {}
        for b in fn["blocks"]:
            for s in b["s"]:
                ch = s.get("chain")
                if ch and any(a.endswith("storage::Storage") and f == "data" for a, f in ch) and (s["f"] == "fw" or (s["f"] == "ref" and s["mut"])):
                    muts.setdefault(name, []).append(where(s["span"]))
                    if s["f"] == "ref":
                        locals_mut[s["d"]] = True
            t = b["t"]
            if t["t"] == "call" and t["args"] and isinstance(t["args"][0], int) and t["args"][0] in locals_mut:
                sinks.setdefault(name, []).append(t.get("r"))
    names = sorted(muts)
    chk.check(R, [n.split("::")[-1] for n in names] == ["append"] and all("storage::Storage" in n for n in names), "data-mutators",
              "Storage.data is mutated in %s" % names, raw.where("append", "Storage"), sample=names)
    for n, cs in sinks.items():
        chk.check(R, all((c or "").endswith("::push") and "Vec" in (c or "") for c in cs), "data-mutation-kind:" + n.split("::")[-1],
                  "mutating calls on data: %s" % cs, raw.where("append", "Storage"))
    f = ctx.rspirv.fn(STO, "append", "Storage", False)
    st = [show_stmt(s) for s in f["body"][1]]
    v = f["sig"]["params"][1][0]
    good = len(st) == 3 and st[0].startswith("let ") and st[0].endswith(" = (self.data.len() as Index);") and st[1] == "self.data.push(%s);" % v \
        and st[2] == "Token::new(%s)" % st[0][4:].split(" ")[0]
    chk.check(R, good, "append:index-before-push", "append is %s" % st, raw.where("append", "Storage"), sample=st)
    f = ctx.rspirv.fn(STO, "fetch_or_append", "Storage", False)
    v = f["sig"]["params"][1][0]
    e = unblock(f["body"][1][0][1]) if len(f["body"][1]) == 1 else None
    good = False
    why = show(f["body"])[:200]
    if e is not None and e[0] == "if" and e[1][0] == "let" and e[3] is not None:
        src = show(e[1][2])
        pat = show(e[1][1])
        thn = [show_stmt(s) for s in e[2][1]]
        els = [show_stmt(s) for s in unblock(e[3])[1]] if unblock(e[3])[0] == "block" else [show(unblock(e[3]))]
        good = src == "self.data.iter().position(|d| (d == &%s))" % v and pat.startswith("Some(") and \
            thn == ["Token::new((%s as Index))" % pat[5:-1]] and els == ["self.append(%s)" % v]
    chk.check(R, good, "fetch_or_append:first-equal-else-append", "fetch_or_append is %s" % why, raw.where("fetch_or_append", "Storage"))
    idx = [im for im in ctx.rspirv.impls(STO, "Storage") if (im.get("trait") or "").replace(" ", "").endswith("Index<Token<T>>")]
    good = False
    if len(idx) == 1:
        fi = [x for x in idx[0]["items"] if x["kind"] == "fn" and x["name"] == "index"]
        if fi:
            tok = fi[0]["sig"]["params"][1][0]
            good = [show_stmt(s) for s in fi[0]["body"][1]] == ["&self.data[(%s.index as usize)]" % tok]
    chk.check(R, good, "Index<Token>", "Index impl is not &self.data[token.index as usize]", raw.where("index", "Storage"))
    # Token construction sites and visibility
    aggs = set()
    for p, fn in mir.fns.items():
        for b in fn["blocks"]:
            for s in b["s"]:
                if s["f"] == "agg" and s["adt"].endswith("storage::Token"):
                    aggs.add(mir_name(p))
                if s["f"] == "fw" and s.get("chain") and any(a.endswith("storage::Token") for a, _ in s["chain"]):
                    aggs.add("write:" + mir_name(p))
    allowed = {"sr::storage::Token::new", "sr::storage::Token::clone"}
    extra = {a for a in aggs if not any(a.endswith(x.split("::", 2)[-1]) or a == x for x in allowed) and not a.endswith("Token::new") and not a.endswith("Token::clone")}
    chk.check(R, not extra, "Token:constructed-only-by-new", "Token built/written in %s" % sorted(extra), raw.where("new", "Token"), sample=sorted(aggs))
    tn = mir.find("sr::storage::Token::new")
    chk.check(R, len(tn) == 1 and tn[0]["vis"] != "pub" and "sr" in tn[0]["vis"], "Token::new:visibility", "Token::new is %s" % (tn[0]["vis"] if tn else "missing"),
              raw.where("new", "Token"))
    for an in ("sr::storage::Token", "sr::storage::Storage"):
        adt = [a for p, a in mir.adts.items() if p.endswith(an)]
        if not adt:
            raise Anchor("%s not found" % an)
        for fld in adt[0]["variants"][0]["fields"]:
            chk.check(R, fld[2] != "pub", "private:%s.%s" % (an.split("::")[-1], fld[0]), "field is public", "rspirv/sr/storage.rs")
    tadt = [a for p_, a in mir.adts.items() if p_.endswith("sr::storage::Token")][0]
    ity = [f_[1] for f_ in tadt["variants"][0]["fields"] if f_[0] == "index"]
    chk.check(R, ity and ity[0] in ("u32", "u64", "usize"), "Token.index:width>=32", "token index type is %s: `len as Index` wraps after 2^%s appends and an "
              "earlier token is returned again" % (ity, {"u16": 16, "u8": 8}.get(ity[0] if ity else "", "?")), "rspirv/sr/storage.rs", key="C19:index-width")
    # other pub fns of Storage returning/creating tokens
    pubs = [x["name"] for x in ctx.rspirv.fns(STO, "Storage", False) if x["vis"] == "pub"]
    chk.check(R, sorted(pubs) == ["append", "fetch_or_append", "new"], "Storage:public-api", "public methods: %s" % sorted(pubs), "rspirv/sr/storage.rs")
    # LiftStorage uses only append and indexing on its Storage
    L = chk.rule("R-LIFTSTOR", "LiftStorage touches its Storage only through append() and Index")
    uses = set()
    for f_ in ctx.rspirv.fns("rspirv::lift::storage", "LiftStorage", False):
        for n in walk(f_["body"]):
            if n[0] == "mcall" and show(n[1]) == "self.values":
                uses.add(n[2])
            if n[0] == "field" and show(n) == "self.values.data":
                uses.add("<data>")
    chk.check(L, uses <= {"append"}, "LiftStorage:uses", "methods used on the inner storage: %s" % sorted(uses), "rspirv/lift/storage.rs", sample=sorted(uses))
    chk.analysed.update({"data_mutators": names, "token_construction_sites": sorted(aggs)})
