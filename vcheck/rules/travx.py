"""Evaluation of the traversals of dr::Module / dr::Function and of the container assembly on an abstract module (C15)."""
from ..core import Anchor
from ..symeval import NONE, UNIT, Panic as SPanic
from . import progx, walkx

CON = "rspirv::dr::constructs"
ASM = "rspirv::binary::assemble"


def module(ctx):
    """the three functions of walkx.module (complete; no definition but parameters, an unlabelled and an empty block; definition only)
    and one without definition and parameters whose first block has no label and whose last is empty"""
    import copy
    from . import evalsum
    m = walkx.module(ctx, True)
    t = copy.deepcopy(evalsum._templates(ctx))
    f2, b1, b2 = t["Function"], t["Block"], copy.deepcopy(t["Block"])
    b1[2]["label"] = NONE
    b1[2]["instructions"] = ("list", [walkx.inst("F2_B1_I1"), walkx.inst("F2_B1_I2")])
    b2[2]["label"] = ("some", walkx.inst("F2_B2_LABEL", "Label"))
    b2[2]["instructions"] = ("list", [])
    f2[2]["def"] = NONE
    f2[2]["parameters"] = ("list", [])
    f2[2]["blocks"] = ("list", [b1, b2])
    f2[2]["end"] = ("some", walkx.inst("F2_END", "FunctionEnd"))
    m[2]["functions"] = ("list", list(m[2]["functions"][1]) + [f2])
    return walkx.grow(ctx, m)


SECTION_ORDER = ["capabilities", "extensions", "ext_inst_imports", "memory_model", "entry_points", "execution_modes", "debug_string_source",
                 "debug_names", "debug_module_processed", "annotations", "types_global_values"]


def name_of(x):
    return x[2].get("name") if isinstance(x, tuple) and x and x[0] == "struct" else repr(x)


def ref_function(fn):
    out = []
    fl = fn[2]
    if fl["def"] != NONE:
        out.append(name_of(fl["def"][1]))
    out += [name_of(x) for x in fl["parameters"][1]]
    for b in fl["blocks"][1]:
        if b[2]["label"] != NONE:
            out.append(name_of(b[2]["label"][1]))
        out += [name_of(x) for x in b[2]["instructions"][1]]
    if fl["end"] != NONE:
        out.append(name_of(fl["end"][1]))
    return out


def ref_globals(m):
    out = []
    for s in SECTION_ORDER:
        v = m[2][s]
        if v == NONE:
            continue
        out += [name_of(v[1])] if v[0] == "some" else [name_of(x) for x in v[1]]
    return out


class TH(progx.InlineHooks):
    def mcall(self, recv, m, args, e, ev):
        if isinstance(recv, tuple) and recv and recv[0] == "struct" and m == "assemble_into" and len(args) == 1 and recv[1] in ("Instruction", "ModuleHeader"):
            a = args[0]
            if isinstance(a, tuple) and a[0] == "list" and isinstance(a[1], list):
                a[1].append("header" if recv[1] == "ModuleHeader" else name_of(recv))
                return UNIT
        return progx.InlineHooks.mcall(self, recv, m, args, e, ev)


def traverse(ctx, ty, method, selfv):
    f = ctx.rspirv.fn(CON, method, ty, False)
    h = TH(ctx)
    ev = progx.make(h, "%s::%s" % (ty, method))
    h.self_ty = ty
    try:
        r = ev.run(f, {"self": selfv})
    except SPanic as x:
        return "panics: %s" % x
    if isinstance(r, tuple) and r and r[0] == "lazy":
        r = ("list", [ev.apply(r[2], [x]) for x in r[1]])
    if not (isinstance(r, tuple) and r and r[0] == "list"):
        raise Anchor("%s::%s yields %r" % (ty, method, r))
    return [name_of(x) for x in r[1]]


def assemble(ctx, ty, selfv):
    f = ctx.rspirv.fn(ASM, "assemble_into", ty, "Assemble")
    h = TH(ctx)
    ev = progx.make(h, "%s::assemble_into" % ty)
    h.self_ty = ty
    res = [q[0] for q in f["sig"]["params"] if q[0] != "self"][0]
    out = ("list", [])
    try:
        ev.run(f, {"self": selfv, res: out})
    except SPanic as x:
        return "panics: %s" % x
    return list(out[1])


def cases(ctx):
    """[(instance, where-args, got, want)]"""
    def build():
        m = module(ctx)
        fns = m[2]["functions"][1]
        g = ref_globals(m)
        allseq = g + [n for f_ in fns for n in ref_function(f_)]
        out = []

        def add(inst, wh, fn, want):
            try:
                got = fn()
            except Anchor as ex:
                got = "not analysable: %s" % ex
            out.append((inst, wh, got, want))
        for meth, want in (("global_inst_iter", g), ("global_inst_iter_mut", g), ("all_inst_iter", allseq), ("all_inst_iter_mut", allseq)):
            add("Module::%s" % meth, (meth, "Module", "constructs.rs"), (lambda meth=meth: traverse(ctx, "Module", meth, m)), want)
        for i, f_ in enumerate(fns):
            for meth in ("all_inst_iter", "all_inst_iter_mut"):
                add("Function::%s (function %d)" % (meth, i + 1), (meth, "Function", "constructs.rs"), (lambda meth=meth, f_=f_: traverse(ctx, "Function", meth, f_)), ref_function(f_))
            add("Function::assemble_into (function %d)" % (i + 1), ("assemble_into", "Function", "assemble.rs"), (lambda f_=f_: assemble(ctx, "Function", f_)), ref_function(f_))
            for j, b in enumerate(f_[2]["blocks"][1]):
                wantb = ([name_of(b[2]["label"][1])] if b[2]["label"] != NONE else []) + [name_of(x) for x in b[2]["instructions"][1]]
                add("Block::assemble_into (function %d, block %d)" % (i + 1, j + 1), ("assemble_into", "Block", "assemble.rs"), (lambda b=b: assemble(ctx, "Block", b)), wantb)
        add("Module::assemble_into", ("assemble_into", "Module", "assemble.rs"), (lambda: assemble(ctx, "Module", m)), ["header"] + allseq)
        m2 = module(ctx)
        m2[2]["header"] = NONE
        m2[2]["memory_model"] = NONE
        add("Module::assemble_into (no header, no memory model)", ("assemble_into", "Module", "assemble.rs"), (lambda: assemble(ctx, "Module", m2)),
            ref_globals(m2) + [n for f_ in m2[2]["functions"][1] for n in ref_function(f_)])
        add("Module::all_inst_iter (no header, no memory model)", ("all_inst_iter", "Module", "constructs.rs"), (lambda: traverse(ctx, "Module", "all_inst_iter", m2)),
            ref_globals(m2) + [n for f_ in m2[2]["functions"][1] for n in ref_function(f_)])
        return out
    return ctx.memo("travx_cases", build)
