"""C02 Assemble and parse are exact inverses on grammar-conforming instructions."""
from ..core import Anchor
from ..model import spirv_enums, spirv_masks
from ..tree import int_of, is_node, path_of, show, show_stmt, strip_refs, unblock, walk
from .. import snapshot
from . import codec, parserx

EXPLANATION = (
    "Agreement of three tables extracted from the current source for all 70 operand kinds, 64 Operand variants and every typed "
    "decoder method: what the parser decodes per kind (R-CODEC-1), how each decoder method turns words into a value (R-CODEC-2), "
    "how the assembler encodes each variant (R-CODEC-3), and that for every (kind, variant, method) triple the encoding is the "
    "inverse of the decoding with matching payload types (R-CODEC-4); per-enumerant/per-bit parameter lists against the snapshot "
    "(R-CODEC-5); instruction framing (R-FRAME); string and 64-bit word layouts (R-WORDS). Decides the codec pairing, not the value "
    "equality parse(assemble(x)) == x itself.")
EXHAUSTIVE = False     # the kind / variant / method tables are enumerated in full; frames and strings are evaluated on a stated finite scope

CON = "rspirv::dr::constructs"
SPECIAL = {"IdResultType", "IdResult", "LiteralContextDependentNumber", "LiteralSpecConstantOpInteger", "PairLiteralIntegerIdRef"}


def section_parse_params(ctx):
    out = {}
    for fn, d in codec.parse_arguments(ctx).items():
        out[d["param_ty"]] = {"style": d["style"], "entries": {n: [list(x) for x in ops] for n, ops in d["entries"]},
                              "order": [n for n, _ in d["entries"]]}
    return out


def section_parse_kinds(ctx):
    out = {}
    for k, v in codec.parse_operand_table(ctx).items():
        out[k] = "panic" if v.get("panic") else {"ops": [list(x) for x in v["ops"]], "args": v["args"]}
    return out


snapshot.register("parse_params", section_parse_params)
snapshot.register("parse_kinds", section_parse_kinds)


def operand_variants(ctx):
    e = ctx.rspirv.item(CON, "enum", "Operand")
    return {v["name"]: (v["fields"][0][1] if len(v["fields"]) == 1 else None) for v in e["variants"]}


def norm_ty(t):
    t = t.replace(" ", "")
    if t.startswith("Result<") and t.endswith(">"):
        t = t[7:-1]
    t = t.split("::")[-1]
    return {"Word": "u32"}.get(t, t)


def run(ctx, chk):
    raw = ctx.raw
    enums, masks = spirv_enums(ctx), spirv_masks(ctx)
    pt = codec.parse_operand_table(ctx)
    dm = codec.decoder_methods(ctx)
    at = codec.assemble_table(ctx)
    pa = codec.parse_arguments(ctx)
    ov = operand_variants(ctx)
    from . import quantx
    try:
        sc = {"filtered": quantx.spec_excluded(ctx, ["IdResultType", "IdResult", "LiteralContextDependentNumber", "LiteralSpecConstantOpInteger", "PairLiteralIntegerIdRef"])}
    except Anchor as ex:
        sc = {"filtered": set()}
    try:
        spx = quantx.special(ctx)
        inter = {k for k, v in spx.items() if not any(c == ("operand", k) for c in v["consumed"]) and not (isinstance(v["result"], tuple) and v["result"][0] == "panic")}
    except Anchor as ex:
        spx, inter = {}, set()
        chk.rule("R-CODEC-1", "")
        chk.bad("R-CODEC-1", "parse_operands", "parse_operands is not analysable: %s" % ex, raw.where("parse_operands", "Parser"), key="C02:parse_operands-shape")
    from ..model import grammar_tables
    kinds = grammar_tables(ctx)["kinds"]
    WP = "rspirv/binary/autogen_parse_operand.rs"
    chk.trusted += ["bitflags: from_bits is the inverse of bits() on declared bits", "C08: from_u32 is the inverse of `as u32`",
                    "u32::from_le_bytes / str::from_utf8 (std)"]

    R1 = chk.rule("R-CODEC-1", "parse_operand has one arm per operand kind; each arm decodes a fixed list of (Operand variant, decoder "
                  "method); exactly the five special kinds panic, and exactly those are intercepted by parse_operands / filtered by "
                  "parse_spec_constant_op before the generic parser is reached")
    for k in kinds:
        if k not in pt:
            chk.bad(R1, "kind:" + k, "operand kind %s has no arm in parse_operand" % k, WP)
            continue
        e = pt[k]
        if k in SPECIAL:
            chk.check(R1, e.get("panic"), "kind:" + k, "special kind %s is handled by the generic operand parser" % k, WP)
        else:
            chk.check(R1, not e.get("panic"), "kind:" + k, "kind %s panics in parse_operand" % k, WP, sample=e if not e.get("panic") else None)
    panicking = {k for k, v in pt.items() if v.get("panic")}
    chk.check(R1, panicking - {"IdResultType", "IdResult"} <= inter and {"IdResultType", "IdResult"} <= inter, "intercepted⊇panicking",
              "parse_operands intercepts %s but parse_operand panics for %s" % (sorted(inter), sorted(panicking)),
              raw.where("parse_operands", "Parser"))
    chk.check(R1, {"IdResultType", "IdResult"} <= sc["filtered"], "spec-constant-op-filter",
              "parse_spec_constant_op filters %s before the generic parser" % sorted(sc["filtered"]), raw.where("parse_spec_constant_op", "Parser"))
    chk.floor(R1, "operand kinds", len(kinds), 70)

    from . import c08
    c08.rule_enum1(ctx, chk)   # enum<->`as u32` inverse-ness is part of this property's codec pairing

    R2 = chk.rule("R-CODEC-2", "every typed decoder method has the audited shape: read one word, convert with <T>::from_u32 / "
                  "<T>::from_bits (never truncate/retain), error <T>Unknown(offset - 4, word), StreamExpected(offset) otherwise; "
                  "id/bit32/ext_inst_integer are word(); bit64 is two word() calls, first read in the low half")
    nt = 0
    for m, d in sorted(dm.items()):
        w = raw.where(m, "Decoder")
        rty = norm_ty(d["ret"])
        if rty in enums or rty in masks:
            nt += 1
            exp = "from_u32" if rty in enums else "from_bits"
            chk.check(R2, d["cls"] in ("enum", "mask") and d["ty"] == rty and d["via"] == exp and not d["problems"], "Decoder::" + m,
                      "returns %s, decodes via %s::%s; %s" % (rty, d["ty"], d["via"], "; ".join(d["problems"]) or d["cls"]), w,
                      sample={"ty": rty, "via": d["via"], "err": d["err"]})
    from . import stringx
    for m in ("id", "bit32", "ext_inst_integer", "bit64"):
        pb = stringx.hand_problem(ctx, m) if m in dm else "Decoder::%s not found" % m
        chk.check(R2, pb is None, "Decoder::" + m, "%s is not %s: %s" % (m, "(second word << 32) | first word" if m == "bit64" else "one word()", pb),
                  raw.where(m, "Decoder") if m in dm else None)
    chk.floor(R2, "typed decoder methods", nt, 56)

    R3 = chk.rule("R-CODEC-3", "Assemble for Operand has one arm per Operand variant (no wildcard), each in one of the encodings "
                  "`v as u32`, `v.bits()`, push(v), [v as u32, (v >> 32) as u32], assemble_str(v)")
    WA = raw.where("assemble_into", "Operand", "assemble.rs")
    for v in ov:
        if v not in at:
            chk.bad(R3, "variant:" + v, "Operand::%s has no arm in the assembler%s" % (v, " (wildcard: %s)" % at["_"][1] if "_" in at else ""), WA)
        else:
            chk.check(R3, at[v][0] != "bad", "variant:" + v, "unrecognised encoding %s" % at[v][1], WA, sample=at[v][0])
    chk.check(R3, "_" not in at, "no-wildcard", "the assembler has a wildcard arm", WA)
    chk.floor(R3, "Operand variants", len(ov), 64)

    R4 = chk.rule("R-CODEC-4", "for every (kind, variant, decoder method) the parser uses: the variant's payload type is the method's "
                  "return type and the assembler's encoding of the variant is the inverse of the method's decoding "
                  "(enum<->`as u32`, mask<->bits(), word<->push, word2<->[low, high], string<->assemble_str)")
    INV = {"enum": "enum", "mask": "mask", "word": "word", "word2": "word2", "string": "string"}
    triples = []
    for k, e in pt.items():
        if not e.get("panic"):
            for v, m in e["ops"]:
                triples.append((k, v, m, WP))
    for fn, d in pa.items():
        for name, ops in d["entries"]:
            for v, m in ops:
                triples.append(("%s::%s" % (d["param_ty"], name), v, m, WP))
    # hand-written special kinds: context dependent literals (parse_literal) and the switch pair
    from . import c10
    try:
        for v, m in sorted(c10.literal_results(ctx)):
            triples.append(("LiteralContextDependentNumber", v, m, raw.where("parse_literal", "Parser")))
    except Anchor as ex:
        chk.bad(R4, "parse_literal", "context dependent literals are not decoded as Operand::V(self.decoder.m()?) - the decoded word "
                "is transformed or the width dispatch is not analysable: %s" % ex, raw.where("parse_literal", "Parser"), key="C02:parse_literal")
    triples += [("IdResultType", None, "id", None), ("IdResult", None, "id", None)]
    seen_v = set()
    for k, v, m, w in triples:
        if v is None:
            continue
        inst = "%s:%s<-%s" % (k, v, m)
        if v not in ov or m not in dm:
            chk.bad(R4, inst, "unknown variant or decoder method", w)
            continue
        seen_v.add(v)
        pty = norm_ty(ov[v] or "?")
        rty = norm_ty(dm[m]["ret"])
        cls_m = dm[m]["cls"]
        cls_v = at.get(v, ("missing",))[0]
        good = pty == rty and INV.get(cls_m) == cls_v
        chk.check(R4, good, inst, "payload type %s vs decoder return %s; decoder class %s vs assembler class %s" % (pty, rty, cls_m, cls_v), w)
    # every argument function referenced exists and is for the right type
    for k, e in pt.items():
        if not e.get("panic") and e.get("args"):
            d = pa.get(e["args"])
            chk.check(R4, d is not None and d["param_ty"] == k, "args:" + k, "parameter function %s missing or for another type" % e["args"], WP)

    R5 = chk.rule("R-CODEC-5", "parse_operand arms and the per-enumerant / per-bit parameter lists equal the pinned grammar snapshot; "
                  "mask parameters are consumed in ascending bit order; every named flag/enumerant exists")
    snap = snapshot.load()
    snapshot.compare(chk, R5, "parse_kinds", snap.get("parse_kinds"), section_parse_kinds(ctx), WP)
    snapshot.compare(chk, R5, "parse_params", snap.get("parse_params"), section_parse_params(ctx), WP)
    for fn, d in pa.items():
        ty = d["param_ty"]
        if d["style"] == "mask":
            vals = [masks.get(ty, {"consts": {}})["consts"].get(n) for n, _ in d["entries"]]
            chk.check(R5, None not in vals and vals == sorted(vals) and len(set(vals)) == len(vals), fn + ":ascending-bits",
                      "flags tested in the order %s (values %s), not ascending bit order" % ([n for n, _ in d["entries"]], vals), WP)
        else:
            names = {n for n, _, _ in enums.get(ty, {"variants": []})["variants"]}
            bad = [n for n, _ in d["entries"] if n not in names]
            chk.check(R5, not bad, fn + ":enumerants-exist", "unknown enumerants %s" % bad, WP)

    RF = chk.rule("R-FRAME", "Instruction::assemble_into emits opcode, result type if any, result id if any, every operand in order, "
                  "then ORs (words emitted << 16) into the first word")
    from . import asmx
    WF = raw.where("assemble_into", "Instruction", "assemble.rs")
    for rtype in (True, False):
        for rid in (True, False):
            for opw in ([], [1], [1, 2, 3], [2] * 20):
                inst = "Instruction::assemble_into(result type %s, result id %s, operand words %s)" % (rtype, rid, opw if len(opw) < 5 else "20x2")
                try:
                    words = asmx.frame(ctx, rtype, rid, opw)
                except Anchor as ex:
                    # the frame inspects its operands (they are opaque here): the frames on concrete operands below decide
                    chk.analysed.setdefault("symbolic_frames_skipped", []).append(str(ex)[:120])
                    continue
                n = 1 + int(rtype) + int(rid) + sum(opw)
                body = ([("sym", "RTYPE")] if rtype else []) + ([("sym", "RID")] if rid else []) + [("operand-word", i, j) for i, k in enumerate(opw) for j in range(k)]
                first = asmx.norm_first(words[2]) if len(words) > 2 else None
                cnt = None
                if isinstance(first, tuple) and first[0] == "or" and first[1] == ("as", ("opcode",), "u32"):
                    w = first[2]
                    if isinstance(w, tuple) and w[0] == "w32" and all(isinstance(x, int) for x in w[1]):
                        cnt = sum(x << (8 * i) for i, x in enumerate(w[1]))
                    elif isinstance(w, int):
                        cnt = w
                good = words[:2] == [("pre", 0), ("pre", 1)] and cnt == (n << 16) and words[3:] == body
                chk.check(RF, good, inst, "emits %s; expected first word opcode | (%d << 16) followed by result type, result id and the operand words in order" % (
                    str(words[2:6])[:200], n), WF, key="C02:frame")
    # the same on real instruction values with concrete operands of different kinds (the word count must cover what each operand really emits)
    def ref_words(o):
        k, pl = o[1].split("::")[-1], o[2][0]
        if k == "LiteralBit64":
            return [pl & 0xffffffff, pl >> 32]
        if k == "LiteralString":
            raw_ = pl[1].encode("utf-8") + b"\0"
            raw_ += b"\0" * (-len(raw_) % 4)
            return [int.from_bytes(raw_[i:i + 4], "little") for i in range(0, len(raw_), 4)]
        return [pl]
    I_, B32, B64, ST = (lambda v: ("enum", "Operand::IdRef", [v])), (lambda v: ("enum", "Operand::LiteralBit32", [v])), \
        (lambda v: ("enum", "Operand::LiteralBit64", [v])), (lambda t: ("enum", "Operand::LiteralString", [("str", t)]))
    nreal = 0
    for opsr, label in (([I_(7), B32(9)], "an id and a 32-bit literal"), ([B64(0x1122334455667788)], "a 64-bit literal"), ([ST("")], "the empty string"),
                        ([ST("abc")], "a 3-byte string"), ([ST("abcd")], "a 4-byte string"), ([ST("h\u00e9llo")], "a 6-byte string of 5 characters"), ([ST("\u00e9\u00e9")], "a 4-byte string of 2 characters"), ([ST("\u00e9\u00e9\u00e9")], "a 6-byte string of 3 characters"),
                        ([I_(7), ST("h\u00e9llo"), B64(0x1122334455667788), B32(9)], "id, string, 64-bit and 32-bit literal"), ([], "no operands")):
        for rt_, rid_ in ((3, 5), (None, 5), (3, None), (None, None)):
            nreal += 1
            inst = "Instruction::assemble_into(result type %s, result id %s, operands: %s)" % (rt_ is not None, rid_ is not None, label)
            try:
                cnt, body = asmx.frame_real(ctx, rt_, rid_, opsr)
            except Anchor as ex:
                chk.bad(RF, inst, "not analysable: %s" % ex, WF, key="C02:frame-real-shape")
                continue
            wantb = ([rt_] if rt_ is not None else []) + ([rid_] if rid_ is not None else []) + [w_ for o_ in opsr for w_ in ref_words(o_)]
            chk.check(RF, cnt == 1 + len(wantb) and body == wantb, inst, "emits word count %s and words %s; expected word count %d and words %s" % (cnt, str(body)[:160], 1 + len(wantb), wantb),
                      WF, key="C02:frame-real")
    chk.floor(RF, "frames on concrete operands", nreal, 40)
    RW = chk.rule("R-WORDS", "strings: assemble_str emits, for every byte length, the full 4-byte little-endian chunks followed by exactly one "
                  "final word holding the remaining bytes, zero padded (so a NUL terminator always follows); Decoder::string consumes "
                  "first_null/4 + 1 words")
    from ..tree import small_literals as _sl
    _k = max(_sl(ctx.rspirv.fn("rspirv::binary::assemble", "assemble_str")["body"]) | {0})
    for n in range(0, max(10, 4 * (_k + 1) + 2)):
        inst = "assemble_str(%d bytes)" % n
        try:
            got = [asmx.as_w32(w) or w for w in asmx.string_words(ctx, n)]
            chk.check(RW, got == asmx.expected_string_words(n), inst, "emits %s, expected %s" % (got, asmx.expected_string_words(n)), raw.where("assemble_str", None, "assemble.rs"),
                      key="C02:assemble_str")
        except Anchor as ex:
            chk.bad(RW, inst, "not analysable: %s" % ex, raw.where("assemble_str", None, "assemble.rs"), key="C02:assemble_str-shape")
    from . import stringx as _sx
    prob = _sx.string_problem(ctx) if dm.get("string") else "Decoder::string missing"
    chk.check(RW, prob is None, "Decoder::string:inverse-of-assemble_str", "the string request does not read back what assemble_str packs (the bytes before "
              "the first NUL, whole words consumed): %s" % prob, raw.where("string", "Decoder"))
    chk.analysed.update({"kinds": len(kinds), "variants": len(ov), "decoder_methods": len(dm), "triples": len(triples),
                         "parameter_entries": sum(len(d["entries"]) for d in pa.values())})


