"""Evaluation of Parser::parse_header, Parser::new, Loader::consume_header, load_bytes/load_words on abstract inputs."""
from ..core import Anchor
from ..symeval import NONE, UNIT, Panic as SPanic
from . import asmx, progx

PAR = "rspirv::binary::parser"
MAGIC, SWAPPED = ("magic",), ("magic-byte-swapped",)


def word(i):
    return asmx.w32([("byte", "w%d.%d" % (i, k)) for k in range(4)])


class HH(progx.InlineHooks):
    """Parser with an abstract decoder: words(n) yields the scripted outcome"""
    NO_INLINE = ("words",)

    def __init__(self, ctx, outcome):
        progx.InlineHooks.__init__(self, ctx)
        self.outcome = outcome
        self.asked = []

    def path(self, p):
        if p.split("::")[-1] == "MAGIC_NUMBER":
            return MAGIC
        return progx.InlineHooks.path(self, p)

    def field(self, base, name, e):
        if base == ("parser",) and name == "decoder":
            return ("decoder",)
        return progx.InlineHooks.field(self, base, name, e)

    def binary(self, op, a, b, e):
        if op in ("==", "!=") and (a in (MAGIC, SWAPPED) or b in (MAGIC, SWAPPED)):
            return (a == b) == (op == "==")
        return progx.InlineHooks.binary(self, op, a, b, e)

    def call(self, p, args, e):
        if p.split("::")[-1] in ("swap_bytes", "from_be", "to_be") and len(args) == 1 and args[0] in (MAGIC, SWAPPED):
            return SWAPPED if args[0] == MAGIC else MAGIC
        return progx.InlineHooks.call(self, p, args, e)

    def mcall(self, recv, m, args, e, ev):
        if recv == ("decoder",) and m == "words" and len(args) == 1:
            self.asked.append(args[0])
            return self.outcome
        if recv in (MAGIC, SWAPPED) and m in ("swap_bytes", "to_be", "to_le") and not args:
            if m == "to_le":
                return recv
            return SWAPPED if recv == MAGIC else MAGIC
        return progx.InlineHooks.mcall(self, recv, m, args, e, ev)


def header_cases():
    ws = [word(i) for i in range(5)]
    yield "fewer than five words", ("err", ("sym", "DECODE_ERROR")), ("err", "HeaderIncomplete")
    yield "magic number", ("ok", ("list", [MAGIC] + ws[1:])), ("ok",)
    yield "byte-swapped magic number", ("ok", ("list", [SWAPPED] + ws[1:])), ("err", "EndiannessUnsupported")
    yield "another first word", ("ok", ("list", ws)), ("err", "HeaderIncorrect")


def parse_header(ctx, outcome):
    f = ctx.rspirv.fn(PAR, "parse_header", "Parser")
    h = HH(ctx, outcome)
    ev = progx.make(h, "Parser::parse_header")
    try:
        r = ev.run(f, {"self": ("parser",)})
    except SPanic as x:
        return ("panic", str(x)), h
    return r, h


def header_problems(ctx):
    """[(instance, problem or None, sample)] for the four abstract outcomes of reading the header words"""
    def build():
        out = []
        for name, outcome, want in header_cases():
            inst = "parse_header(%s)" % name
            try:
                r, h = parse_header(ctx, outcome)
            except Anchor as ex:
                out.append((inst, "not analysable: %s" % ex, None))
                continue
            if isinstance(r, tuple) and r[0] == "panic":
                out.append((inst, "panics: %s" % r[1], None))
                continue
            if h.asked != [5]:
                out.append((inst, "reads %s words, not the five header words" % h.asked, None))
                continue
            if want[0] == "err":
                good = isinstance(r, tuple) and r[0] == "err" and isinstance(r[1], tuple) and r[1][0] == "enum" and r[1][1].split("::")[-1] == want[1]
                if good and want[1] == "HeaderIncomplete":
                    good = r[1][2] == [outcome[1]]
                out.append((inst, None if good else "yields %s, expected Err(%s)" % (short(r), want[1]), None))
                continue
            if not (isinstance(r, tuple) and r[0] == "ok" and isinstance(r[1], tuple) and r[1][0] == "struct" and r[1][1] == "ModuleHeader"):
                out.append((inst, "yields %s, expected Ok(header)" % short(r), None))
                continue
            fl = r[1][2]
            ws = outcome[1][1]
            pb = []
            if fl.get("bound") != ws[3]:
                pb.append("bound is %s, not word 3" % short(fl.get("bound")))
            v = asmx.as_w32(fl.get("version")) or fl.get("version")
            wantv = asmx.w32([0, ws[1][1][1], ws[1][1][2], 0])
            if v != wantv:
                pb.append("version is %s, not the major/minor bytes of word 1" % short(v))
            if fl.get("magic_number") != MAGIC:
                pb.append("magic number is %s" % short(fl.get("magic_number")))
            out.append((inst, "; ".join(pb) or None, {k: short(x) for k, x in fl.items()}))
        return out
    return ctx.memo("headerx_problems", build)


def short(v):
    if isinstance(v, tuple) and v and v[0] == "w32":
        return "word[%s]" % ",".join(x[1] if isinstance(x, tuple) else str(x) for x in v[1])
    if isinstance(v, tuple) and v and v[0] == "enum":
        return "%s(%s)" % (v[1], ", ".join(short(x) for x in v[2])) if v[2] else v[1]
    if isinstance(v, tuple) and v and v[0] in ("ok", "err", "some"):
        return "%s(%s)" % (v[0].capitalize(), short(v[1]))
    if isinstance(v, tuple) and v and v[0] == "struct":
        return "%s{%s}" % (v[1], ", ".join("%s: %s" % (k, short(x)) for k, x in v[2].items()))
    if isinstance(v, tuple) and v and v[0] == "list":
        return "[%s]" % ", ".join(short(x) for x in v[1])
    return repr(v)


# ---------------------------------------------------------------------------------------------------- Parser::new, Loader
class NH(progx.InlineHooks):
    pass


def parser_new(ctx):
    """-> the Parser value built by Parser::new(BINARY, CONSUMER)"""
    f = ctx.rspirv.fn(PAR, "new", "Parser")
    h = NH(ctx)
    h.self_ty = "Parser"
    ev = progx.make(h, "Parser::new")
    ps = [q[0] for q in f["sig"]["params"]]
    return ev.run(f, {ps[0]: ("sym", "BINARY"), ps[1]: ("sym", "CONSUMER")})


def consume_header(ctx):
    """-> (loader before, action returned, loader after) for Loader::consume_header(HEADER) on a fresh loader"""
    h = NH(ctx)
    ev = progx.make(h, "Loader::consume_header")
    ln = ctx.rspirv.fn("rspirv::dr::loader", "new", "Loader", False)
    h.self_ty = "Loader"
    loader = ev.run(ln, {})
    f = ctx.rspirv.fn("rspirv::dr::loader", "consume_header", "Loader", "Consumer")
    hp = [q[0] for q in f["sig"]["params"] if q[0] != "self"][0]
    r = ev.run(f, {"self": loader, hp: ("sym", "HEADER")})
    return r, loader


class LH(progx.InlineHooks):
    NO_INLINE = ("parse_bytes", "parse_words")

    def __init__(self, ctx, outcome):
        progx.InlineHooks.__init__(self, ctx)
        self.outcome = outcome
        self.calls = []

    def call(self, p, args, e):
        if p.split("::")[-1] in ("parse_bytes", "parse_words"):
            self.calls.append((p.split("::")[-1], args))
            return self.outcome
        return progx.InlineHooks.call(self, p, args, e)


def load(ctx, name, outcome):
    f = ctx.rspirv.fn("rspirv::dr::loader", name)
    h = LH(ctx, outcome)
    ev = progx.make(h, name)
    ps = [q[0] for q in f["sig"]["params"]]
    try:
        r = ev.run(f, {ps[0]: ("sym", "BINARY")})
    except SPanic as x:
        return ("panic", str(x)), h
    return r, h


def load_problem(ctx, name):
    """None if load_<x> returns Err(state) unchanged when parsing fails and Ok(the loader's module) only when it succeeded"""
    want = "parse_" + name.split("_")[1]
    for outcome in (("err", ("sym", "STATE")), ("ok", UNIT)):
        r, h = load(ctx, name, outcome)
        if isinstance(r, tuple) and r and r[0] == "panic":
            return "panics: %s" % r[1]
        if len(h.calls) != 1 or h.calls[0][0] != want or h.calls[0][1][0] != ("sym", "BINARY"):
            return "does not call %s(binary, loader) exactly once: %s" % (want, [c[0] for c in h.calls])
        loader = h.calls[0][1][1]
        if not (isinstance(loader, tuple) and loader[0] == "struct" and loader[1] == "Loader"):
            return "the consumer handed to %s is %s, not a Loader" % (want, short(loader))
        if outcome[0] == "err":
            if r != outcome:
                return "returns %s when parsing fails with STATE" % short(r)
        else:
            if not (isinstance(r, tuple) and r[0] == "ok" and r[1] is loader[2].get("module")):
                return "returns %s when parsing succeeds, not Ok(loader.module())" % short(r)[:120]
    return None


class EH(progx.InlineHooks):
    """parse_bytes / parse_words: the parser must be built on the caller's bytes and consumer and its result returned unchanged"""

    def __init__(self, ctx, outcome):
        progx.InlineHooks.__init__(self, ctx)
        self.outcome = outcome
        self.parsers = []
        self.parsed = []

    def call(self, p, args, e):
        segs = p.split("::")
        if segs[-2:] == ["Parser", "new"] and len(args) == 2:
            v = ("parser", args[0], args[1])
            self.parsers.append(v)
            return v
        if segs[-1] == "from_raw_parts" and len(args) == 2:
            a, n = args
            if isinstance(a, tuple) and a[0] == "ptr8" and isinstance(n, int) and n == 4 * len(a[1][1]):
                return ("bytes-of", a[1])
            return ("bad-raw-parts", a, n)
        return progx.InlineHooks.call(self, p, args, e)

    def cast(self, v, ty, e):
        if isinstance(v, tuple) and v[0] == "ptr" and ty.replace(" ", "") == "*constu8":
            return ("ptr8", v[1])
        return progx.InlineHooks.cast(self, v, ty, e)

    def mcall(self, recv, m, args, e, ev):
        if isinstance(recv, tuple) and recv and recv[0] == "list" and m == "as_ptr" and not args:
            return ("ptr", recv)
        if isinstance(recv, tuple) and recv and recv[0] == "ptr" and m == "cast" and not args:
            tf = (e[4] or "") if (e is not None and len(e) > 4 and isinstance(e[4], str)) else ""
            if tf.replace(" ", "") in ("", "::<u8>"):
                return ("ptr8", recv[1])       # the target type is u8 (explicitly, or inferred from from_raw_parts::<u8>)
        if isinstance(recv, tuple) and recv[0] == "parser" and m == "parse" and not args:
            self.parsed.append(recv)
            return self.outcome
        return progx.InlineHooks.mcall(self, recv, m, args, e, ev)


def _entry_inputs(name):
    """the caller's buffer: word / byte sequences of several lengths (shorter than a header, a header, more; for bytes also lengths that
    are no multiple of four), with unknown non-zero elements, and the same with the last one or two elements zero"""
    lens = (0, 1, 4, 5, 6, 7) if name == "parse_words" else (0, 1, 3, 4, 19, 20, 21, 24)
    unit = "w" if name == "parse_words" else "b"
    for n in lens:
        for zeros in (0, 1, 2):
            if zeros > n:
                continue
            yield "%d %s, the last %d zero" % (n, "words" if unit == "w" else "bytes", zeros), [(unit, i) for i in range(n - zeros)] + [0] * zeros


def parse_entry_problem(ctx, name):
    f = ctx.rspirv.fn(PAR, name)
    ps = [q[0] for q in f["sig"]["params"]]
    for what, items in _entry_inputs(name):
        binary = ("list", list(items))
        want_bytes = binary if name == "parse_bytes" else ("bytes-of", binary)
        for outcome in (("err", ("sym", "STATE")), ("ok", UNIT)):
            h = EH(ctx, outcome)
            ev = progx.make(h, name)
            try:
                r = ev.run(f, {ps[0]: binary, ps[1]: ("sym", "CONSUMER")})
            except SPanic as x:
                return "on %s: panics: %s" % (what, x)
            if len(h.parsed) != 1:
                return "on %s: runs %d parses%s" % (what, len(h.parsed), " and returns %s" % short(r) if not h.parsed else "")
            if h.parsed[0][1] != want_bytes or h.parsed[0][2] != ("sym", "CONSUMER"):
                return "on %s: the parser is built on %s / %s, not on the caller's whole buffer and consumer" % (what, short(h.parsed[0][1]), short(h.parsed[0][2]))
            if r != outcome:
                return "on %s: returns %s when the parse yields %s" % (what, short(r), short(outcome))
    return None


# ---------------------------------------------------------------------------------------------------- Parser::parse_inst
IDX0 = 7
WC, OPC = 0x8421, 0xA5C3          # witness word: pairwise distinct nibbles, so any other shift/mask changes the outcome


class IH(progx.InlineHooks):
    """Parser with a scripted decoder: records the requests made to it"""
    NO_INLINE = ("parse_operands", "lookup_opcode")

    def __init__(self, ctx, script, off0=1000):
        progx.InlineHooks.__init__(self, ctx)
        self.sc = script
        self.off = off0
        self.events = []
        self.self_ty = "Parser"

    def mcall(self, recv, m, args, e, ev):
        if recv == ("decoder",):
            self.events.append((m,) + tuple(args))
            if m == "word" and not args:
                if len([x for x in self.events if x[0] == "word"]) > 1:
                    return ("err", ("sym", "UNEXPECTED-SECOND-WORD"))
                if self.sc["word"] is None:
                    return ("err", ("sym", "DECODE_ERROR"))
                self.off += 4
                return ("ok", self.sc["word"])
            if m == "offset" and not args:
                return self.off
            if m == "set_limit" and len(args) == 1:
                return UNIT
            if m == "clear_limit" and not args:
                return UNIT
            if m == "limit_reached" and not args:
                return self.sc["limit_reached"]
            if m == "has_limit" and not args:
                sets = [x for x in self.events if x[0] in ("set_limit", "clear_limit")]
                return bool(sets) and sets[-1][0] == "set_limit"
            return NotImplemented
        if isinstance(recv, tuple) and recv and recv[0] == "struct" and recv[1] == "Parser" and m == "parse_operands" and len(args) == 1:
            a0 = args[0]
            self.events.append(("parse_operands", ("grammar", a0[2].get("key")) if isinstance(a0, tuple) and a0 and a0[0] == "struct" else a0))
            self.off += 12
            return self.sc["operands"]
        return progx.InlineHooks.mcall(self, recv, m, args, e, ev)

    def call(self, p, args, e):
        if p.split("::")[-1] == "lookup_opcode" and len(args) == 1:
            self.events.append(("lookup_opcode", args[0]))
            g = ("struct", "Instruction", {"opname": ("str", "Witness"), "opcode": ("enum", "Op::Witness", []), "capabilities": ("list", []),
                                           "extensions": ("list", []), "operands": ("list", [("sym", "LOGICAL_OPERAND")]), "key": args[0]})
            return ("some", g) if self.sc["known"] else NONE
        if p.split("::")[-2:] == ["Instruction", "new"]:
            return ("instruction built inside parse_inst", tuple(repr(a) for a in args))
        return progx.InlineHooks.call(self, p, args, e)


def inst_cases(OFF0):
    w = (WC << 16) | OPC
    INST, OPERR = ("sym", "INSTRUCTION"), ("sym", "OPERAND_ERROR")
    base = {"word": w, "known": True, "operands": ("ok", INST), "limit_reached": True}
    yield "no further word", dict(base, word=None), ("err", "Complete", None)
    yield "word count 0", dict(base, word=OPC), ("err", "WordCountZero", [OFF0, IDX0 + 1])
    yield "unknown opcode", dict(base, known=False), ("err", "OpcodeUnknown", [OFF0, IDX0 + 1, OPC])
    yield "operand error", dict(base, operands=("err", OPERR)), ("raw", ("err", OPERR), None)
    yield "words left after the operands", dict(base, limit_reached=False), ("err", "OperandExceeded", [OFF0 + 16, IDX0 + 1])
    yield "well-formed instruction", base, ("raw", ("ok", INST), None)
    yield "well-formed instruction of one word", dict(base, word=(1 << 16) | OPC), ("raw", ("ok", INST), None)


def parse_inst_problems(ctx):
    def build():
        out = []
        f = ctx.rspirv.fn(PAR, "parse_inst", "Parser")
        for OFF0 in (0, 1000):
          for name, script, want in inst_cases(OFF0):
            inst = "parse_inst(%s, at byte %d)" % (name, OFF0)
            h = IH(ctx, script, OFF0)
            ev = progx.make(h, "Parser::parse_inst")
            selfv = ("struct", "Parser", {"decoder": ("decoder",), "consumer": ("sym", "CONSUMER"), "type_tracker": ("tracker",), "inst_index": IDX0})
            try:
                r = ev.run(f, {"self": selfv})
            except SPanic as x:
                out.append((inst, "panics: %s" % x, None))
                continue
            except Anchor as ex:
                out.append((inst, "not analysable: %s" % ex, None))
                continue
            pb = []
            if want[0] == "raw":
                if r != want[1]:
                    pb.append("yields %s, expected %s" % (short(r), short(want[1])))
            else:
                good = isinstance(r, tuple) and r[0] == "err" and isinstance(r[1], tuple) and r[1][0] == "enum" and r[1][1].split("::")[-1] == want[1]
                if good and want[2] is not None and r[1][2] != want[2]:
                    pb.append("error payload is %s; expected %s (instruction starts at byte %d, is number %d, opcode 0x%X)" % (r[1][2], want[2], OFF0, IDX0 + 1, OPC))
                if not good:
                    pb.append("yields %s, expected Err(%s)" % (short(r), want[1]))
            evs = h.events
            names = [x[0] for x in evs]
            if script["word"] is not None and (script["word"] >> 16) != 0:
                wc = script["word"] >> 16
                if ("lookup_opcode", OPC) not in evs:
                    pb.append("the opcode looked up is %s, not the low 16 bits 0x%X of the first word" % ([x[1:] for x in evs if x[0] == "lookup_opcode"], OPC))
                if script["known"]:
                    want_seq = ["set_limit", "parse_operands"] + ([] if script["operands"][0] == "err" else ["limit_reached"] + (["clear_limit"] if script["limit_reached"] else []))
                    seq = [n for n in names if n in ("set_limit", "parse_operands", "limit_reached", "clear_limit")]
                    if seq != want_seq:
                        pb.append("decoder limit handling is %s, expected %s" % (seq, want_seq))
                    if ("set_limit", wc - 1) not in evs:
                        pb.append("the limit set is %s, not word count - 1 = %d" % ([x[1:] for x in evs if x[0] == "set_limit"], wc - 1))
                    if ("parse_operands", ("grammar", OPC)) not in evs:
                        pb.append("parse_operands is given %s" % [x[1:] for x in evs if x[0] == "parse_operands"])
            if script["word"] is not None and selfv[2]["inst_index"] != IDX0 + 1:
                pb.append("inst_index goes from %d to %s" % (IDX0, selfv[2]["inst_index"]))
            if names.count("word") != 1:
                pb.append("%d first-word reads" % names.count("word"))
            out.append((inst, "; ".join(pb) or None, [x[0] if len(x) == 1 else x for x in evs]))
        return out
    return ctx.memo("headerx_inst", build)


# ---------------------------------------------------------------------------------------------------- ModuleHeader / Builder header API
def _hdr(version=None):
    return ("struct", "ModuleHeader", {"magic_number": ("sym", "F_MAGIC"), "version": version if version is not None else ("sym", "F_VERSION"),
                                       "generator": ("sym", "F_GENERATOR"), "bound": ("sym", "F_BOUND"), "reserved_word": ("sym", "F_RESERVED")})


def _run(ctx, what, f, env):
    h = NH(ctx)
    ev = progx.make(h, what)
    h.self_ty = what.split("::")[0]
    try:
        return ev.run(f, env), env
    except SPanic as x:
        return ("panic", str(x)), env


def header_api_problems(ctx):
    """[(instance, problem or None, where-args)] for ModuleHeader::{new,set_version,version}, its assembly, Builder::{set_version,version}"""
    def build():
        out = []
        CON, ASM, BLD = "rspirv::dr::constructs", "rspirv::binary::assemble", "rspirv::dr::build"
        maj, mi = ("byte", "major"), ("byte", "minor")
        packed = asmx.w32([0, mi, maj, 0])
        lanes = asmx.w32([("byte", "b%d" % i) for i in range(4)])

        def guard(inst, wh, fn):
            try:
                pb = fn()
            except Anchor as ex:
                pb = "not analysable: %s" % ex
            out.append((inst, pb, wh))
        sm = {c["name"]: c for c in ctx.spirv.items("spirv", "const") if c["name"] in ("MAJOR_VERSION", "MINOR_VERSION")}
        from ..tree import int_of

        def t_new():
            f = ctx.rspirv.fn(CON, "new", "ModuleHeader", False)
            r, _ = _run(ctx, "ModuleHeader::new", f, {f["sig"]["params"][0][0]: ("sym", "BOUND")})
            if not (isinstance(r, tuple) and r[0] == "struct" and r[1] == "ModuleHeader"):
                return "yields %s" % short(r)
            fl = r[2]
            want_v = (int_of(sm["MAJOR_VERSION"]["init"]) << 16) | (int_of(sm["MINOR_VERSION"]["init"]) << 8)
            v = fl.get("version")
            vi = v if isinstance(v, int) else (sum((x << (8 * i)) for i, x in enumerate(v[1])) if isinstance(v, tuple) and v[0] == "w32" and all(isinstance(x, int) for x in v[1]) else None)
            pb = []
            if fl.get("bound") != ("sym", "BOUND"):
                pb.append("bound is %s, not the argument" % short(fl.get("bound")))
            if fl.get("magic_number") not in (MAGIC, 0x07230203):
                pb.append("magic number is %s" % short(fl.get("magic_number")))
            if vi != want_v:
                pb.append("version is %s, not 0x%08x (spirv::MAJOR_VERSION.MINOR_VERSION)" % (short(v), want_v))
            if fl.get("reserved_word") != 0:
                pb.append("reserved word is %s" % short(fl.get("reserved_word")))
            return "; ".join(pb) or None
        guard("ModuleHeader::new(BOUND)", ("new", "ModuleHeader"), t_new)

        def t_set():
            f = ctx.rspirv.fn(CON, "set_version", "ModuleHeader", False)
            ps = [q[0] for q in f["sig"]["params"] if q[0] != "self"]
            hv = _hdr()
            r, _ = _run(ctx, "ModuleHeader::set_version", f, {"self": hv, ps[0]: maj, ps[1]: mi})
            if isinstance(r, tuple) and r and r[0] == "panic":
                return "panics: %s" % r[1]
            want = dict(_hdr()[2], version=packed)
            got = dict(hv[2], version=asmx.as_w32(hv[2]["version"]) or hv[2]["version"])
            return None if got == want else "leaves %s" % short(hv)
        guard("ModuleHeader::set_version(major, minor)", ("set_version", "ModuleHeader"), t_set)

        def t_ver():
            f = ctx.rspirv.fn(CON, "version", "ModuleHeader", False)
            r, _ = _run(ctx, "ModuleHeader::version", f, {"self": _hdr(lanes)})
            return None if r == ("tuple", [("byte", "b2"), ("byte", "b1")]) else "yields %s for the version word b0..b3, not (b2, b1)" % (r,)
        guard("ModuleHeader::version()", ("version", "ModuleHeader"), t_ver)

        def t_asm():
            f = ctx.rspirv.fn(ASM, "assemble_into", "ModuleHeader", "Assemble")
            res = [q[0] for q in f["sig"]["params"] if q[0] != "self"][0]
            r, env = _run(ctx, "ModuleHeader::assemble_into", f, {"self": _hdr(), res: ("list", [("sym", "EARLIER")])})
            if isinstance(r, tuple) and r and r[0] == "panic":
                return "panics: %s" % r[1]
            want = ("list", [("sym", "EARLIER")] + [("sym", "F_" + n) for n in ("MAGIC", "VERSION", "GENERATOR", "BOUND", "RESERVED")])
            got = env[res]
            return None if (got[0], list(got[1])) == (want[0], want[1]) else "appends %s" % short(("list", list(got[1])[1:]))
        guard("ModuleHeader::assemble_into", ("assemble_into", "ModuleHeader", "assemble.rs"), t_asm)

        def bld(header):
            return ("struct", "Builder", {"module": ("struct", "Module", {"header": header}), "next_id": ("sym", "NEXT"),
                                          "selected_function": NONE, "selected_block": NONE})

        def t_bset(have):
            def run():
                f = ctx.rspirv.fn(BLD, "set_version", "Builder")
                ps = [q[0] for q in f["sig"]["params"] if q[0] != "self"]
                b = bld(("some", _hdr()) if have else NONE)
                r, _ = _run(ctx, "Builder::set_version", f, {"self": b, ps[0]: maj, ps[1]: mi})
                if isinstance(r, tuple) and r and r[0] == "panic":
                    return "panics: %s" % r[1]
                hd = b[2]["module"][2]["header"]
                if not (isinstance(hd, tuple) and hd[0] == "some" and hd[1][0] == "struct"):
                    return "leaves the header %s" % short(hd)
                fl = dict(hd[1][2])
                v = asmx.as_w32(fl.pop("version")) or None
                if v != packed:
                    return "the header version becomes %s" % short(v)
                if have and fl != {k: x for k, x in _hdr()[2].items() if k != "version"}:
                    return "other header fields change: %s" % short(hd[1])
                if b[2]["next_id"] != ("sym", "NEXT"):
                    return "next_id changes"
                return None
            return run
        guard("Builder::set_version (header present)", ("set_version", "Builder"), t_bset(True))
        guard("Builder::set_version (no header yet)", ("set_version", "Builder"), t_bset(False))

        def t_bver(have):
            def run():
                f = ctx.rspirv.fn(BLD, "version", "Builder")
                b = bld(("some", _hdr(lanes)) if have else NONE)
                r, _ = _run(ctx, "Builder::version", f, {"self": b})
                want = ("some", ("tuple", [("byte", "b2"), ("byte", "b1")])) if have else NONE
                return None if r == want else "yields %s" % (r,)
            return run
        guard("Builder::version (header present)", ("version", "Builder"), t_bver(True))
        guard("Builder::version (no header)", ("version", "Builder"), t_bver(False))
        return out
    return ctx.memo("headerx_api", build)


def builder_init_problems(ctx):
    BLD = "rspirv::dr::build"
    out = []

    def guard(inst, wh, fn):
        try:
            pb = fn()
        except Anchor as ex:
            pb = "not analysable: %s" % ex
        out.append((inst, pb, wh))

    def t_new():
        f = ctx.rspirv.fn(BLD, "new", "Builder")
        r, _ = _run(ctx, "Builder::new", f, {})
        if not (isinstance(r, tuple) and r[0] == "struct" and r[1] == "Builder"):
            return "yields %s" % short(r)[:120]
        fl = r[2]
        pb = []
        if fl.get("next_id") != 1:
            pb.append("ids start at %s" % short(fl.get("next_id")))
        if fl.get("selected_function") != NONE or fl.get("selected_block") != NONE:
            pb.append("a function or block is selected initially")
        return "; ".join(pb) or None
    guard("Builder::new()", ("new", "Builder", "build/mod.rs"), t_new)

    def t_from():
        f = ctx.rspirv.fn(BLD, "new_from_module", "Builder")
        # a whole module: a header whose bound (100) is larger than every id in use (3, 40 .. 43), as when ids were reserved but not used
        from . import evalsum
        mod = evalsum.fresh_builder(ctx, "none")[2]["module"]
        hd = _hdr()
        hd[2]["bound"] = 100
        mod[2]["header"] = ("some", hd)
        mod[2]["types_global_values"] = ("list", [evalsum._ti("TypeVoid", [], 3), evalsum._ti("TypeInt", [("enum", "Operand::LiteralBit32", [32]), ("enum", "Operand::LiteralBit32", [0])], 40)])
        fn0 = mod[2]["functions"][1][0]
        fn0[2]["def"] = ("some", evalsum._ti("Function", [], 41, 3))
        for bl_ in fn0[2]["blocks"][1]:
            bl_[2]["label"] = ("some", evalsum._ti("Label", [], 42))
            bl_[2]["instructions"] = ("list", [evalsum._ti("Undef", [], 43, 40), evalsum._ti("Return", [])])
        r, _ = _run(ctx, "Builder::new_from_module", f, {f["sig"]["params"][0][0]: mod})
        if not (isinstance(r, tuple) and r[0] == "struct" and r[1] == "Builder"):
            return "yields %s" % short(r)[:120]
        fl = r[2]
        pb = []
        if fl.get("next_id") != 100:
            pb.append("continuation starts ids at %s, not at the header bound 100 (ids 3, 40 .. 43 are in use)" % short(fl.get("next_id")))
        if fl.get("selected_function") != NONE or fl.get("selected_block") != NONE:
            pb.append("a function or block is selected after adopting the module")
        if fl.get("module") is not mod:
            pb.append("the module is not the one given")
        return "; ".join(pb) or None
    guard("Builder::new_from_module(module with header)", ("new_from_module", "Builder", "build/mod.rs"), t_from)
    return out


def report(chk, rule, raw, problems, only=None, keyp="hdr"):
    n = 0
    for inst, pb, wh in problems:
        if only is not None and not any(o in inst for o in only):
            continue
        n += 1
        chk.check(rule, pb is None, inst, "%s: %s" % (inst, pb), raw.where(*wh), key="%s:%s" % (keyp, inst))
    return n


def tracker_resolve_problem(ctx):
    """TypeTracker::new() is empty; resolve(id) is Some(the tracked type) for a tracked id and None for any other id"""
    TRK = "rspirv::binary::tracker"
    fn = ctx.rspirv.fn(TRK, "new", "TypeTracker")
    r, _ = _run(ctx, "TypeTracker::new", fn, {})
    if not (isinstance(r, tuple) and r[0] == "struct" and r[1] == "TypeTracker"):
        return "TypeTracker::new yields %s" % short(r)
    maps = [k for k, v in r[2].items() if isinstance(v, tuple) and v and v[0] == "map"]
    if len(maps) != 1 or len(r[2]) != 1 or r[2][maps[0]][1]:
        return "TypeTracker::new yields %s, not a tracker with one empty map" % short(r)
    rf = ctx.rspirv.fn(TRK, "resolve", "TypeTracker")
    ip = [q[0] for q in rf["sig"]["params"] if q[0] != "self"][0]
    ty = ("enum", "Type::Integer", [32, False])
    r[2][maps[0]][1][("sym", "ID")] = ty
    for arg, want in ((("sym", "ID"), ("some", ty)), (("sym", "OTHER_ID"), NONE)):
        got, _ = _run(ctx, "TypeTracker::resolve", rf, {"self": r, ip: arg})
        if got != want:
            return "resolve(%s) on a tracker holding ID -> Integer(32, false) yields %s" % (arg[1], short(got))
    if r[2][maps[0]][1] != {("sym", "ID"): ty}:
        return "resolve changes the map"
    return None


# ---------------------------------------------------------------------------------------------------- Parser::parse
ACTIONS = {"continue": ("enum", "Action::Continue", []), "stop": ("enum", "Action::Stop", []), "error": ("enum", "Action::Error", [("sym", "CONSUMER_ERROR")])}


class PH(progx.OpHooks):
    """Parser::parse against a scripted consumer, header result and instruction stream"""
    NO_INLINE = ("parse_header", "parse_inst", "track")

    def __init__(self, ctx, script):
        progx.OpHooks.__init__(self, ctx)
        self.sc = script
        self.events = []
        self.ninst = 0
        self.self_ty = "Parser"

    def action(self, key):
        return ACTIONS[self.sc.get(key, "continue")]

    def mcall(self, recv, m, args, e, ev):
        if recv == ("consumer",):
            if m == "initialize" and not args:
                self.events.append(("initialize",))
                return self.action("initialize")
            if m == "consume_header" and len(args) == 1:
                self.events.append(("consume_header", args[0]))
                return self.action("consume_header")
            if m == "consume_instruction" and len(args) == 1:
                self.events.append(("consume_instruction", args[0]))
                n = len([x for x in self.events if x[0] == "consume_instruction"])
                return self.action("instruction%d" % n)
            if m == "finalize" and not args:
                self.events.append(("finalize",))
                return self.action("finalize")
            return NotImplemented
        if recv == ("ttracker",) and m == "track" and len(args) == 1:
            self.events.append(("track", args[0]))
            return UNIT
        if isinstance(recv, tuple) and recv and recv[0] == "struct" and recv[1] == "Parser":
            if m == "parse_header" and not args:
                self.events.append(("parse_header",))
                return self.sc["header"]
            if m == "parse_inst" and not args:
                self.events.append(("parse_inst",))
                k = self.ninst
                self.ninst += 1
                st = self.sc["stream"]
                return st[k] if k < len(st) else ("err", ("sym", "READ-PAST-THE-END"))
        return progx.OpHooks.mcall(self, recv, m, args, e, ev)


def parse_scripts(extra=0):
    """extra: the largest small integer the parse loop compares / counts with; the streams then also reach extra + 1 instructions"""
    from . import walkx
    # a type declaration, a function definition, then an instruction inside the function: all three must reach consumer and tracker
    I1, I2, I3 = walkx.inst("INST1", "TypeInt"), walkx.inst("INST2", "Function"), walkx.inst("INST3", "IAdd")
    COMPLETE = ("err", ("enum", "State::Complete", []))
    PERR = ("err", ("enum", "State::OperandExpected", [("sym", "OFF"), ("sym", "IDX")]))
    ok_stream = [("ok", I1), ("ok", I2), ("ok", I3), COMPLETE]
    base = {"header": ("ok", ("sym", "HEADER")), "stream": ok_stream}
    if extra >= 2:
        n = extra + 1
        long_stream = [("ok", walkx.inst("INST%d" % (i + 1), "IAdd")) for i in range(n)] + [COMPLETE]
        yield "%d instructions, all callbacks continue" % n, dict(base, stream=long_stream)
        for a in ("stop", "error"):
            yield "instruction %d of %d answered with %s" % (n, n, a), dict(base, stream=long_stream, **{"instruction%d" % n: a})
        yield "parse error at instruction %d" % n, dict(base, stream=long_stream[:n - 1] + [PERR])
    yield "all callbacks continue", dict(base)
    yield "empty instruction stream", dict(base, stream=[COMPLETE])
    for a in ("stop", "error"):
        yield "initialize answers %s" % a, dict(base, initialize=a)
        yield "consume_header answers %s" % a, dict(base, consume_header=a)
        yield "first instruction answered with %s" % a, dict(base, instruction1=a)
        yield "second instruction answered with %s" % a, dict(base, instruction2=a)
        yield "finalize answers %s" % a, dict(base, finalize=a)
    yield "header unreadable", dict(base, header=("err", ("enum", "State::HeaderIncorrect", [])))
    yield "parse error at the first instruction", dict(base, stream=[PERR])
    yield "parse error at the second instruction", dict(base, stream=[("ok", I1), PERR])


def parse_reference(sc):
    """the protocol of the property -> (callback events, result)"""
    ev = []

    def res(a):
        return {"stop": ("err", ("enum", "State::ConsumerStopRequested", [])),
                "error": ("err", ("enum", "State::ConsumerError", [("sym", "CONSUMER_ERROR")]))}[a]
    ev.append(("initialize",))
    if sc.get("initialize", "continue") != "continue":
        return ev, res(sc["initialize"])
    if sc["header"][0] == "err":
        return ev, sc["header"]
    ev.append(("consume_header", sc["header"][1]))
    if sc.get("consume_header", "continue") != "continue":
        return ev, res(sc["consume_header"])
    n = 0
    for item in sc["stream"]:
        if item[0] == "ok":
            n += 1
            ev.append(("consume_instruction", item[1]))
            a = sc.get("instruction%d" % n, "continue")
            if a != "continue":
                return ev, res(a)
        elif item[1] == ("enum", "State::Complete", []):
            ev.append(("finalize",))
            a = sc.get("finalize", "continue")
            return ev, (("ok", UNIT) if a == "continue" else res(a))
        else:
            return ev, item
    return ev, None


def parse_problems(ctx):
    def build():
        out = []
        f = ctx.rspirv.fn(PAR, "parse", "Parser")
        from ..tree import small_literals
        lits = small_literals(f["body"])
        for name, sc in parse_scripts(max(lits) if lits else 0):
            inst = "parse(%s)" % name
            h = PH(ctx, sc)
            ev = progx.make(h, "Parser::parse")
            selfv = ("struct", "Parser", {"decoder": ("decoder",), "consumer": ("consumer",), "type_tracker": ("ttracker",), "inst_index": 0})
            try:
                r = ev.run(f, {"self": selfv})
            except SPanic as x:
                out.append((inst, "panics: %s" % x, None))
                continue
            except Anchor as ex:
                out.append((inst, "not analysable: %s" % ex, None))
                continue
            want_ev, want_r = parse_reference(sc)
            cb = [x for x in h.events if x[0] in ("initialize", "consume_header", "consume_instruction", "finalize")]
            pb = []
            if cb != want_ev:
                pb.append("callbacks are %s, expected %s" % ([x[0] for x in cb], [x[0] for x in want_ev]) if [x[0] for x in cb] != [x[0] for x in want_ev]
                          else "callback arguments are %s, expected %s" % (cb, want_ev))
            if r != want_r:
                pb.append("result is %s, expected %s" % (short(r), short(want_r)))
            # every parsed instruction is tracked before the next one is parsed (its type may size the next literal)
            evs = h.events
            for i, x in enumerate(evs):
                if x[0] == "parse_inst":
                    prev = [j for j in range(i) if evs[j][0] == "parse_inst"]
                    if prev:
                        k = prev[-1]
                        item = sc["stream"][len(prev) - 1] if len(prev) - 1 < len(sc["stream"]) else None
                        if item and item[0] == "ok" and ("track", item[1]) not in evs[k:i]:
                            pb.append("%s is not given to the type tracker before the next instruction is parsed" % (
                                item[1][2].get("name") if isinstance(item[1], tuple) and item[1][0] == "struct" else item[1][1]))
            if [x for x in evs if x[0] == "parse_header"] != [("parse_header",)] * (1 if sc.get("initialize", "continue") == "continue" else 0):
                pb.append("parse_header is called %d times" % len([x for x in evs if x[0] == "parse_header"]))
            out.append((inst, "; ".join(pb) or None, [x[0] for x in evs]))
        return out
    return ctx.memo("headerx_parse", build)


def instruction_new_problem(ctx):
    """Instruction::new(opcode, result_type, result_id, operands) stores its arguments field for field and the grammar row of that opcode"""
    f = ctx.rspirv.fn("rspirv::dr::constructs", "new", "Instruction", False)
    ps = [q[0] for q in f["sig"]["params"]]

    class IH2(progx.OpHooks):
        NO_INLINE = ("get",)

        def call(self, p, args, e):
            if p.split("::")[-2:] == ["CoreInstructionTable", "get"] and len(args) == 1:
                return ("row-of", args[0])
            return progx.OpHooks.call(self, p, args, e)
    h = IH2(ctx)
    ev = progx.make(h, "Instruction::new")
    h.self_ty = "Instruction"
    OP, RT, RID, OPS = ("enum", "Op::IAdd", []), ("some", ("sym", "RT")), ("some", ("sym", "RID")), ("list", [("sym", "O1"), ("sym", "O2")])
    try:
        r = ev.run(f, dict(zip(ps, [OP, RT, RID, OPS])))
    except SPanic as x:
        return "panics: %s" % x
    if not (isinstance(r, tuple) and r[0] == "struct" and r[1] == "Instruction"):
        return "yields %s" % short(r)
    fl = r[2]
    want = {"class": ("row-of", OP), "result_type": RT, "result_id": RID}
    for k, v in want.items():
        if fl.get(k) != v:
            return "field %s is %s" % (k, short(fl.get(k)))
    if not (isinstance(fl.get("operands"), tuple) and list(fl["operands"][1]) == list(OPS[1])):
        return "operands are %s" % short(fl.get("operands"))
    return None
