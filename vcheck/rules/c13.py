"""C13 Builder id discipline: fresh ids, exact bound, deduplicated implicit types."""
from ..core import Anchor
from ..tree import int_of, is_node, mir_name, path_of, show, show_stmt, unblock, walk, where
from . import builder

EXPLANATION = (
    "Who-may-write rule on Builder.next_id and census of Builder constructions from the type-checked MIR (only id() increments it; "
    "only new/new_from_module/default build a Builder); id(), new, new_from_module, module() and ModuleHeader::new evaluated on "
    "abstract values; a result-id source rule over every instruction-emitting Builder method (the id is the caller's explicit id or "
    "one self.id(), never computed, none allocated and dropped); the three-way explicit/found/fresh decision table of every "
    "implicit-type method plus dedup_insert_type and is_type_identical. Counter overflow after 2^32 allocations and caller-chosen "
    "colliding explicit ids are outside the claim.")
EXHAUSTIVE = False     # the abstract inputs are a stated finite scope, not the whole input space

BLD = "rspirv::dr::build"


def run(ctx, chk):
    raw = ctx.raw
    mir = ctx.mir("rspirv")
    ms = builder.methods(ctx)
    byname = {m["name"]: m for m in ms}

    R1 = chk.rule("R-NEXT", "Builder.next_id is written only by id() (increment by one, returning the value read before) and "
                  "initialised by new() = 1 and new_from_module() = header bound; module() stores next_id into the header bound on "
                  "both branches")
    writers = {}
    for p, fn in mir.fns.items():
        for b in fn["blocks"]:
            for s in b["s"]:
                if s["f"] in ("fw",) and s["chain"] and s["chain"][-1][1] == "next_id" and s["chain"][-1][0].endswith("Builder"):
                    writers.setdefault(mir_name(p), []).append(where(s["span"]))
                if s["f"] == "ref" and s["mut"] and s["chain"] and s["chain"][-1][1] == "next_id" and s["chain"][-1][0].endswith("Builder"):
                    writers.setdefault(mir_name(p) + " (&mut)", []).append(where(s["span"]))
    for wname, spans in sorted(writers.items()):
        chk.check(R1, wname.replace(" (&mut)", "").endswith("Builder::id"), "writer:" + wname,
                  "%s writes Builder.next_id (only Builder::id may)" % wname, spans[0], key="C13:next_id-writer:%s" % wname)
    chk.check(R1, any(w.replace(" (&mut)", "").endswith("Builder::id") for w in writers), "writer:Builder::id:exists", "Builder::id does not write next_id", raw.where("id", "Builder"))
    # constructions of a Builder value (the only other way to set next_id): census over the MIR aggregates, then evaluation
    from . import headerx
    makers = set()
    for p, fn in mir.fns.items():
        for b in fn["blocks"]:
            for s_ in b["s"]:
                if s_["f"] == "agg" and s_.get("adt", "").endswith("build::Builder"):
                    makers.add(mir_name(p).split("::{closure")[0].split("::")[-1])
    allowed = {"new", "new_from_module", "default"}
    chk.check(R1, makers <= allowed and "new" in makers, "init:constructors", "Builder values are constructed in %s (allowed: new, new_from_module, default)" % sorted(makers),
              raw.where("new", "Builder", "build/mod.rs"), key="C13:init:%s" % ",".join(sorted(makers - allowed)), sample=sorted(makers))
    headerx.report(chk, R1, raw, headerx.builder_init_problems(ctx), keyp="C13:init")
    f = ctx.rspirv.fn(BLD, "id", "Builder")
    res = eval_counter(f)
    chk.check(R1, res == ("N", ("N", 1)), "id():read-then-increment",
              "Builder::id returns %s and leaves next_id = %s (expected: returns N, leaves N+1)" % (fmt_lin(res[0]) if res else "?", fmt_lin(res[1]) if res else "?"),
              raw.where("id", "Builder"), sample=[show_stmt(s_) for s_ in f["body"][1]])
    f = ctx.rspirv.fn(BLD, "module", "Builder")
    good, why = module_bound_eval(ctx, f)
    chk.check(R1, good, "module():bound=next_id", "Builder::module does not store next_id as the header bound whether or not a header was set: %s" % why,
              raw.where("module", "Builder"))
    headerx.report(chk, R1, raw, headerx.header_api_problems(ctx), only=["ModuleHeader::new"], keyp="C13")

    R2 = chk.rule("R-SRC", "in every instruction-emitting Builder method the result id is absent, the caller's explicit id, or the "
                  "value of self.id() (directly or via result_id.unwrap_or_else(|| self.id()) / match); never a literal or computed id")
    n = 0
    for m_ in ms:
        if not m_["emits"] or m_["problems"]:
            if m_["emits"]:
                chk.bad(R2, "Builder::" + m_["name"], "method is not in an analysable shape: %s" % m_["problems"][:2], m_["where"])
            continue
        n += 1
        src = m_["id_src"]
        good = src[0] in ("param_or_fresh", "fresh", "param", "optparam", "none")
        # self.id() call count: at most one allocation per emitted instruction
        ids = sum(1 for x in walk(m_["fn"]["body"]) if x[0] == "mcall" and x[2] == "id" and path_of(x[1]) == "self" and not x[3])
        chk.check(R2, good and ids <= 1, "Builder::" + m_["name"], "result id source is %s with %d self.id() calls" % (src, ids), m_["where"],
                  sample={"id_src": src})
        # the returned id is the instruction's id
        if src[0] in ("param_or_fresh", "fresh") and m_["returns"] not in (None, "()", "sink-result", "dedup"):
            rid = m_["rid"][1] if m_["rid"][0] == "some" else None
            chk.check(R2, m_["returns"] == rid, "Builder::%s:returns-its-id" % m_["name"],
                      "returns %s but the instruction carries %s" % (m_["returns"], rid), m_["where"])
    chk.floor(R2, "instruction-emitting methods", n, 1121)
    nids = sum(1 for m_ in ms if m_["emits"] and m_["id_src"] and m_["id_src"][0] in ("param_or_fresh", "fresh"))
    chk.floor(R2, "methods allocating through self.id()", nids, 880)

    R3 = chk.rule("R-DEDUP", "every implicit-type method is the three-way branch: explicit id -> append with that id; else an identical "
                  "earlier declaration (dedup_insert_type) -> its id, nothing appended; else fresh id, appended once. type_x(..) = "
                  "type_x_id(None, ..). dedup_insert_type = first element of types_global_values that is_type_identical and has a "
                  "result id; is_type_identical = same opcode and equal operands")
    nd = 0
    for m_ in ms:
        if m_["dedup"]:
            nd += 1
            d = m_["dedup"]
            good = d["shape_ok"] and m_["rid"] == ("path", d["explicit_param"]) and m_["rtype"] == ("none",)
            chk.check(R3, good, "Builder::" + m_["name"], "explicit/found/fresh branch is not in the audited shape (%s): %s" % (d["why"], d.get("text", "")[:200]),
                      m_["where"], sample={"explicit": d["explicit_param"]})
            extra = [s for s in m_["slots"] if s[0] not in ("one", "many", "opt")]
            chk.check(R3, not extra and not m_["problems"], "Builder::%s:operands-before-lookup" % m_["name"],
                      "operands added in an unrecognised way (%s %s): the lookup may compare an incomplete declaration" % (extra, m_["problems"]), m_["where"])
            # the lookup must compare the complete declaration: a twin lacking the last operand must not be taken for it
            if "complete_before_lookup" in d:
                chk.check(R3, d["complete_before_lookup"], "Builder::%s:order" % m_["name"],
                          "a declaration lacking the last operand is found as identical: operands are added after the duplicate lookup", m_["where"])
            else:
                stmts = m_["fn"]["body"][1]
                idx_dd = [i for i, s in enumerate(stmts) if s[0] == "expr" and "dedup_insert_type" in show(s[1])]
                idx_ops = [i for i, s in enumerate(stmts) if s[0] == "expr" and ".operands" in show(s[1]) and "dedup_insert_type" not in show(s[1])]
                chk.check(R3, idx_dd and all(i < idx_dd[0] for i in idx_ops), "Builder::%s:order" % m_["name"],
                          "operands are modified after the duplicate lookup", m_["where"])
    chk.floor(R3, "implicit type methods", nd, 33)
    # delegation type_x -> type_x_id(None, args)
    ndel = 0
    for m_ in ms:
        nm = m_["name"]
        if nm.startswith("type_") and not nm.endswith("_id") and (nm + "_id") in byname and not m_["emits"]:
            ndel += 1
            st = m_["fn"]["body"][1]
            e = st[0][1] if len(st) == 1 and st[0][0] == "expr" else None
            args = [p[0] for p in m_["params"]]
            good = (e is not None and e[0] == "mcall" and path_of(e[1]) == "self" and e[2] == nm + "_id"
                    and [show(a) for a in e[3]] == ["None"] + args
                    and [p[1] for p in byname[nm + "_id"]["params"]][1:] == [p[1] for p in m_["params"]])
            chk.check(R3, good, "Builder::%s:delegates" % nm, "does not delegate to %s_id(None, %s): %s" % (nm, ", ".join(args), show(e)[:120] if e else st), m_["where"])
    chk.floor(R3, "type_x -> type_x_id delegations", ndel, 31)
    from . import evalsum
    for inst_, pb_, wh_ in evalsum.type_identity_problems(ctx):
        chk.check(R3, pb_ is None, inst_, "%s: %s" % (inst_, pb_), raw.where(*wh_), key="C13:identity:" + inst_.split("(")[0])
    chk.check(R3, "dedup_insert_type" not in [mir_name(p).split("::")[-1] for p in mir.fns if False], "dedup:no-mutation", "", None)
    # dedup_insert_type must not mutate the module (MIR: no field writes / &mut borrows of Builder fields)
    for p, fn in mir.fns.items():
        if mir_name(p).endswith("Builder::dedup_insert_type"):
            muts = [s for b in fn["blocks"] for s in b["s"] if (s["f"] == "fw" or (s["f"] == "ref" and s["mut"])) and s.get("chain") and s["chain"][0][0].endswith("Builder")]
            chk.check(R3, not muts, "dedup_insert_type:read-only", "dedup_insert_type mutates the builder: %s" % muts[:2], raw.where("dedup_insert_type", "Builder"))
    chk.analysed.update({"builder_methods": len(ms), "emitting": n, "dedup_methods": nd, "next_id_writers": sorted(writers)})


def fmt_lin(v):
    if isinstance(v, tuple):
        return "%s%+d" % v if v[1] else v[0]
    return str(v)


def eval_counter(f):
    """Symbolic evaluation of Builder::id over the counter N = self.next_id: -> (returned value, final next_id) as N or (N, k)."""
    env = {}
    state = {"next": "N"}

    def lin(v):
        return (v, 0) if isinstance(v, str) else v

    def val(e):
        e = unblock(e)
        k = e[0]
        if k == "field" and show(e) == "self.next_id":
            return state["next"]
        if k == "path" and e[1] in env:
            return env[e[1]]
        if k == "lit" and e[1] == "int":
            return int(e[2])
        if k == "binary" and e[1] in ("+", "-"):
            a, b = val(e[2]), val(e[3])
            if isinstance(b, int) and not isinstance(a, int):
                a = lin(a)
                r = (a[0], a[1] + (b if e[1] == "+" else -b))
                return r if r[1] else r[0]
            if isinstance(a, int) and not isinstance(b, int) and e[1] == "+":
                b = lin(b)
                return (b[0], b[1] + a)
            raise Anchor("id(): arithmetic %s" % show(e))
        if k == "assignop" and show(e[2]) == "self.next_id" and e[1] in ("+", "-"):
            b = val(e[3])
            a = lin(state["next"])
            if not isinstance(b, int):
                raise Anchor("id(): increment by a non-constant")
            r = (a[0], a[1] + (b if e[1] == "+" else -b))
            state["next"] = r if r[1] else r[0]
            return None
        if k == "assign" and show(e[1]) == "self.next_id":
            state["next"] = val(e[2])
            return None
        if k == "call" and (path_of(e[1]) or "").endswith("mem::replace") and len(e[2]) == 2 and show(e[2][0]) == "&mut self.next_id":
            new = val(e[2][1])
            old = state["next"]
            state["next"] = new
            return old
        if k == "call" and (path_of(e[1]) or "").endswith("mem::take"):
            raise Anchor("id(): mem::take resets the counter")
        raise Anchor("id(): unrecognised expression %s" % show(e)[:80])
    r = None
    for s_ in f["body"][1]:
        if s_[0] == "local" and s_[1][0] == "p_ident" and s_[3] is not None:
            env[s_[1][1]] = val(s_[3])
            r = None
        elif s_[0] == "expr":
            r = val(s_[1])
            if s_[2]:
                r = None
        else:
            raise Anchor("id(): statement")
    return (r, state["next"])


def module_bound_eval(ctx, f):
    """Builder::module() evaluated on a builder whose counter holds a witness value, once without a header and once with a header whose
    bound is a different value: the returned module's header must exist and carry the counter as its bound, other header fields kept"""
    import copy
    from . import evalsum, progx
    from ..symeval import Panic as SPanic
    NEXT, STALE = 0x5A17, 0x33
    why = []
    for had in (False, True):
        b = evalsum.fresh_builder(ctx, "none")
        b[2]["next_id"] = NEXT
        if had:
            hf = ctx.rspirv.fn("rspirv::dr::constructs", "new", "ModuleHeader", False)
            hh = evalsum.BH(ctx)
            hh.self_ty = "ModuleHeader"
            hv = progx.make(hh, "ModuleHeader::new").run(hf, {[q[0] for q in hf["sig"]["params"]][0]: STALE})
            if not (isinstance(hv, tuple) and hv and hv[0] == "struct" and "bound" in hv[2]):
                raise Anchor("ModuleHeader::new does not yield a struct with a bound field: %r" % (hv,))
            hv[2]["version"] = ("sym", "EXISTING_VERSION")
            b[2]["module"][2]["header"] = ("some", hv)
        h = evalsum.BH(ctx)
        try:
            r = progx.make(h, "Builder::module").run(f, {"self": b})
        except SPanic as x:
            why.append("%s a header: panics (%s)" % ("with" if had else "without", x))
            continue
        hd = r[2].get("header") if isinstance(r, tuple) and r and r[0] == "struct" else None
        if not (isinstance(hd, tuple) and hd and hd[0] == "some" and isinstance(hd[1], tuple) and hd[1][0] == "struct"):
            why.append("%s a header: the result has header %r" % ("with" if had else "without", hd))
            continue
        if hd[1][2].get("bound") != NEXT:
            why.append("%s a header: bound is %r, the counter is %#x" % ("with" if had else "without", hd[1][2].get("bound"), NEXT))
        if had and hd[1][2].get("version") != ("sym", "EXISTING_VERSION"):
            why.append("with a header: the header's other fields are not kept")
    return not why, "; ".join(why)


