"""C18 Lifting preserves module structure on the supported subset."""
import re

from ..core import Anchor
from ..model import core_row, op_values
from ..tree import int_of, is_node, path_of, show, show_stmt, sites, unblock, walk
from . import builder, codec

EXPLANATION = (
    "Positional mapping: every numeric arm of the generated lift_* functions is read as (opcode number, constructed variant, "
    "ordered list of field := operand-pattern with its optionality) and compared with spirv::Op's discriminants, the opcode's "
    "grammar row (kinds through the parser's kind->variant table, quantifiers), the declaration order of the sr variant's fields "
    "and the Builder's parameter names for the same opcode - Rust evaluates struct-literal fields in source order, so the n-th "
    "written field receives the n-th operand. Walk shape of LiftContext::convert by the path conditions of each append/push site. "
    "That lifting succeeds (the lifter panics by design on unsupported input) and equality of lifted values are not decided.")
EXHAUSTIVE = False     # the abstract inputs are a stated finite scope, not the whole input space

LIFT = "rspirv::lift"


def field_reading(e):
    """-> (variants [K..], quant, n_next)"""
    t = show(e)
    n_next = len(re.findall(r"operands\.next\(\)", t))
    ks = []
    for x in walk(e):
        if x[0] in ("p_ts",) and x[1].split("::")[-2:-1] == ["Operand"]:
            k = x[1].split("::")[-1]
            if k not in ks or True:
                ks.append(k)
    # de-duplicate consecutive repeats produced by Some(K)/Some(&K) alternatives in one match
    quant = "ZeroOrMore" if "while let" in t or "while " in t else ("One" if ".ok_or(OperandError::Missing)?" in t else "ZeroOrOne")
    return ks, quant, n_next


def arms_of(f):
    """yield (numbers, variant path, [(field, expr)], kind) for every lifted opcode of a lift_* function"""
    out = []
    for n in walk(f["body"]):
        if n[0] == "match" and show(n[1]) in ("(raw.class.opcode as u32)", "raw.class.opcode as u32"):
            for pat, guard, body in n[2]:
                nums = []
                for p in (pat[1] if pat[0] == "p_or" else [pat]):
                    v = int_of(p) if p[0] == "p_lit" else None
                    if v is not None:
                        nums.append(v)
                if not nums:
                    continue
                b = unblock(body)
                if b[0] == "call" and path_of(b[1]) == "Ok" and len(b[2]) == 1:
                    c = unblock(b[2][0])
                    if c[0] == "struct":
                        out.append((nums, c[1], [(fl, ex) for fl, ex in c[2]], "struct"))
                    elif c[0] == "path":
                        out.append((nums, c[1], [], "unit"))
                    else:
                        out.append((nums, show(c)[:60], None, "other"))
                else:
                    out.append((nums, show(b)[:60], None, "other"))
    return out


def single_of(f):
    """lift_x with `if raw.class.opcode as u32 != N { return Err(WrongOpcode) }` then Ok(Struct {..})"""
    num = None
    for n in walk(f["body"]):
        if n[0] == "binary" and n[1] == "!=" and "raw.class.opcode" in show(n[2]):
            num = int_of(n[3])
    st = [n for n in walk(f["body"]) if n[0] == "struct"]
    if num is not None and st:
        return [([num], st[0][1], [(fl, ex) for fl, ex in st[0][2]], "struct")]
    return []


def sr_fields(ctx):
    """(enum, variant) -> [field names] for the sr enums"""
    out = {}
    for mod in ("rspirv::sr::autogen_ops", "rspirv::sr::types", "rspirv::sr::autogen_instructions"):
        try:
            items = ctx.rspirv.items(mod)
        except Anchor:
            continue
        for it in items:
            if it["kind"] == "enum":
                for v in it["variants"]:
                    out[(it["name"], v["name"])] = [f[0] for f in v["fields"]] if v["named"] else []
            elif it["kind"] == "struct":
                out[("struct", it["name"])] = [f[0] for f in it["fields"]] if it["named"] else []
    return out


def run(ctx, chk):
    raw = ctx.raw
    ops, _ = op_values(ctx)
    byval = {v: k for k, v in ops.items()}
    pt = codec.parse_operand_table(ctx)
    srf = sr_fields(ctx)
    bm = {}
    for m in builder.methods(ctx):
        if m["emits"] and m["opcode"] and not m["name"].startswith("insert_") and not m["problems"]:
            bm.setdefault(m["opcode"], m)
    W = "rspirv/lift/autogen_context.rs"

    R1 = chk.rule("R-LIFT-1", "every lift arm: the number is the discriminant of an opcode; the constructed variant is named after it "
                  "(Type::X for OpTypeX); fields are written in the sr variant's declaration order; the n-th field consumes the n-th "
                  "operand with the variant pattern and optionality of the n-th operand of the opcode's grammar row; field names "
                  "agree with the Builder's parameter names")
    narms = 0
    nfields = 0
    for f in ctx.rspirv.fns(LIFT, "LiftContext", False):
        if not f["name"].startswith("lift_") or f["name"] in ("lift_constant",):
            continue
        arms = arms_of(f) or single_of(f)
        for nums, vpath, fields, kind in arms:
            for num in nums:
                narms += 1
                op = byval.get(num)
                inst = "%s[%su32]" % (f["name"], num)
                if op is None:
                    chk.bad(R1, inst, "%d is not the number of any opcode" % num, W)
                    continue
                vname = vpath.split("::")[-1]
                en = vpath.split("::")[-2] if "::" in vpath else "struct"
                want_names = {op, op[len("Type"):] if op.startswith("Type") and en == "Type" else op}
                if kind == "other" or vname not in want_names:
                    chk.bad(R1, inst, "arm for %d (Op%s) constructs %s" % (num, op, vpath), W, key="C18:arm-name:%s" % op)
                    continue
                row = core_row(ctx, op)
                if row is None:
                    chk.bad(R1, inst, "no grammar row for Op%s" % op, W)
                    continue
                gops = [(k, q) for k, q in row["operands"] if k not in ("IdResultType", "IdResult")]
                if kind == "unit":
                    chk.check(R1, not gops or f["name"] in ("lift_branch",) and not gops, inst, "unit variant for Op%s whose row has operands %s" % (op, gops), W)
                    continue
                decl = srf.get((en, vname)) or srf.get(("struct", vname))
                names = [fl for fl, _ in fields]
                problems = []
                if decl is not None and names != decl:
                    problems.append("fields written as %s but declared as %s (operands are consumed in written order)" % (names, decl))
                if len(fields) != len(gops):
                    problems.append("%d fields for %d grammar operands %s" % (len(fields), len(gops), gops))
                else:
                    for (fl, ex), (k, q) in zip(fields, gops):
                        nfields += 1
                        ks, quant, nn = field_reading(ex)
                        e = pt.get(k)
                        if k == "PairLiteralIntegerIdRef":
                            wantv = None
                        elif k in ("LiteralContextDependentNumber",):
                            wantv = None
                        elif k == "LiteralSpecConstantOpInteger":
                            wantv = ["LiteralSpecConstantOpInteger"]
                        elif e is None or e.get("panic"):
                            wantv = None
                        else:
                            wantv = [v for v, _ in e["ops"]]
                        uniq = []
                        for x in ks:
                            if x not in uniq:
                                uniq.append(x)
                        parameterised = bool(e) and not e.get("panic") and bool(e.get("args"))
                        if wantv is not None and parameterised and uniq[:1] == wantv[:1]:
                            pass   # the parameterised kind's value followed by its (id) parameters
                        elif wantv is not None and not (uniq == wantv or ks == wantv or (len(wantv) == 2 and wantv[0] == wantv[1] and uniq == wantv[:1])):
                            problems.append("field %s matches Operand::%s but operand kind %s is parsed as %s" % (fl, uniq, k, wantv))
                        if quant != q:
                            problems.append("field %s is read as %s but the grammar says %s" % (fl, quant, q))
                        if nn < 1:
                            problems.append("field %s consumes no operand" % fl)
                b = bm.get(op)
                if b is not None and not problems:
                    bn = [s[2].split(".")[0] for s in b["slots"] if s[0] != "additional"]
                    san = lambda x: x.rstrip("_").replace("r#", "")
                    generated = bool(b["file"]) and "autogen" in b["file"]
                    if generated and sorted(san(x) for x in bn) == sorted(san(x) for x in names) and [san(x) for x in bn] != [san(x) for x in names]:
                        problems.append("field names %s differ from the Builder's parameter names %s for the same opcode" % (names, bn))
                chk.check(R1, not problems, inst, "Op%s: %s" % (op, "; ".join(problems)), W, key="C18:arm:%s:%s" % (f["name"], op),
                          sample={"opcode": op, "fields": names} if op in ("IAdd", "Load") else None)
    chk.floor(R1, "lift arms", narms, 758)
    chk.floor(R1, "lifted fields", nfields, 1500)

    R2 = chk.rule("R-LIFT-2", "LiftContext::convert: one types.append_id per successful lift_type with a result id, one constants.append_id "
                  "per successful lift_constant, one ops.append per result-producing non-phi non-line block instruction, every phi pushes "
                  "its result type token to the block arguments, terminator from the block's last instruction, function control/result "
                  "from the def, version from the header, capabilities mapped in order, memory model lifted")
    f = ctx.rspirv.fn(LIFT, "convert", "LiftContext", False)
    WC = raw.where("convert", "LiftContext", "lift/mod.rs")

    from . import liftx
    try:
        r, h = liftx.convert(ctx)
    except Anchor as ex:
        chk.bad(R2, "convert", "LiftContext::convert is not analysable: %s" % ex, WC, key="C18:convert-shape")
        r, h = None, None
    if r is not None and isinstance(r, tuple) and r and r[0] == "panic":
        chk.bad(R2, "convert:declared-before-use", "on the abstract declared-before-use module the walk panics: %s" % r[1], WC, key="C18:convert:panic")
    elif r is not None:
        want_ev = liftx.expected()
        def _anon(v):
            # the name of the private record that pairs an op token with its type is the code's own business
            if isinstance(v, tuple) and len(v) == 3 and v[0] == "struct" and isinstance(v[2], dict) and set(v[2]) == {"op", "ty"}:
                return ("struct", "OpInfo", v[2])
            return v
        got_ev = [tuple(_anon(x) for x in ev_) for ev_ in h.events]
        names = ["type with result id -> types.append_id", "constant with result id -> constants.append_id",
                 "type referring to an earlier type and constant -> types.append_id after both", "function type -> types.append_id", "function definition lifted",
                 "result-producing non-phi instruction -> ops.append", "op info (token, type of the result type)", "block appended with phi argument types and the last instruction as terminator",
                 "result-producing instruction of the second block -> ops.append", "its op info", "OpUndef in the second block -> ops.append", "its op info", "second block appended without arguments (it has no phi)",
                 "second function definition lifted", "its block appended to a new block storage"]
        for k, (nm, w) in enumerate(zip(names, want_ev)):
            g = got_ev[k] if k < len(got_ev) else None
            chk.check(R2, g == w, "convert:event %d (%s)" % (k, nm), "on the abstract module the walk performs %s, expected %s" % (str(g)[:220], str(w)[:220]), WC,
                      key="C18:convert:event%d" % k, sample=str(w)[:200] if k == 7 else None)
        chk.check(R2, len(got_ev) == len(want_ev), "convert:no-other-effects", "the walk performs %d storage effects, expected %d: %s" % (len(got_ev), len(want_ev), [e_[:3] for e_ in got_ev]), WC,
                  key="C18:convert:extra")
        ok = isinstance(r, tuple) and r[0] == "ok" and isinstance(r[1], tuple) and r[1][0] == "struct" and r[1][1] == "Module"
        m = r[1][2] if ok else {}
        tok = lambda st, i_: ("token", st, i_)
        chk.check(R2, ok and m.get("version") == ("sym", "VERSION"), "convert:version=header.version", "version is %s" % (m.get("version"),), WC)
        chk.check(R2, ok and m.get("capabilities") == ("list", [("capability_of", "CAP0"), ("capability_of", "CAP1"), ("capability_of", "CAP0")]), "convert:capabilities-in-order",
                  "capabilities are %s" % (m.get("capabilities"),), WC)
        chk.check(R2, ok and m.get("memory_model") == ("lifted_memory_model", "MM"), "convert:memory-model", "memory model is %s" % (m.get("memory_model"),), WC)
        st_ok = ok and all(isinstance(m.get(k_), tuple) and m[k_][:2] == ("contents", k_) for k_ in ("types", "constants", "ops"))
        chk.check(R2, st_ok, "convert:storages-handed-over", "types/constants/ops are %s" % [m.get(k_) for k_ in ("types", "constants", "ops")], WC)
        fs = m.get("functions")
        f_ok = ok and isinstance(fs, tuple) and fs[0] == "list" and len(fs[1]) == 2 and all(x[0] == "struct" and x[1] == "Function" for x in fs[1])
        ff = fs[1][0][2] if f_ok else {}
        chk.check(R2, f_ok and ff.get("control") == ("sym", "FUNCTION_CONTROL") and ff.get("result") == tok("types", ("rt", "DEF")) and
                  isinstance(ff.get("blocks"), tuple) and ff["blocks"][:2] == ("contents", "blocks") and ff.get("start_block") == tok("blocks", ("id", "LABEL")),
                  "convert:function-record", "function record is %s" % str(ff)[:300], WC)
        f2 = fs[1][1][2] if f_ok else {}
        b2 = f2.get("blocks")
        s2 = f2.get("start_block")
        chk.check(R2, f_ok and f2.get("result") == tok("types", ("rt", "DEF2")) and isinstance(b2, tuple) and b2[0] == "contents" and b2[1] != "blocks"
                  and isinstance(s2, tuple) and s2[0] == "token" and s2[1] == b2[1] and s2[2] == ("id", "LABEL3"),
                  "convert:second-function-record", "second function record is %s (expected: its own result type, the blocks appended after the first function "
                  "was finished, starting at its own first block)" % str(f2)[:300], WC)
    # LiftStorage: the id -> token map the walk above relies on, evaluated on a real value over bounded histories (shared with C19)
    from . import c19
    c19.lift_histories(ctx, chk, raw)
    chk.analysed.update({"lift_arms": narms, "lifted_fields": nfields})


def walk_stmts(b):
    for n in walk(b):
        if n[0] == "block":
            for s in n[1]:
                yield s
