"""Symbolic evaluation of Parser::parse_literal and TypeTracker::track (shared by C10, C02, C01)."""
from ..core import Anchor
from ..symeval import SymEval, Hooks, NONE, UNIT, Panic as SPanic
from ..tree import int_of, walk

PAR = "rspirv::binary::parser"
TRK = "rspirv::binary::tracker"


class LitHooks(Hooks):
    def __init__(self, tracked):
        self.tracked = tracked

    def path(self, p):
        if p == "self":
            return ("self",)
        return NotImplemented

    def field(self, base, name, e):
        if base == ("self",):
            return ("selffield", name)
        return NotImplemented

    def mcall(self, recv, m, args, e, ev):
        if recv == ("selffield", "type_tracker") and m == "resolve" and len(args) == 1:
            return self.tracked
        if recv == ("selffield", "decoder"):
            if m == "offset":
                return ("sym", "offset")
            return ("ok", ("decoded", m))
        return NotImplemented

    def type_of(self, v):
        # what a decoder request returns has the type its signature says (`Result<u32>` -> u32)
        if isinstance(v, tuple) and len(v) == 2 and v[0] == "decoded":
            from .. import symeval
            ctx = symeval.DEFAULT_CTX
            try:
                f = ctx.rspirv.fn("rspirv::binary::decoder", v[1], "Decoder", False)
            except Anchor:
                return NotImplemented
            ret = (f["sig"].get("ret") or "").replace(" ", "")
            if ret.startswith("Result<") and ret.endswith(">"):
                return ret[len("Result<"):-1]
        return NotImplemented


def lit_eval(ctx, tracked):
    """-> ('ok', variant, decoder method) | ('err', variant, [args])"""
    f = ctx.rspirv.fn(PAR, "parse_literal", "Parser")
    tid = f["sig"]["params"][1][0]
    ev = SymEval(LitHooks(tracked), "parse_literal")
    r = ev.run(f, {tid: ("sym", "type_id")})
    if isinstance(r, tuple) and r[0] == "ok" and isinstance(r[1], tuple) and r[1][0] == "enum" and len(r[1][2]) == 1 \
            and isinstance(r[1][2][0], tuple) and r[1][2][0][0] == "decoded":
        return ("ok", r[1][1].split("::")[-1], r[1][2][0][1])
    if isinstance(r, tuple) and r[0] == "err" and isinstance(r[1], tuple) and r[1][0] == "enum":
        args = []
        for a in r[1][2]:
            args.append("self.decoder.offset()" if a == ("sym", "offset") else ("self.inst_index" if a == ("selffield", "inst_index") else str(a)))
        return ("err", r[1][1].split("::")[-1], args)
    raise Anchor("parse_literal: result is not Ok(Operand::V(self.decoder.m()?)) / Err(State::..): %r" % (r,))


def tracked_value(kind, w, signed):
    if kind == "none":
        return NONE
    if kind == "Integer":
        return ("some", ("enum", "Type::Integer", [w, bool(signed)]))
    return ("some", ("enum", "Type::Float", [w]))


def literal_ints(n):
    out = set()
    for x in walk(n):
        if x[0] == "p_lit":
            v = int_of(x)
            if v is not None:
                out.add(v)
        if x[0] == "p_range":
            for b in (x[1], x[2]):
                if b is not None and int_of(b) is not None:
                    out.add(int_of(b))
        if x[0] == "lit" and x[1] == "int":
            out.add(int(x[2]))
    return out


def literal_ints_of(ctx):
    f = ctx.rspirv.fn(PAR, "parse_literal", "Parser")
    return {v for v in literal_ints(f["body"]) if v < 2 ** 16} | {8, 16, 32, 64}


def literal_results(ctx):
    """all (variant, decoder method) pairs parse_literal can produce (Anchor if a result is not Operand::V(self.decoder.m()?))"""
    out = set()
    for kind in ("none", "Integer", "Float"):
        for w in ([None] if kind == "none" else sorted(literal_ints_of(ctx))):
            r = lit_eval(ctx, tracked_value(kind, w, True))
            if r[0] == "ok":
                out.add((r[1], r[2]))
    return out


class TrackHooks(Hooks):
    """abstract instruction for TypeTracker::track"""

    def __init__(self, ctx, rid, opcode, operands, rtype, resolvable):
        from ..model import predeval
        self.pe = predeval(ctx)
        self.rid, self.opcode, self.operands, self.rtype, self.resolvable = rid, opcode, operands, rtype, resolvable
        self.inserts = []

    def path(self, p):
        if p == "self":
            return ("self",)
        o = self.pe.resolve_op(p)
        if o is not None:
            return ("enum", "Op::" + o, [])
        return NotImplemented

    def field(self, base, name, e):
        if base == ("inst",):
            if name == "result_id":
                return ("some", ("sym", "RID")) if self.rid else NONE
            if name == "result_type":
                return ("some", ("sym", "RTYPE")) if self.rtype else NONE
            if name == "operands":
                return ("list", self.operands)
            if name == "class":
                return ("class",)
        if base == ("class",) and name == "opcode":
            return ("enum", "Op::" + self.opcode, [])
        if base == ("self",) and name == "types":
            return ("typesmap",)
        return NotImplemented

    def index(self, base, idx, e):
        if isinstance(base, tuple) and base[0] == "list" and isinstance(idx, int):
            if idx >= len(base[1]):
                raise SPanic("operands[%d] out of range" % idx)
            return base[1][idx]
        return NotImplemented

    def call(self, p, args, e):
        n = p.split("::")[-1]
        if n in self.pe.fns and len(args) == 1 and isinstance(args[0], tuple) and args[0][0] == "enum":
            return args[0][1].split("::")[-1] in self.pe.predicate(n)
        return NotImplemented

    def binary(self, op, a, b, e):
        if op in ("==", "!=") and isinstance(a, tuple) and isinstance(b, tuple) and a[0] == "enum" and b[0] == "enum":
            return (a[1].split("::")[-1] == b[1].split("::")[-1] and a[2] == b[2]) == (op == "==")
        return NotImplemented

    def mcall(self, recv, m, args, e, ev):
        if recv == ("typesmap",) and m == "insert" and len(args) == 2:
            self.inserts.append((args[0], args[1]))
            return NONE
        if recv == ("typesmap",) and m == "extend" and len(args) == 1:
            a0 = args[0]
            pairs = [] if a0 == NONE else [a0[1]] if (isinstance(a0, tuple) and a0[0] == "some") else list(a0[1]) if (isinstance(a0, tuple) and a0[0] == "list") else None
            if pairs is None or not all(isinstance(x, tuple) and x and x[0] == "tuple" and len(x[1]) == 2 for x in pairs):
                return NotImplemented
            for x in pairs:
                self.inserts.append((x[1][0], x[1][1]))
            return ("unit",)
        if (recv == ("typesmap",) and m == "get") or (recv == ("self",) and m == "resolve"):
            if len(args) == 1:
                return ("some", ("sym", "RESOLVED")) if (args[0] == ("sym", "RTYPE") and self.resolvable) else NONE
        if isinstance(recv, tuple) and recv[0] == "list":
            if m == "first":
                return ("some", recv[1][0]) if recv[1] else NONE
            if m == "is_empty":
                return not recv[1]
            if m == "len":
                return len(recv[1])
            if m == "get" and len(args) == 1 and isinstance(args[0], int):
                return ("some", recv[1][args[0]]) if args[0] < len(recv[1]) else NONE
        return NotImplemented

    def match_path(self, v, path):
        o = self.pe.resolve_op(path)
        if o is not None and isinstance(v, tuple) and v[0] == "enum":
            return v[1] == "Op::" + o
        return NotImplemented


def track_eval(ctx, rid, opcode, operands, rtype, resolvable):
    f = ctx.rspirv.fn(TRK, "track", "TypeTracker")
    h = TrackHooks(ctx, rid, opcode, operands, rtype, resolvable)
    ev = SymEval(h, "TypeTracker::track")
    ip = f["sig"]["params"][1][0]
    try:
        ev.run(f, {ip: ("inst",)})
    except SPanic as x:
        return ("panic", str(x))
    return ("ok", h.inserts)
