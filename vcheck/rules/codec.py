"""Shared extraction of the binary codec tables (decoder methods, parse_operand, parse_*_arguments, assembler arms)."""
from ..core import Anchor
from ..tree import int_of, is_node, lastseg, path_of, show, strip_refs, unblock, walk

DEC = "rspirv::binary::decoder"
PAR = "rspirv::binary::parser"
ASM = "rspirv::binary::assemble"


def consts_of(ctx, mod):
    """integer constants visible by name in `mod`: its own, and (imported ones) those whose name has one value in the whole crate"""
    from ..symeval import _const_items
    out = {}
    for name, items in ctx.memo("const_items", lambda: _const_items(ctx)).items():
        vals = {int_of(x["init"]) for x in items}
        if len(vals) == 1 and None not in vals:
            out[name] = vals.pop()
    out.update({c["name"]: int_of(c["init"]) for c in ctx.rspirv.items(mod, "const") if int_of(c["init"]) is not None})
    return out


def is_self_field(n, field):
    return is_node(n) and n[0] == "field" and path_of(n[1]) == "self" and n[2] == field


def is_offset_minus_word(n, consts):
    """self.offset - 4 (constant names resolved)"""
    if not (is_node(n) and n[0] == "binary" and n[1] == "-" and is_self_field(n[2], "offset")):
        return False
    v = int_of(n[3])
    if v is None and path_of(n[3]) in consts:
        v = consts[path_of(n[3])]
    return v == 4


def _single_expr(f):
    st = f["body"][1]
    if len(st) == 1 and st[0][0] == "expr":
        return st[0][1]
    return None


def decoder_methods(ctx):
    def build():
        consts = consts_of(ctx, DEC)
        out = {}
        for f in ctx.rspirv.fns(DEC, "Decoder"):
            name = f["name"]
            d = {"name": name, "ret": f["sig"]["ret"], "vis": f["vis"], "cls": "other", "problems": [], "ty": None, "via": None,
                 "err": None, "fn": f}
            e = _single_expr(f)
            # self.word()
            if e is not None and e[0] == "mcall" and path_of(e[1]) == "self" and e[2] == "word" and not e[3]:
                d["cls"] = "word"
            elif (e is not None and e[0] == "if" and is_node(e[1]) and e[1][0] == "let" and e[3] is not None):
                # if let Ok(word) = self.word() { T::from_x(word).ok_or(Error::TUnknown(self.offset - 4, word)) } else { Err(StreamExpected(self.offset)) }
                pat, scr = e[1][1], e[1][2]
                if (pat[0] == "p_ts" and pat[1] == "Ok" and len(pat[2]) == 1 and pat[2][0][0] == "p_ident"
                        and scr[0] == "mcall" and path_of(scr[1]) == "self" and scr[2] == "word"):
                    w = pat[2][0][1]
                    then = e[2][1]
                    t = then[0][1] if len(then) == 1 and then[0][0] == "expr" else None
                    if t is not None and t[0] == "mcall" and t[2] == "ok_or" and len(t[3]) == 1:
                        conv, err = t[1], t[3][0]
                        if conv[0] == "call" and len(conv[2]) == 1 and path_of(conv[2][0]) == w:
                            p = path_of(conv[1]) or ""
                            segs = p.split("::")
                            d["ty"] = segs[-2] if len(segs) >= 2 else None
                            d["via"] = segs[-1]
                            d["cls"] = "mask" if segs[-1].startswith("from_bits") else "enum"
                        else:
                            d["problems"].append("conversion is not T::from_x(word): %s" % show(conv))
                        if err[0] == "call" and len(err[2]) == 2:
                            d["err"] = lastseg(path_of(err[1]) or "?")
                            if not is_offset_minus_word(err[2][0], consts):
                                d["problems"].append("error offset is %s, not self.offset - 4" % show(err[2][0]))
                            if path_of(err[2][1]) != w:
                                d["problems"].append("error payload is %s, not the undecodable word" % show(err[2][1]))
                        else:
                            d["problems"].append("error value shape: %s" % show(err))
                        els = e[3]
                        eb = els[1][0][1] if els[0] == "block" and len(els[1]) == 1 and els[1][0][0] == "expr" else None
                        if not (eb is not None and eb[0] == "call" and path_of(eb[1]) == "Err" and eb[2][0][0] == "call"
                                and lastseg(path_of(eb[2][0][1]) or "") == "StreamExpected" and is_self_field(eb[2][0][2][0], "offset")):
                            d["problems"].append("else branch is not Err(StreamExpected(self.offset))")
                        if d["ty"] and d["err"] != d["ty"] + "Unknown":
                            d["problems"].append("error variant %s is not %sUnknown" % (d["err"], d["ty"]))
                    else:
                        d["problems"].append("then branch shape: %s" % show(e[2])[:100])
            elif name == "bit64":
                d["cls"] = "word2"
            elif name == "string":
                d["cls"] = "string"
            if d["cls"] == "other":
                # record any conversion call for the report
                for x in walk(f["body"]):
                    if x[0] == "call":
                        segs = (path_of(x[1]) or "").split("::")
                        if len(segs) >= 2 and segs[-1].startswith("from_") and segs[-2][:1].isupper():
                            d["ty"], d["via"] = segs[-2], segs[-1]
            out[name] = d
        return out
    return ctx.memo("decoder_methods", build)


def _variant_method(n):
    """dr::Operand::V(self.decoder.m()?) -> (V, m)"""
    if is_node(n) and n[0] == "call" and len(n[2]) == 1:
        p = path_of(n[1]) or ""
        segs = p.split("::")
        if len(segs) >= 2 and segs[-2] == "Operand":
            a = n[2][0]
            if a[0] == "try":
                a = a[1]
                if a[0] == "mcall" and not a[3] and is_self_field(a[1], "decoder"):
                    return (segs[-1], a[2])
            if a[0] == "path":
                return (segs[-1], "=" + a[1])
    return None


def parse_operand_table(ctx):
    """kind -> {"ops": [(variant, method)], "args": fn-name|None} | {"panic": True}"""
    def build():
        f = ctx.rspirv.fn(PAR, "parse_operand", "Parser")
        e = _single_expr(f)
        if e is None:
            raise Anchor("parse_operand body is not a single expression")
        if e[0] == "call" and path_of(e[1]) == "Ok":
            e = e[2][0]
        if e[0] != "match":
            raise Anchor("parse_operand is not a match")
        kparam = f["sig"]["params"][1][0]
        if path_of(e[1]) != kparam:
            raise Anchor("parse_operand does not match on its kind parameter")
        out = {}
        for pat, guard, body in e[2]:
            if guard is not None:
                raise Anchor("guarded arm in parse_operand")
            pats = pat[1] if pat[0] == "p_or" else [pat]
            for p in pats:
                pp = path_of(p)
                if pp is None or len(pp.split("::")) < 2:
                    raise Anchor("parse_operand arm pattern %s is not an operand kind" % show(p))
                kind = pp.split("::")[-1]
                if kind in out:
                    raise Anchor("parse_operand has two arms for %s" % kind)
                out[kind] = _parse_arm(body)
        return out
    return ctx.memo("parse_operand_table", build)


def _is_panic(n):
    for x in walk(n):
        if x[0] == "call" and (path_of(x[1]) or "").split("::")[-1] in ("panic", "panic_fmt", "panic_explicit", "begin_panic", "unreachable_display", "panic_display"):
            return True
        if x[0] == "macro" and x[1] in ("panic", "unreachable", "todo", "unimplemented"):
            return True
    return False


def _parse_arm(body):
    body = unblock(body)
    if body[0] == "vec":
        ops = [_variant_method(x) for x in body[1]]
        if all(ops):
            return {"ops": ops, "args": None}
        raise Anchor("parse_operand arm has an element that is not Operand::V(self.decoder.m()?): %s" % show(body)[:120])
    if _is_panic(body):
        return {"panic": True}
    if body[0] == "block":
        st = body[1]
        # let val = self.decoder.m()?; let mut ops = vec![Operand::V(val)]; ops.append(&mut self.parse_x_arguments(val)?); ops
        if len(st) == 4 and st[0][0] == "local" and st[1][0] == "local" and st[2][0] == "expr" and st[3][0] == "expr":
            val = st[0][1][1] if st[0][1][0] == "p_ident" else None
            init = st[0][3]
            m = None
            if init[0] == "try" and init[1][0] == "mcall" and is_self_field(init[1][1], "decoder") and not init[1][3]:
                m = init[1][2]
            v = st[1][3]
            var = None
            if v[0] == "vec" and len(v[1]) == 1:
                vm = _variant_method(v[1][0])
                if vm and vm[1] == "=" + str(val):
                    var = vm[0]
            ap = st[2][1]
            argfn = None
            opsname = st[1][1][1] if st[1][1][0] == "p_ident" else None
            if ap[0] == "mcall" and ap[2] == "append" and path_of(ap[1]) == opsname and len(ap[3]) == 1:
                a = strip_refs(ap[3][0])
                if a[0] == "try" and a[1][0] == "mcall" and path_of(a[1][1]) == "self" and len(a[1][3]) == 1 and path_of(a[1][3][0]) == val:
                    argfn = a[1][2]
            if m and var and argfn and path_of(st[3][1]) == opsname:
                return {"ops": [(var, m)], "args": argfn}
    raise Anchor("unrecognised parse_operand arm: %s" % show(body)[:160])


def parse_arguments(ctx):
    """fn name -> {"param_ty": T, "style": "mask"|"enum", "entries": [(name, [(variant, method)])]}"""
    def build():
        out = {}
        for f in ctx.rspirv.fns(PAR, "Parser"):
            n = f["name"]
            if not (n.startswith("parse_") and n.endswith("_arguments")):
                continue
            pname, pty = f["sig"]["params"][1]
            ty = pty.split("::")[-1]
            st = f["body"][1]
            ent = []
            if len(st) == 1 and st[0][0] == "expr":
                e = st[0][1]
                if e[0] == "call" and path_of(e[1]) == "Ok":
                    e = e[2][0]
                if e[0] != "match" or path_of(e[1]) != pname:
                    raise Anchor("%s is not a match on its argument" % n)
                for pat, guard, body in e[2]:
                    if guard is not None:
                        raise Anchor("guarded arm in %s" % n)
                    if pat[0] == "p_wild":
                        body = unblock(body)
                        if not (body[0] == "vec" and not body[1]):
                            raise Anchor("%s: fall-through arm yields operands: %s" % (n, show(body)[:80]))
                        continue
                    pats = pat[1] if pat[0] == "p_or" else [pat]
                    body = unblock(body)
                    if body[0] != "vec":
                        raise Anchor("%s: arm body is not a vec!: %s" % (n, show(body)[:80]))
                    ops = [_variant_method(x) for x in body[1]]
                    if not all(ops):
                        raise Anchor("%s: unrecognised operand element in %s" % (n, show(body)[:120]))
                    for p in pats:
                        pp = path_of(p) or ""
                        ent.append((pp.split("::")[-1], ops))
                out[n] = {"param_ty": ty, "style": "enum", "entries": ent}
            else:
                # let mut params = vec![]; if x.contains(T::F) { params.append(&mut vec![...]); } ... Ok(params)
                if not (st and st[0][0] == "local" and st[0][3] is not None and st[0][3][0] == "vec" and not st[0][3][1]):
                    raise Anchor("%s does not start with an empty parameter vector" % n)
                pv = st[0][1][1]
                for s in st[1:-1]:
                    if s[0] != "expr" or s[1][0] != "if" or s[1][3] is not None:
                        raise Anchor("%s: statement is not an if without else: %s" % (n, show(s[1])[:80]))
                    cond = s[1][1]
                    if not (cond[0] == "mcall" and cond[2] == "contains" and path_of(cond[1]) == pname and len(cond[3]) == 1):
                        raise Anchor("%s: condition is not %s.contains(FLAG): %s" % (n, pname, show(cond)))
                    flag = (path_of(cond[3][0]) or "?").split("::")[-1]
                    blk = s[1][2][1]
                    ops = []
                    for b in blk:
                        x = b[1]
                        if not (b[0] == "expr" and x[0] == "mcall" and x[2] == "append" and path_of(x[1]) == pv):
                            raise Anchor("%s: unrecognised statement under flag %s" % (n, flag))
                        v = strip_refs(x[3][0])
                        if v[0] != "vec":
                            raise Anchor("%s: append of a non-vec under %s" % (n, flag))
                        o = [_variant_method(y) for y in v[1]]
                        if not all(o):
                            raise Anchor("%s: unrecognised operand element under %s" % (n, flag))
                        ops += o
                    ent.append((flag, ops))
                last = st[-1]
                if not (last[0] == "expr" and last[1][0] == "call" and path_of(last[1][1]) == "Ok" and path_of(last[1][2][0]) == pv):
                    raise Anchor("%s does not end with Ok(%s)" % (n, pv))
                out[n] = {"param_ty": ty, "style": "mask", "entries": ent}
        return out
    return ctx.memo("parse_arguments", build)


def assemble_table(ctx):
    """Operand variant -> encoding class: 'enum' (v as u32), 'mask' (v.bits()), 'word' (push v), 'word2' ([lo, hi]), 'string';
    by symbolic evaluation of Assemble for Operand on each variant (robust to how the match is written)"""
    def build():
        from . import asmx
        from ..symeval import Panic as SPanic
        e = ctx.rspirv.item("rspirv::dr::constructs", "enum", "Operand")
        out = {}
        for v in e["variants"]:
            try:
                out[v["name"]] = asmx.operand_class(ctx, v["name"])
            except Anchor as ex:
                out[v["name"]] = ("bad", "not analysable: %s" % ex)
            except SPanic as ex:
                out[v["name"]] = ("bad", "panics: %s" % ex)
            if out[v["name"]][0] == "other":
                out[v["name"]] = ("bad", "emits %s" % (out[v["name"]][1],))
        return out
    return ctx.memo("assemble_table", build)


def _asm_class(body, res, v):
    if body[0] == "block" and len(body[1]) == 1:
        body = body[1][0][1]
    if body[0] == "mcall" and path_of(body[1]) == res and body[2] == "push" and len(body[3]) == 1:
        a = body[3][0]
        if path_of(a) == v:
            return ("word", None)
        if a[0] == "cast" and path_of(a[1]) == v and a[2] == "u32":
            return ("enum", None)
        if a[0] == "mcall" and path_of(a[1]) == v and a[2] == "bits" and not a[3]:
            return ("mask", None)
        return ("bad", show(a))
    if body[0] == "mcall" and path_of(body[1]) == res and body[2] == "extend" and len(body[3]) == 1:
        a = body[3][0]
        if a[0] == "array" and len(a[1]) == 2:
            lo, hi = a[1]
            lo_ok = lo[0] == "cast" and path_of(lo[1]) == v and lo[2] == "u32"
            hi_ok = (hi[0] == "cast" and hi[2] == "u32" and hi[1][0] == "binary" and hi[1][1] == ">>" and path_of(hi[1][2]) == v
                     and int_of(hi[1][3]) == 32)
            if lo_ok and hi_ok:
                return ("word2", None)
            return ("bad", "64-bit literal is not emitted as [v as u32, (v >> 32) as u32]: %s" % show(a))
        return ("bad", show(a))
    if body[0] == "call" and (path_of(body[1]) or "") == "assemble_str" and len(body[2]) == 2 and path_of(body[2][1]) == res:
        if path_of(strip_refs(body[2][0])) == v:
            return ("string", None)
    return ("bad", show(body)[:100])
