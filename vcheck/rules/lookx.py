"""Symbolic evaluation of the grammar-table lookups (C09 R-TAB-2) and of the version packing functions (C06/C01)."""
from ..core import Anchor
from ..symeval import SymEval, Hooks, NONE, Panic as SPanic
from . import asmx

SYN = "rspirv::grammar::syntax"


def _lh_class():
    from . import progx

    class LH(progx.InlineHooks):
        """the table is an abstract list of rows; calls of sibling functions (`Self::iter()`, `Self::lookup_opcode(..)`) are inlined"""

        def __init__(self, ctx, sty, static, target, nrows=3):
            progx.InlineHooks.__init__(self, ctx)
            self.self_ty = sty
            self.static, self.target, self.nrows = static, target, nrows
            self.casts = set()

        def path(self, p):
            if p.split("::")[-1] == self.static:
                return ("list", [("row", i) for i in range(self.nrows)])
            return progx.InlineHooks.path(self, p)

        def field(self, base, name, e):
            if isinstance(base, tuple) and base[0] == "row" and name == "opcode":
                return ("key", base[1])
            return progx.InlineHooks.field(self, base, name, e)

        def cast(self, v, ty, e):
            if isinstance(v, tuple) and v[0] in ("key", "arg"):
                return ("as", v, ty.replace(" ", ""))
            return progx.InlineHooks.cast(self, v, ty, e)

        def call(self, p, args, e):
            segs = p.split("::")
            if len(segs) >= 2 and segs[-1] == "from" and len(args) == 1 and isinstance(args[0], tuple) and args[0] and args[0][0] in ("key", "arg", "as"):
                return ("as", args[0], segs[-2])          # a widening conversion is a cast to that type
            return progx.InlineHooks.call(self, p, args, e)

        def mcall(self, recv, m, args, e, ev):
            if m in ("into",) and not args and isinstance(recv, tuple) and recv and recv[0] in ("key", "arg", "as"):
                return recv
            if m == "binary_search_by_key" and len(args) == 2 and isinstance(recv, tuple) and recv[0] == "list" and all(
                    isinstance(x, tuple) and x and x[0] == "row" for x in recv[1]):
                # on a table sorted by the key (an obligation the caller of this evaluation adds): Ok(index of the row with that key) / Err(_)
                self.binary_search = True
                for i, row in enumerate(recv[1]):
                    k = ev.apply(args[1], [row])
                    if lh_binary(self, "==", k, args[0], e) is True:
                        return ("ok", i)
                return ("err", ("sym", "INSERTION_POINT"))
            return progx.InlineHooks.mcall(self, recv, m, args, e, ev)

        def binary(self, op, a, b, e):
            r = lh_binary(self, op, a, b, e)
            if r is not NotImplemented:
                return r
            return progx.InlineHooks.binary(self, op, a, b, e)
    return LH


def lh_binary(self, op, a, b, e):
    if True:
        def strip(x):
            c = None
            while isinstance(x, tuple) and x[0] == "as":
                c = x[2] if c is None else c
                x = x[1]
            return x, c
        if op in ("==", "!="):
            (x, cx), (y, cy) = strip(a), strip(b)
            if isinstance(x, tuple) and isinstance(y, tuple) and {x[0], y[0]} == {"key", "arg"}:
                key, kc = (x, cx) if x[0] == "key" else (y, cy)
                ac = cy if x[0] == "key" else cx
                self.casts.add((kc, ac))
                return (key[1] == self.target) == (op == "==")
        return NotImplemented


def lookup(ctx, sty, fname, static, target):
    """evaluate <sty>::<fname> on an abstract 3-row table where the argument equals the key of row `target` (None: no row)"""
    f = ctx.rspirv.fn(SYN, fname, sty)
    from . import progx
    h = _lh_class()(ctx, sty, static, target)
    ev = progx.make(h, "%s::%s" % (sty, fname))
    try:
        r = ev.run(f, {f["sig"]["params"][0][0]: ("arg",)})
    except SPanic as x:
        return ("panic", str(x)), h
    return r, h


class VH(asmx.AH):
    def binary(self, op, a, b, e):
        wa = asmx.as_w32(a)
        if op == ">>" and wa is not None and isinstance(b, int) and b % 8 == 0 and b < 32:
            k = b // 8
            return asmx.w32(wa[1][k:] + [0] * k)
        if op == "&" and wa is not None and isinstance(b, int):
            return asmx.w32([x if (b >> (8 * i)) & 0xff == 0xff else (0 if (b >> (8 * i)) & 0xff == 0 else ("masked", x)) for i, x in enumerate(wa[1])])
        return asmx.AH.binary(self, op, a, b, e)

    def cast(self, v, ty, e):
        if ty == "u8" and isinstance(v, tuple) and v[0] == "w32":
            return v[1][0]
        if isinstance(v, tuple) and v[0] == "byte" and ty in ("u32", "Word", "spirv::Word"):
            return asmx.w32([v, 0, 0, 0])
        return asmx.AH.cast(self, v, ty, e)

    def call(self, p, args, e):
        if p.endswith("Word::from") or p.endswith("u32::from"):
            r = asmx.as_w32(args[0])
            if r is not None:
                return r
        if p.split("::")[-1] == "from_le_bytes" and len(args) == 1 and isinstance(args[0], tuple) and args[0][0] == "list" and len(args[0][1]) == 4:
            return asmx.w32(args[0][1])
        return asmx.AH.call(self, p, args, e)

    def mcall(self, recv, m, args, e, ev):
        if isinstance(recv, tuple) and recv[0] == "w32" and m == "to_le_bytes":
            return ("list", list(recv[1]))
        return asmx.AH.mcall(self, recv, m, args, e, ev)


def version_functions(ctx):
    """-> (word built from (major, minor), (major, minor) read from a word with byte lanes b0..b3)"""
    f1 = ctx.rspirv.fn("rspirv::utils::version", "create_word_from_version")
    f2 = ctx.rspirv.fn("rspirv::utils::version", "create_version_from_word")
    p1 = [p[0] for p in f1["sig"]["params"]]
    w = SymEval(VH(), "create_word_from_version").run(f1, {p1[0]: ("byte", "major"), p1[1]: ("byte", "minor")})
    lanes = [("byte", "b%d" % i) for i in range(4)]
    v = SymEval(VH(), "create_version_from_word").run(f2, {f2["sig"]["params"][0][0]: asmx.w32(lanes)})
    return asmx.as_w32(w) or w, v
