"""C08 spirv enums and bit-masks map numbers and names exactly as declared."""
from ..core import Anchor
from ..model import spirv_enums, spirv_masks
from ..tree import int_of, is_node, path_of, show, walk, mir_name, where, unblock
from .. import snapshot

EXPLANATION = (
    "Static decision of the enum half over all 2^32 numbers by interval reasoning on every from_u32 (R-ENUM-1), a census of "
    "every transmute/unsafe block of the spirv crate from the type-checked MIR (R-ENUM-2), table rules on every FromStr impl "
    "and alias constant (R-ENUM-3), the bitflags declarations as expanded by rustc (R-MASK), and equality of all names and "
    "numbers with the pinned grammar snapshot (R-KHR). No rspirv code is executed.")
EXHAUSTIVE = True


# ---- interval sets: sorted disjoint closed intervals

def iv_norm(ivs):
    ivs = sorted(i for i in ivs if i[0] <= i[1])
    out = []
    for a, b in ivs:
        if out and a <= out[-1][1] + 1:
            out[-1] = (out[-1][0], max(out[-1][1], b))
        else:
            out.append((a, b))
    return out


def iv_sub(a, b):
    out = []
    for x0, x1 in a:
        cur = x0
        for y0, y1 in b:
            if y1 < cur or y0 > x1:
                continue
            if y0 > cur:
                out.append((cur, y0 - 1))
            cur = max(cur, y1 + 1)
        if cur <= x1:
            out.append((cur, x1))
    return iv_norm(out)


def iv_size(a):
    return sum(y - x + 1 for x, y in a)


U32 = (0, 2 ** 32 - 1)


def pat_intervals(p):
    k = p[0]
    if k == "p_lit":
        v = int_of(p)
        if v is None:
            raise Anchor("non-integer literal pattern %s" % show(p))
        return [(v, v)]
    if k == "p_range":
        lo = int_of(p[1]) if p[1] is not None else 0
        hi = int_of(p[2]) if p[2] is not None else U32[1]
        if lo is None or hi is None:
            raise Anchor("range pattern with non-literal bound %s" % show(p))
        if not p[3] and p[2] is not None:
            hi -= 1
        return [(lo, hi)]
    if k == "p_or":
        out = []
        for c in p[1]:
            out += pat_intervals(c)
        return out
    if k == "p_wild" or (k == "p_ident" and p[4] is None):
        return [U32]
    raise Anchor("unrecognised pattern in from_u32: %s" % show(p))


def result_of(e, scrut, wrapped, ename):
    """-> ('none',) | ('transmute_n', target) | ('value', int_or_variant, target)"""
    k = e[0]
    if k == "block" and len(e[1]) == 1 and e[1][0][0] == "expr":
        return result_of(e[1][0][1], scrut, wrapped, ename)
    if k == "unsafe":
        return result_of(e[1], scrut, wrapped, ename)
    if k == "return":
        if e[1] is not None and path_of(e[1]) == "None":
            return ("none",)
        if e[1] is not None:
            return result_of(e[1], scrut, False, ename)
        raise Anchor("bare return in from_u32")
    if k == "path" and path_of(e) == "None" and not wrapped:
        return ("none",)
    if k == "call" and path_of(e[1]) == "Some" and not wrapped and len(e[2]) == 1:
        return result_of(e[2][0], scrut, True, ename)
    if not wrapped:
        raise Anchor("from_u32 arm yields a bare value outside Some(..): %s" % show(e)[:80])
    if k == "call" and (path_of(e[1]) or "").endswith("transmute") and len(e[2]) == 1:
        g = e[1][2] if len(e[1]) > 2 else None
        target = None
        if g:
            parts = [x.strip() for x in g.replace("::<", "<").strip("<>").split(",")]
            if len(parts) == 2:
                if parts[0] != "u32":
                    return ("bad", "transmute source type is %s, not u32" % parts[0])
                target = parts[1].split("::")[-1]
        arg = e[2][0]
        if path_of(arg) == scrut:
            return ("transmute_n", target)
        v = int_of(arg)
        if v is not None:
            return ("value", v, target)
        return ("bad", "transmute of an expression that is neither the argument nor a literal: %s" % show(arg))
    p = path_of(e)
    if p and (p.startswith("Self::") or p.startswith(ename + "::")):
        return ("variant", p.split("::")[-1])
    return ("bad", "unrecognised result expression %s" % show(e)[:80])


def eval_from_u32(f, ename):
    """-> list of (intervals, result) in first-match order."""
    params = f["sig"]["params"]
    if len(params) != 1:
        raise Anchor("%s::from_u32 does not take one argument" % ename)
    scrut = params[0][0]
    stmts = f["body"][1]
    if len(stmts) != 1 or stmts[0][0] != "expr":
        raise Anchor("%s::from_u32 body is not a single expression" % ename)
    e = stmts[0][1]
    wrapped = False
    if e[0] == "call" and path_of(e[1]) == "Some" and len(e[2]) == 1:
        wrapped = True
        e = e[2][0]
    if e[0] != "match" or path_of(e[1]) != scrut:
        raise Anchor("%s::from_u32 is not a match on its argument" % ename)
    seen = []
    out = []
    for pat, guard, body in e[2]:
        if guard is not None:
            raise Anchor("%s::from_u32 has a guarded arm" % ename)
        dom = iv_sub(iv_norm(pat_intervals(pat)), seen)
        seen = iv_norm(seen + dom)
        out.append((dom, result_of(body, scrut, wrapped, ename), show(pat)))
    if iv_size(seen) != 2 ** 32:
        raise Anchor("%s::from_u32 match is not total" % ename)
    return out


def rule_enum1(ctx, chk):
    enums = spirv_enums(ctx)
    raw = ctx.raw
    mir = ctx.mir("spirv")
    R1 = chk.rule("R-ENUM-1", "for every repr(u32) enum: discriminants explicit and unique; from_u32 interpreted as a piecewise "
                  "function over interval patterns returns Some(value n) exactly on the declared discriminants, by transmute of "
                  "the argument (or a literal/variant equal to the single matched value) to the enum itself, and None elsewhere")
    n_arms = 0
    for name, e in sorted(enums.items()):
        w = raw.where("from_u32", name, "spirv/")
        vals = {}
        ok = True
        if not any(a.replace(" ", "") == "repr(u32)" for a in e["attrs"]):
            chk.bad(R1, name + ":repr", "enum %s is not #[repr(u32)]" % name, w)
            ok = False
        for vn, vv, fields in e["variants"]:
            if fields:
                chk.bad(R1, "%s::%s:fieldless" % (name, vn), "variant carries fields", w)
                ok = False
            if vv is None:
                chk.bad(R1, "%s::%s:explicit" % (name, vn), "variant has no explicit literal discriminant", w)
                ok = False
            elif vv in vals:
                chk.bad(R1, "%s::%s:unique" % (name, vn), "discriminant %d also used by %s" % (vv, vals[vv]), w)
                ok = False
            else:
                vals[vv] = vn
        # E2 cross-check of discriminants
        adt = mir.adts.get(name)
        if adt is None:
            chk.bad(R1, name + ":mir", "enum %s not found in the type-checked facts" % name, w)
            continue
        tc = {v["name"]: int(v["discr"]) for v in adt["variants"]}
        lit = {vn: vv for vn, vv, _ in e["variants"]}
        chk.check(R1, tc == lit and adt["repr_int"] == "Fixed(I32, false)",
                  name + ":discr-typechecked", "literal discriminants differ from the type-checked values or repr is %s" % adt["repr_int"], w)
        f = e["from_u32"]
        if f is None:
            chk.bad(R1, name + ":from_u32", "enum %s has no from_u32" % name, w)
            continue
        if not ok:
            continue
        pieces = eval_from_u32(f, name)
        dset = iv_norm([(v, v) for v in vals])
        covered = []
        for dom, res, ptxt in pieces:
            n_arms += 1
            inst = "%s::from_u32[%s]" % (name, ptxt)
            if not dom:
                chk.ok(R1, inst + ":unreachable-arm")
                continue
            if res[0] == "none":
                chk.ok(R1, inst)
                continue
            if res[0] == "bad":
                chk.bad(R1, inst, res[1], w)
                continue
            covered += dom
            if res[0] == "transmute_n":
                tgt = res[1]
                if tgt not in (None, name, "Self"):
                    chk.bad(R1, inst, "transmute target is %s, not %s" % (tgt, name), w)
                    continue
                undeclared = iv_sub(dom, dset)
                chk.check(R1, not undeclared, inst,
                          "numbers %s are transmuted to %s but are not declared discriminants (undefined behaviour)" % (
                              undeclared[:4], name), w, sample={"domain": dom, "result": "transmute(n)"})
            else:
                if res[0] == "value":
                    v = res[1]
                    if res[2] not in (None, name, "Self"):
                        chk.bad(R1, inst, "transmute target is %s, not %s" % (res[2], name), w)
                        continue
                    if v not in vals:
                        chk.bad(R1, inst, "literal %d transmuted to %s is not a declared discriminant" % (v, name), w)
                        continue
                else:
                    if res[1] not in lit:
                        chk.bad(R1, inst, "unknown variant %s" % res[1], w)
                        continue
                    v = lit[res[1]]
                chk.check(R1, dom == [(v, v)], inst, "numbers %s all convert to the value with discriminant %d" % (dom, v), w,
                          sample={"domain": dom, "result": v})
        covered = iv_norm(covered)
        missing = iv_sub(dset, covered)
        chk.check(R1, not missing, name + ":total-on-discriminants",
                  "declared discriminants %s (%s) are not accepted by from_u32" % (
                      missing[:4], [vals[a] for a, b in missing[:4]]), w)
    chk.floor(R1, "enums", len(enums), 45)
    chk.floor(R1, "from_u32 arms", n_arms, 359 + 45)

    return n_arms


def run(ctx, chk):
    enums = spirv_enums(ctx)
    masks = spirv_masks(ctx)
    raw = ctx.raw
    mir = ctx.mir("spirv")
    chk.trusted += ["rustc macro expansion and type checking", "syn parser", "bitflags 2.x from_bits/bits semantics",
                    "`v as u32` on a repr(u32) field-less enum yields the declared discriminant (language)"]

    n_arms = rule_enum1(ctx, chk)
    R2 = chk.rule("R-ENUM-2", "every Transmute cast and every user-written unsafe block of the spirv crate (type-checked MIR/HIR) "
                  "sits in a from_u32 of an enum covered by R-ENUM-1, with source type u32 and the enum as target")
    ntrans = 0
    for p, fn in mir.fns.items():
        for b in fn["blocks"]:
            for s in b["s"]:
                if s["f"] == "cast" and s["ck"] == "Transmute":
                    if s["span"].get("file", "").startswith("/") or "rustlib" in s["span"].get("file", ""):
                        continue
                    ntrans += 1
                    inst = "%s@transmute->%s" % (mir_name(p), s["to"])
                    good = fn.get("name") == "from_u32" and fn.get("self") in enums and s["from"] == "u32" and s["to"] == fn.get("self")
                    chk.check(R2, good, inst, "transmute %s -> %s outside an audited from_u32" % (s["from"], s["to"]), where(s["span"]))
    nunsafe = 0
    for u in mir.unsafes:
        if not u["user"]:
            continue
        nunsafe += 1
        fnp = mir_name(u["fn"])
        owner = fnp.split("::")
        good = owner[-1] == "from_u32" and len(owner) >= 2 and owner[-2] in enums
        chk.check(R2, good, "unsafe@" + fnp, "user-written unsafe block outside an enum from_u32", where(u["span"]))
    chk.floor(R2, "transmutes", ntrans, 359)
    chk.floor(R2, "unsafe blocks", nunsafe, 359)

    R3 = chk.rule("R-ENUM-3", "every FromStr impl maps exactly the variant names and alias constants to their values "
                  "(\"K\" => Self::V with K = V or K an alias of V), keys unique, anything else Err; Debug is the derive")
    nstr = nalias = 0
    derived_debug = set()
    for im in ctx.spirv.items("spirv", "impl"):
        if (im.get("trait") or "").endswith("fmt::Debug") and any("automatically_derived" in a for a in im["attrs"]):
            derived_debug.add(im["self_ty"])
    for name, e in sorted(enums.items()):
        f = e["from_str"]
        w = raw.where("from_str", name, "spirv/")
        for an, txt in e["alias_bad"]:
            chk.bad(R3, "%s::%s:alias" % (name, an), "associated constant is not an alias of a variant: %s" % txt, w)
        if f is None:
            # no FromStr impl: nothing can parse, nothing to decide (the floor below pins the number of impls)
            continue
        nstr += 1
        chk.check(R3, name in derived_debug, name + ":Debug-derived", "Debug for %s is not the derive (names may differ)" % name, w)
        variants = [vn for vn, _, _ in e["variants"]]
        stmts = f["body"][1]
        e0 = stmts[0][1] if len(stmts) == 1 and stmts[0][0] == "expr" else None
        wrapped = False
        if e0 and e0[0] == "call" and path_of(e0[1]) == "Ok" and len(e0[2]) == 1:
            wrapped = True
            e0 = e0[2][0]
        if not (e0 and e0[0] == "match"):
            raise Anchor("%s::from_str is not a match" % name)
        keys = {}
        wild_ok = False
        for pat, guard, body in e0[2]:
            if guard is not None:
                raise Anchor("%s::from_str has a guarded arm" % name)
            if pat[0] == "p_wild" or (pat[0] == "p_ident" and pat[4] is None):
                b = unblock(body)
                if b[0] == "return":
                    b = b[1]
                wild_ok = is_node(b) and b[0] == "call" and path_of(b[1]) == "Err"
                continue
            pats = pat[1] if pat[0] == "p_or" else [pat]
            for p in pats:
                if not (p[0] == "p_lit" and p[1][1] == "str"):
                    raise Anchor("%s::from_str arm pattern is not a string literal: %s" % (name, show(p)))
                k = p[1][2]
                b = unblock(body)
                if not wrapped and b[0] == "call" and path_of(b[1]) == "Ok":
                    b = b[2][0]
                tp = path_of(b)
                target = tp.split("::")[-1] if tp and (tp.startswith("Self::") or tp.startswith(name + "::")) else None
                target = e["aliases"].get(target, target)
                if k in keys:
                    chk.bad(R3, "%s:%s" % (name, k), "duplicate key (first match wins)", w)
                    continue
                keys[k] = target
                expect = k if k in variants else e["aliases"].get(k)
                chk.check(R3, expect is not None and target == expect, "%s:%s" % (name, k),
                          "string %r parses to %s, expected %s" % (k, target, expect), w,
                          sample={"key": k, "value": target})
        chk.check(R3, wild_ok, name + ":other=>Err", "the fall-through arm does not return Err", w)
        for vn in variants:
            if vn not in keys:
                chk.bad(R3, "%s:%s" % (name, vn), "variant name is not accepted by from_str", w)
        for an in e["aliases"]:
            nalias += 1
            if an not in keys:
                chk.bad(R3, "%s:%s" % (name, an), "alias is not accepted by from_str", w)
    chk.floor(R3, "FromStr impls", nstr, 41)
    chk.floor(R3, "aliases", nalias, 79)

    RM = chk.rule("R-MASK", "every bit-mask type is a bitflags 2 struct over u32 whose named flags are literal constants and "
                  "whose FLAGS table (what from_bits accepts) lists exactly those named constants (no catch-all)")
    for name, m in sorted(masks.items()):
        w = "spirv/autogen_spirv.rs bitflags %s" % name
        for pr in m["problems"]:
            chk.bad(RM, name + ":shape", pr, w)
        chk.check(RM, m.get("bits_ty") == "u32", name + ":bits=u32", "Bits type is %s" % m.get("bits_ty"), w)
        chk.check(RM, sorted(m["flags"]) == sorted(m["consts"]) and len(set(m["flags"])) == len(m["flags"]), name + ":FLAGS=consts",
                  "FLAGS table %s differs from the declared constants %s" % (m["flags"], sorted(m["consts"])), w,
                  sample={"flags": m["consts"]})
    chk.floor(RM, "mask types", len(masks), 15)
    import os as _os
    lock = ""
    for cand in (_os.path.join(ctx.dir, "Cargo.lock"), _os.path.join(ctx.meta["repo"], "Cargo.lock")):
        if _os.path.exists(cand):
            lock = open(cand).read()
            break
    import re
    vers = re.findall(r'name = "bitflags"\nversion = "(\d+)\.', lock)
    dep2 = [v for v in vers if v == "2"]
    chk.check(RM, bool(dep2), "bitflags-major-2", "Cargo.lock pins no bitflags 2.x (found %s)" % vers, "Cargo.lock")

    RK = chk.rule("R-KHR", "names, numbers, aliases and flag values equal the pinned grammar snapshot (O-SNAP, stands in for the "
                  "Khronos grammar of SDK 1.4.309.0 which is not in the sandbox)")
    snap = snapshot.load()
    cur = snapshot.section_enums(ctx)
    snapshot.compare(chk, RK, "enums", snap.get("enums"), cur, "spirv/autogen_spirv.rs")
    cur = snapshot.section_masks(ctx)
    snapshot.compare(chk, RK, "masks", snap.get("masks"), cur, "spirv/autogen_spirv.rs")

    RD = chk.rule("R-DECODE", "the rspirv decoder turns a word into each enum through <Enum>::from_u32 and into each mask through "
                  "<Mask>::from_bits (never from_bits_truncate/retain), reporting <Kind>Unknown otherwise")
    from . import codec
    dm = codec.decoder_methods(ctx)
    nd = 0
    for mname, d in sorted(dm.items()):
        rty = d["ret"].replace(" ", "")
        rty = rty[len("Result<"):-1].split("::")[-1] if rty.startswith("Result<") else rty
        if rty in enums or rty in masks:
            nd += 1
            exp = "from_u32" if rty in enums else "from_bits"
            good = d["cls"] in ("enum", "mask") and d["ty"] == rty and d["via"] == exp and d["problems"] == []
            chk.check(RD, good, "Decoder::" + mname,
                      "returns %s but decodes via %s::%s (%s)%s" % (rty, d["ty"], d["via"], "; ".join(d["problems"]) or "shape: " + d["cls"],
                                                             "" if d["cls"] != "other" else " - not the audited `if let Ok(word) = self.word() { T::%s(word).ok_or(..) }` shape" % exp),
                      raw.where(mname, "Decoder"), sample={"type": d["ty"], "via": d["via"], "err": d["err"]})
    chk.floor(RD, "typed decoder methods", nd, 56)
    chk.analysed.update({"enums": len(enums), "masks": len(masks), "from_u32_arms": n_arms, "transmutes": ntrans,
                         "from_str_impls": nstr, "aliases": nalias})
