"""Traversal sequences of dr::Module / Function / Block: iterator chains and assemble_into statement lists,
normalised to lists of dotted field paths such as 'functions[].blocks[].label'."""
from ..core import Anchor
from ..tree import is_node, path_of, show, strip_generics, strip_refs, unblock

CON = "rspirv::dr::constructs"
ASM = "rspirv::binary::assemble"

# O-SPEC: SPIR-V logical layout (spec 2.4) as sections of dr::Module, and the order inside a function / block
MODULE_LAYOUT = ["capabilities", "extensions", "ext_inst_imports", "memory_model", "entry_points", "execution_modes",
                 "debug_string_source", "debug_names", "debug_module_processed", "annotations", "types_global_values"]
FUNCTION_LAYOUT = ["def", "parameters", "blocks[].label", "blocks[].instructions", "end"]
BLOCK_LAYOUT = ["label", "instructions"]


def struct_fields(ctx, name):
    s = ctx.rspirv.item(CON, "struct", name)
    return [(f[0], f[1]) for f in s["fields"]]


def elem_type(ty):
    """Vec<T> / Option<T> -> T"""
    t = ty.replace(" ", "")
    for pre in ("Vec<", "Option<"):
        if t.startswith(pre) and t.endswith(">"):
            return t[len(pre):-1].split("::")[-1]
    return t.split("::")[-1]


class Trav:
    def __init__(self, ctx):
        self.ctx = ctx
        self.fields = {n: dict(struct_fields(ctx, n)) for n in ("Module", "Function", "Block")}
        self._iter = {}
        self._asm = {}

    # ---- iterator chain expressions
    def iter_fn(self, ty, name):
        key = (ty, name)
        if key not in self._iter:
            self._iter[key] = None
            f = self.ctx.rspirv.fn(CON, name, ty, False)
            st = f["body"][1]
            if len(st) != 1 or st[0][0] != "expr":
                raise Anchor("%s::%s body is not a single iterator expression" % (ty, name))
            self._iter[key] = self.seq(st[0][1], "self", ty)
        if self._iter[key] is None:
            raise Anchor("recursive traversal %s::%s" % (ty, name))
        return self._iter[key]

    def seq(self, e, var, ty):
        """-> list of (path, mutable?)"""
        e = unblock(e)
        if e[0] == "mcall":
            recv, m, args = e[1], e[2], e[3]
            if m == "chain" and len(args) == 1:
                return self.seq(recv, var, ty) + self.seq(args[0], var, ty)
            if m in ("iter", "iter_mut") and not args:
                f = self.field_of(recv, var)
                if f is not None:
                    self.need_field(ty, f)
                    return [(f, m == "iter_mut")]
            if m in ("flat_map",) and len(args) == 1 and args[0][0] == "closure" and recv[0] == "mcall" and recv[2] in ("iter", "iter_mut"):
                f = self.field_of(recv[1], var)
                if f is not None:
                    self.need_field(ty, f)
                    et = elem_type(self.fields[ty][f])
                    clo = args[0]
                    if len(clo[1]) != 1 or clo[1][0][0] != "p_ident":
                        raise Anchor("flat_map closure parameter shape in %s" % ty)
                    inner = self.seq(clo[2], clo[1][0][1], et)
                    mut = recv[2] == "iter_mut"
                    return [("%s[].%s" % (f, p), m2) for p, m2 in inner] if all(m2 == mut for _, m2 in inner) else \
                        [("%s[].%s" % (f, p), None) for p, _ in inner]
            if path_of(recv) == var and not args and ty in self.fields:
                # call of another traversal method on the same value: inline
                return self.iter_fn(ty, m)
        if e[0] == "ref":
            f = self.field_of(e[2], var)
            if f is not None:
                self.need_field(ty, f)
                return [(f, bool(e[1]))]
        raise Anchor("unrecognised traversal expression in %s: %s" % (ty, show(e)[:120]))

    def field_of(self, e, var):
        if is_node(e) and e[0] == "field" and path_of(e[1]) == var:
            return e[2]
        return None

    def need_field(self, ty, f):
        if ty not in self.fields or f not in self.fields[ty]:
            raise Anchor("traversal mentions unknown field %s.%s" % (ty, f))

    # ---- assemble_into statement lists
    def asm_fn(self, ty):
        if ty not in self._asm:
            self._asm[ty] = None
            f = self.ctx.rspirv.fn(ASM, "assemble_into", ty, "Assemble")
            res = f["sig"]["params"][1][0]
            out = []
            for s in f["body"][1]:
                if s[0] != "expr":
                    raise Anchor("Assemble for %s: unexpected statement %s" % (ty, show(s)[:80]))
                out += self.asm_stmt(s[1], ty, res)
            self._asm[ty] = out
        if self._asm[ty] is None:
            raise Anchor("recursive assemble_into for %s" % ty)
        return self._asm[ty]

    def asm_body_is_emit(self, body, var, res):
        st = body[1]
        if len(st) != 1 or st[0][0] != "expr":
            return False
        c = st[0][1]
        return c[0] == "mcall" and path_of(c[1]) == var and c[2] == "assemble_into" and len(c[3]) == 1 and path_of(c[3][0]) == res

    def asm_stmt(self, e, ty, res):
        if e[0] == "if" and e[1][0] == "let" and e[3] is None:
            pat, src = e[1][1], strip_refs(e[1][2])
            f = self.field_of(src, "self")
            if pat[0] == "p_ts" and pat[1] == "Some" and len(pat[2]) == 1 and pat[2][0][0] == "p_ident" and f is not None:
                v = pat[2][0][1]
                if self.asm_body_is_emit(e[2], v, res):
                    return self.expand_asm(ty, f)
        if e[0] == "for":
            pat, src, body = e[1], e[2], e[3]
            if pat[0] == "p_ident" and self.asm_body_is_emit(body, pat[1], res):
                s2 = strip_refs(src)
                f = self.field_of(s2, "self")
                if f is not None:
                    return self.expand_asm(ty, f)
                if s2[0] == "mcall" and path_of(s2[1]) == "self" and not s2[3]:
                    return [p for p, _ in self.iter_fn(ty, s2[2])]
        raise Anchor("Assemble for %s: unrecognised statement %s" % (ty, show(e)[:120]))

    def expand_asm(self, ty, f):
        self.need_field(ty, f)
        et = elem_type(self.fields[ty][f])
        if et in ("Instruction", "ModuleHeader"):
            return [f]
        if et in ("Function", "Block"):
            return ["%s[].%s" % (f, p) for p in self.asm_fn(et)]
        raise Anchor("Assemble for %s: field %s of unexpected type %s" % (ty, f, et))


def expected_module_all():
    return MODULE_LAYOUT + ["functions[]." + p for p in FUNCTION_LAYOUT]
