"""Small-scope evaluation of dr::Builder methods over the selection typestate (replaces the hand-written interpreter builderx).

Abstract state (as before): F in {None, 'valid', 'stale'} (selected_function), B in {None, 'valid', 'stale'} (selected_block;
'stale' = an index that does not designate a function of the module / a block of the selected function).  Every abstract state
is represented by concrete Builder values (modules with up to two functions of up to two blocks); a method is evaluated on each
representative with every combination of its index-like arguments (Option<usize> in {None, 0, 1, 9}, InsertPoint in {End, Begin,
FromBegin(0), FromEnd(0)}) and with all other optional arguments absent / present.  The real statements are evaluated with the
helpers inlined; indexing, unwrap/expect and usize underflow are panics.  Unknown constructs raise Anchor (fail closed)."""
import copy
import itertools
import re

from ..core import Anchor
from ..symeval import NONE, UNIT, Panic as SPanic
from ..tree import show
from . import evalsum, progx

BLD = "rspirv::dr::build"
EXTRA_REPRESENTATIVES = False          # thorough tier: a third, larger representative per selection state


def _block(t, n, labelled=True):
    b = copy.deepcopy(t["Block"])
    b[2]["label"] = ("some", ("sym", "LABEL")) if labelled else NONE
    b[2]["instructions"] = ("list", [("sym", "INST%d" % i) for i in range(n)])
    return b


FID0 = 500          # result ids of the functions of a representative module: FID0, FID0 + 1, ..


def _function(t, nblocks, ended=False):
    f = copy.deepcopy(t["Function"])
    f[2]["def"] = ("some", dict_inst("DEF", "Function", None))        # the result id is given when the module is put together
    f[2]["blocks"] = ("list", [_block(t, 1) for _ in range(nblocks)])
    if ended:
        f[2]["end"] = ("some", ("sym", "END"))
    return f


def dict_inst(name, opcode, rid=None):
    from . import walkx
    i = walkx.inst(name, opcode)
    if rid is not None:
        i[2]["result_id"] = ("some", rid)
    return i


def _builder(t, fns, sel_f, sel_b):
    m = copy.deepcopy(t["Module"])
    m[2]["functions"] = ("list", fns)
    # as the Builder leaves them: every function definition has a result id; OpName gives function i the name "f<i>"
    names = []
    for i_, f_ in enumerate(fns):
        if f_[2]["def"] != NONE and isinstance(f_[2]["def"][1], tuple) and f_[2]["def"][1][0] == "struct":
            f_[2]["def"][1][2]["result_id"] = ("some", FID0 + i_)
        nm_ = dict_inst("NAME%d" % i_, "Name")
        nm_[2]["operands"] = ("list", [("enum", "Operand::IdRef", [FID0 + i_]), ("enum", "Operand::LiteralString", [("str", "f%d" % i_)])])
        names.append(nm_)
    other = dict_inst("NAME_OF_A_VARIABLE", "Name")
    other[2]["operands"] = ("list", [("enum", "Operand::IdRef", [77]), ("enum", "Operand::LiteralString", [("str", "v")])])
    member = dict_inst("MEMBER_NAME", "MemberName")
    member[2]["operands"] = ("list", [("enum", "Operand::IdRef", [77]), ("enum", "Operand::LiteralBit32", [0]), ("enum", "Operand::LiteralString", [("str", "f0")])])
    m[2]["debug_names"] = ("list", [member, other] + names)
    from . import walkx
    m[2]["types_global_values"] = ("list", [dict_inst("GLOBAL0", "TypeVoid", 77)])
    return ("struct", "Builder", {"module": m, "next_id": evalsum.FRESH0, "selected_function": NONE if sel_f is None else ("some", sel_f),
                                  "selected_block": NONE if sel_b is None else ("some", sel_b)})


def _harvest(ctx):
    """the largest small integer the hand-written Builder code compares / indexes with (0 if none above 1)"""
    def build():
        from ..tree import small_literals
        fs = [f for f in ctx.rspirv.fns(BLD, "Builder")]
        raw = ctx.raw
        lits = set()
        for f in fs:
            cand = [x for x in raw.byname.get(f["name"], []) if "dr/build/mod.rs" in x["file"]]
            if cand:
                lits |= small_literals(f["body"])
        return max(lits) if lits else 0
    return ctx.memo("buildeval_harvest", build)


def representatives(ctx, state):
    """concrete builders of the abstract state, with a description"""
    t = evalsum._templates(ctx)
    F, B = state
    out = []
    k = _harvest(ctx)
    if k >= 2:
        # the code counts up to k: add a module with k+1 functions of k+1 blocks (k+1 instructions each), the last ones selected
        n = k + 1
        big = lambda: [_function(t, n, True) for _ in range(n - 1)] + [_function(t, n)]
        for fobj in big():
            for b in fobj[2]["blocks"][1]:
                b[2]["instructions"] = ("list", [("sym", "INST%d" % i) for i in range(n)])
        if (F, B) == (None, None):
            out.append(("%d functions, none selected" % n, _builder(t, big(), None, None)))
        elif (F, B) == ("valid", None):
            out.append(("function %d of %d selected" % (n - 1, n), _builder(t, big(), n - 1, None)))
        elif (F, B) == ("valid", "valid"):
            out.append(("function %d of %d, block %d of %d selected" % (n - 1, n, n - 1, n), _builder(t, big(), n - 1, n - 1)))
        elif (F, B) == ("valid", "stale"):
            out.append(("function %d of %d with block index %d selected" % (n - 1, n, n), _builder(t, big(), n - 1, n)))
    if (F, B) == (None, None):
        out.append(("empty module", _builder(t, [], None, None)))
        out.append(("one finished function", _builder(t, [_function(t, 1, True)], None, None)))
    elif (F, B) == ("valid", None):
        out.append(("function 0 (no blocks) selected", _builder(t, [_function(t, 0)], 0, None)))
        out.append(("function 1 of 2 selected", _builder(t, [_function(t, 2, True), _function(t, 1)], 1, None)))
        # the selected function is not the last one and has fewer blocks than the last
        out.append(("function 0 (one block) of 2 selected, the other has two blocks", _builder(t, [_function(t, 1), _function(t, 2, True)], 0, None)))
    elif (F, B) == ("valid", "valid"):
        out.append(("function 0, block 0 selected", _builder(t, [_function(t, 1)], 0, 0)))
        out.append(("function 0 of 2, block 1 of 2 selected", _builder(t, [_function(t, 2), _function(t, 1, True)], 0, 1)))
        out.append(("function 0 (one block) of 2, block 0 selected, the other has two blocks", _builder(t, [_function(t, 1), _function(t, 2, True)], 0, 0)))
    elif (F, B) == ("valid", "stale"):
        out.append(("function 1 (one block) with block index 1 selected", _builder(t, [_function(t, 2, True), _function(t, 1)], 1, 1)))
        out.append(("function 0 (no blocks) with block index 0 selected", _builder(t, [_function(t, 0)], 0, 0)))
    elif (F, B) == (None, "valid") or (F, B) == (None, "stale"):
        out.append(("no function but block index 0 selected", _builder(t, [_function(t, 1, True)], None, 0)))
    elif F == "stale":
        out.append(("function index 3 of 1 selected", _builder(t, [_function(t, 1, True)], 3, None if B is None else 0)))
    if EXTRA_REPRESENTATIVES:
        # thorough tier: every module shape with up to two functions of 0..2 blocks (the last function open or finished) and every
        # selection (function in {none, 0, 1, 2}, block in {none, 0, 1, 2}) whose abstraction is this state
        import itertools as _it
        seen = 0
        for nf in (0, 1, 2):
            for shape in _it.product((0, 1, 2), repeat=nf):
                for last_open in ((True, False) if nf else (False,)):
                    for sf in (None, 0, 1, 2):
                        for sb in (None, 0, 1, 2):
                            fns = [_function(t, nb, not (last_open and i == nf - 1)) for i, nb in enumerate(shape)]
                            b = _builder(t, fns, sf, sb)
                            if abstract(b) == (F, B):
                                seen += 1
                                out.append(("functions with %s blocks%s; selected function %s, block %s" % (
                                    list(shape), ", last one open" if last_open else "", sf, sb), b))
    return out


def abstract(b):
    fl = b[2]
    fns = fl["module"][2]["functions"][1]
    sf, sb = fl["selected_function"], fl["selected_block"]
    F = None if sf == NONE else ("valid" if isinstance(sf[1], int) and sf[1] < len(fns) else "stale")
    if sb == NONE:
        B = None
    elif F == "valid":
        blocks = fns[sf[1]][2]["blocks"][1]
        B = "valid" if isinstance(sb[1], int) and sb[1] < len(blocks) else "stale"
    else:
        B = "stale" if F == "stale" else "valid"      # no function to judge it against: (None, 'valid') is itself a bad state
    return (F, B)


INDEX_CHOICES = [NONE, ("some", 0), ("some", 1), ("some", 9)]
IP_CHOICES = [("enum", "InsertPoint::End", []), ("enum", "InsertPoint::Begin", []), ("enum", "InsertPoint::FromBegin", [0]), ("enum", "InsertPoint::FromEnd", [0])]


def arg_sets(f):
    params = [(p[0], p[1].replace(" ", "")) for p in f["sig"]["params"] if p[0] != "self"]
    idx = [(n, INDEX_CHOICES) for n, t in params if t == "Option<usize>"] + [(n, IP_CHOICES) for n, t in params if t.endswith("InsertPoint")]
    idx += [(n, [0, 1, 9]) for n, t in params if t == "usize"]
    idx += [(n, [("str", "f0"), ("str", "f1"), ("str", "v"), ("str", "no-such-name")]) for n, t in params if t in ("&str", "&'_str", "&'astr")]
    names = [n for n, _ in idx]
    for variant in ("none", "some"):
        base = {n: evalsum.param_value(n, t, variant) for n, t in params}
        for combo in itertools.product(*[c for _, c in idx]) if idx else [()]:
            env = dict(base)
            env.update(dict(zip(names, combo)))
            yield env, "optional arguments %s%s" % ("present" if variant == "some" else "absent",
                                                   "".join(", %s = %s" % (n, _fmt(v)) for n, v in zip(names, combo)))


def _fmt(v):
    if v == NONE:
        return "None"
    if isinstance(v, tuple) and v[0] == "some":
        return "Some(%s)" % v[1]
    if isinstance(v, tuple) and v[0] == "enum":
        return v[1].split("::")[-1] + ("(%s)" % v[2][0] if v[2] else "")
    return str(v)


def _content(b):
    """the instructions of the module (everything except the header)"""
    m = b[2]["module"][2]
    return repr({k: v for k, v in m.items() if k != "header"})


class BH(evalsum.BH):
    pass


class BuilderE:
    def __init__(self, ctx):
        self.ctx = ctx
        self.methods = {}
        for f in ctx.rspirv.fns(BLD, "Builder"):
            self.methods[f["name"]] = f
        self._memo = {}
        self.evaluations = 0

    def skeleton(self, f):
        """methods whose bodies differ only in the opcode, the operand kinds and the names of their value parameters behave alike"""
        t = show(f["body"])
        t = re.sub(r"spirv::Op::\w+", "Op", t)
        t = re.sub(r"dr::Operand::\w+", "Operand", t)
        params = [(p[0], p[1].replace(" ", "")) for p in f["sig"]["params"] if p[0] != "self"]
        for i, (n, ty) in enumerate(params):
            t = re.sub(r"\b%s\b" % re.escape(n), "p%d" % i, t)
        return (t, tuple(ty for _, ty in params), f["sig"]["ret"])

    def paths(self, name, state):
        f = self.methods[name]
        key = (self.skeleton(f), state)
        if key in self._memo:
            return self._memo[key]
        out = []
        for desc, b0 in representatives(self.ctx, state):
            for env0, adesc in arg_sets(f):
                b = copy.deepcopy(b0)
                before = _content(b)
                hdr_before = repr(b[2]["module"][2].get("header"))
                h = BH(self.ctx)
                ev = progx.make(h, "Builder::" + name)
                env = dict(copy.deepcopy(env0), self=b)
                self.evaluations += 1
                tr = ["%s; %s" % (desc, adesc)]
                try:
                    r = ev.run(f, env)
                except SPanic as x:
                    out.append({"outcome": "panic", "what": "%s (on: %s; %s)" % (x, desc, adesc), "next": abstract(b), "mutated": _content(b) != before,
                                "ids": 0, "trace": tr, "assumed": []})
                    continue
                outcome, err = "ok", None
                if isinstance(r, tuple) and r and r[0] == "err":
                    outcome = "err"
                    err = r[1][1].split("::")[-1] if isinstance(r[1], tuple) and r[1] and r[1][0] == "enum" else repr(r[1])
                nid = b[2]["next_id"]
                out.append({"outcome": outcome, "err": err, "next": abstract(b), "mutated": _content(b) != before,
                            "ids": (nid - evalsum.FRESH0) if isinstance(nid, int) else None, "trace": tr, "assumed": [],
                            "header": repr(b[2]["module"][2].get("header")) != hdr_before})
        self._memo[key] = out
        return out
