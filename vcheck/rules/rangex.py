"""A small interval analysis used to discharge compiler-inserted overflow checks whose operands are small by construction."""
from ..tree import int_of, is_node, path_of, show, unblock, walk

INF = float("inf")


def _iter_len(e, lens):
    """interval of the length of an iterated expression: x.remainder() of chunks_exact(k) -> [0, k-1]; literals; known locals"""
    e = unblock(e)
    while e[0] == "mcall" and e[2] in ("iter", "iter_mut", "into_iter", "enumerate", "copied", "cloned") or e[0] == "ref":
        e = e[1] if e[0] == "mcall" else e[2]
    if e[0] == "mcall" and e[2] == "remainder":
        src = path_of(e[1])
        if src in lens.get("_chunks", {}):
            k = lens["_chunks"][src]
            return (0, k - 1)
    p = path_of(e)
    if p in lens:
        return lens[p]
    if e[0] in ("array", "vec"):
        return (len(e[1]), len(e[1]))
    return (0, INF)


def intervals(f):
    """local name -> (lo, hi) for locals with a provable small range"""
    env = {}
    lens = {"_chunks": {}}
    for n in walk(f["body"]):
        if n[0] == "block":
            for s in n[1]:
                if s[0] == "local" and s[1][0] == "p_ident" and s[3] is not None:
                    init = unblock(s[3])
                    if init[0] == "mcall" and init[2] == "chunks_exact" and len(init[3]) == 1 and int_of(init[3][0]):
                        lens["_chunks"][s[1][1]] = int_of(init[3][0])
                    if init[0] == "mcall" and init[2] == "remainder" and path_of(init[1]) in lens["_chunks"]:
                        lens[s[1][1]] = (0, lens["_chunks"][path_of(init[1])] - 1)
                    iv = interval(init, env, lens)
                    if iv[1] != INF and not s[1][3]:
                        env[s[1][1]] = iv
        if n[0] == "for":
            pat, src = n[1], n[2]
            ln = _iter_len(src, lens)
            t = show(src)
            if ".enumerate()" in t and pat[0] == "p_tuple" and len(pat[1]) == 2:
                idx = pat[1][0]
                if idx[0] == "p_ident" and ln[1] != INF:
                    env[idx[1]] = (0, max(ln[1] - 1, 0))
            if False:
                pass
            if src[0] == "range" and pat[0] == "p_ident":
                lo = interval(src[1], env, lens) if src[1] is not None else (0, 0)
                hi = interval(src[2], env, lens) if src[2] is not None else (0, INF)
                if hi[1] != INF:
                    env[pat[1]] = (lo[0], hi[1] - (0 if src[3] else 1))
    # enumerate() indices bound by closure parameters: X.iter().enumerate().map(|(i, x)| ..) / .fold(init, |acc, (i, x)| ..)
    for n in walk(f["body"]):
        if n[0] == "mcall" and n[3] and n[3][-1][0] == "closure" and ".enumerate()" in show(n[1]):
            clo = n[3][-1]
            if not clo[1]:
                continue
            pat = clo[1][-1]
            while pat[0] in ("p_ref", "p_type"):
                pat = pat[2] if pat[0] == "p_ref" else pat[1]
            if pat[0] == "p_tuple" and len(pat[1]) == 2 and pat[1][0][0] == "p_ident":
                r = unblock(n[1])
                # the receiver up to (and including) enumerate()
                while r[0] == "mcall" and r[2] != "enumerate":
                    r = unblock(r[1])
                if r[0] == "mcall" and r[2] == "enumerate":
                    ln = _iter_len(r[1], lens)
                    if ln[1] != INF:
                        env[pat[1][0][1]] = (0, max(ln[1] - 1, 0))
    return env, lens


def interval(e, env, lens):
    e = unblock(e)
    v = int_of(e) if e[0] in ("lit", "cast") else None
    if v is not None:
        return (v, v)
    if e[0] == "cast":
        return interval(e[1], env, lens)
    p = path_of(e)
    if p is not None and p in env:
        return env[p]
    if p is not None and p.split("::")[-1].isupper():
        cv = _const_value(p.split("::")[-1])
        if isinstance(cv, int):
            return (cv, cv)
        if p.split("::")[-1] == "BITS" and len(p.split("::")) >= 2:
            w_ = {"u8": 8, "u16": 16, "u32": 32, "Word": 32, "u64": 64, "usize": 64, "i8": 8, "i16": 16, "i32": 32, "i64": 64}.get(p.split("::")[-2])
            if w_:
                return (w_, w_)
    if e[0] == "mcall" and e[2] == "len" and not e[3]:
        return _iter_len(e[1], lens)
    if e[0] == "call" and len(e[2]) == 1 and (path_of(e[1]) or "").split("::")[-1] == "from":
        a0 = unblock(e[2][0])
        if a0[0] == "mcall" and a0[2] in ("is_some", "is_none", "is_empty", "is_ok", "is_err", "contains", "any", "all") or a0[0] == "lit" and a0[1] == "bool" \
                or (a0[0] == "binary" and a0[1] in ("==", "!=", "<", "<=", ">", ">=", "&&", "||")) or (a0[0] == "unary" and a0[1] == "!"):
            return (0, 1)           # usize::from(bool)
        return interval(a0, env, lens)
    if e[0] == "binary":
        a, b = interval(e[2], env, lens), interval(e[3], env, lens)
        if e[1] == "+":
            return (a[0] + b[0], a[1] + b[1])
        if e[1] == "*":
            return (a[0] * b[0], a[1] * b[1])
        if e[1] == "%" and b[1] != INF and b[0] > 0:
            return (0, b[1] - 1)
        if e[1] == "&" and (a[1] != INF or b[1] != INF):
            return (0, min(a[1], b[1]))
        if e[1] == "/" and b[0] > 0:
            return (0, a[1])
    return (0, INF)


def _const_value(name):
    """value of a crate constant (through the running check's fact context)"""
    from .. import symeval
    from ..symeval import Hooks
    r = Hooks().resolve_const(name)
    return r if isinstance(r, int) else None


def safe_ops(f, kind):
    """True if every arithmetic expression of the asserted kind in f is provably in range (u32 arithmetic, shifts < 32)"""
    opmap = {"Overflow(Mul)": "*", "Overflow(Shl)": "<<", "Overflow(Shr)": ">>", "Overflow(Add)": "+", "DivisionByZero": "/", "RemainderByZero": "%"}
    op = opmap.get(kind)
    if op is None:
        return False
    env, lens = intervals(f)
    wide = set()          # names declared with a 64-bit type: shifts of them by up to 63 are in range
    for q in f["sig"]["params"]:
        if len(q) > 1 and str(q[1]).replace(" ", "").lstrip("&") in ("u64", "i64", "usize", "isize"):
            wide.add(q[0])
    for n in walk(f["body"]):
        if n[0] == "block":
            for s_ in n[1]:
                if s_[0] == "local" and s_[1][0] == "p_ident" and isinstance(s_[2], str) and s_[2].replace(" ", "") in ("u64", "i64", "usize", "isize"):
                    wide.add(s_[1][1])
    found = False
    for n in walk(f["body"]):
        if (n[0] == "binary" and n[1] == op) or (n[0] == "assignop" and n[1] == op):
            found = True
            l, r = (n[2], n[3])
            a, b = interval(l, env, lens), interval(r, env, lens)
            if op in ("/", "%"):
                v_ = int_of(unblock(r)) if unblock(r)[0] in ("lit", "cast") else None
                if v_ is None and path_of(unblock(r)) is not None:
                    cv_ = _const_value(path_of(unblock(r)))
                    v_ = cv_ if isinstance(cv_, int) else None
                if not v_:
                    return False
            elif op in ("<<", ">>"):
                lw = unblock(l)
                is_wide = (path_of(lw) in wide) or (lw[0] == "cast" and lw[2].replace(" ", "") in ("u64", "i64", "usize")) or \
                    (lw[0] == "call" and (path_of(lw[1]) or "").endswith(("u64::from", "usize::from")))
                if b[1] >= (64 if is_wide else 32):
                    return False
            elif op == "*":
                if a[1] * b[1] >= 2 ** 32:
                    return False
            elif op == "+":
                # a length of an existing collection (usize, at most isize::MAX) plus a small amount cannot overflow
                def is_len(x):
                    x = unblock(x)
                    if x[0] == "mcall" and x[2] in ("len", "count", "capacity") and not x[3]:
                        return True
                    if x[0] == "binary" and x[1] in ("/", "%", "-", ">>"):
                        return is_len(x[2])          # a length made smaller is still at most a length
                    if x[0] in ("cast", "paren"):
                        return is_len(x[1])
                    return False
                if (is_len(l) and b[1] < 2 ** 32) or (is_len(r) and a[1] < 2 ** 32):
                    continue
                if a[1] + b[1] >= 2 ** 32:
                    return False
    return found


def safe_indexing(f):
    """True if every non-range index expression in f is provably in bounds: a literal/small-interval index into an element of a
    chunks_exact(k) iteration (length k) or into a local fixed-size array"""
    env, lens = intervals(f)
    chunk_elems = {}   # local name -> k
    arrays = {}        # local name -> length
    for n in walk(f["body"]):
        if n[0] == "for" and n[1][0] == "p_ident":
            src = unblock(n[2])
            p = path_of(src)
            if p in lens["_chunks"]:
                chunk_elems[n[1][1]] = lens["_chunks"][p]
            if src[0] == "mcall" and src[2] == "chunks_exact" and len(src[3]) == 1 and int_of(src[3][0]):
                chunk_elems[n[1][1]] = int_of(src[3][0])
        if n[0] == "mcall" and n[2] in ("map", "for_each") and len(n[3]) == 1 and n[3][0][0] == "closure":
            recv = unblock(n[1])
            k = None
            if path_of(recv) in lens["_chunks"]:
                k = lens["_chunks"][path_of(recv)]
            if recv[0] == "mcall" and recv[2] == "chunks_exact" and len(recv[3]) == 1:
                k = int_of(recv[3][0])
            clo = n[3][0]
            if k and len(clo[1]) == 1 and clo[1][0][0] == "p_ident":
                chunk_elems[clo[1][0][1]] = k
        if n[0] == "block":
            for s in n[1]:
                if s[0] == "local" and s[1][0] == "p_ident" and s[3] is not None:
                    init = unblock(s[3])
                    if init[0] == "repeat" and int_of(init[2]) is not None:
                        arrays[s[1][1]] = int_of(init[2])
                    if init[0] == "array":
                        arrays[s[1][1]] = len(init[1])
    # indices obtained from position() on the same base are in range
    pos_pairs = set()
    for n in walk(f["body"]):
        if n[0] == "block":
            for s in n[1]:
                if s[0] == "local" and s[1][0] == "p_ident" and s[3] is not None:
                    t = show(s[3])
                    m = _position_base(s[3])
                    if m:
                        pos_pairs.add((m, s[1][1]))
        if n[0] == "mcall" and n[2] == "map" and len(n[3]) == 1 and n[3][0][0] == "closure":
            m = _position_base(n[1])
            clo = n[3][0]
            if m and len(clo[1]) == 1 and clo[1][0][0] == "p_ident":
                pos_pairs.add((m, clo[1][0][1]))
    found = False
    for n in walk(f["body"]):
        if n[0] == "index" and n[2][0] != "range":
            found = True
            base = path_of(unblock(n[1]))
            if (base, path_of(n[2])) in pos_pairs:
                continue
            iv = interval(n[2], env, lens)
            bound = chunk_elems.get(base, arrays.get(base))
            if bound is None or iv[1] >= bound:
                return False
    return found


def _position_base(e):
    """BASE.iter().position(..)[.expect(..)|.unwrap()|?] -> 'BASE'"""
    e = unblock(e)
    while e[0] == "try" or (e[0] == "mcall" and e[2] in ("expect", "unwrap")):
        e = e[1]
    if e[0] == "mcall" and e[2] in ("position", "rposition") and e[1][0] == "mcall" and e[1][2] == "iter":
        return path_of(e[1][1])
    return None
