"""Call graph and panic-site census over the type-checked MIR of spirv, rspirv and rspirv-dis."""
import re

from ..core import Anchor
from ..tree import mir_name, where

CRATES = ("rspirv", "spirv", "rspirv_dis")

# callees whose call is itself a panic (or can be one)
PANIC_FNS = ("core::panicking::", "std::rt::begin_panic", "std::rt::panic_fmt", "core::panicking::panic", "std::panicking::",
             "core::option::expect_failed", "core::option::unwrap_failed", "core::result::unwrap_failed", "core::slice::index::",
             "core::str::slice_error_fail", "core::cell::panic_")


def short(p):
    return mir_name(p)


class Graph:
    def __init__(self, ctx):
        self.ctx = ctx
        self.fns = {}        # key "crate::path" -> fn record
        self.by_short = {}
        for c in CRATES:
            m = ctx.mir(c)
            for p, fn in m.fns.items():
                k = "%s::%s" % (c, p)
                fn["_crate"] = c
                self.fns[k] = fn
        self.impls = {}      # trait path suffix -> [fn keys] of impl methods by method name
        for k, fn in self.fns.items():
            if fn.get("trait") and fn.get("name"):
                self.impls.setdefault((fn["trait"].split("::")[-1], fn["name"]), []).append(k)
        self.by_self_name = {}
        for k, fn in self.fns.items():
            if fn.get("name"):
                st = (fn.get("self") or "").split("::")[-1]
                self.by_self_name.setdefault((fn["_crate"], st, fn["name"]), []).append(k)
        self.edges = {}
        self.ext = {}
        for k, fn in self.fns.items():
            es, xs = set(), []
            c = fn["_crate"]
            for i, b in enumerate(fn["blocks"]):
                if b.get("cleanup"):
                    continue
                t = b["t"]
                if t["t"] != "call":
                    continue
                r = t.get("r")
                if r is None:
                    xs.append((i, t, "<indirect>"))
                    continue
                # formatting machinery: Argument::new_display::<T> calls <T as Display>::fmt through a fn pointer
                mfmt = re.search(r"fmt::rt::Argument::<?'?_?>?:*new_(display|debug|lower_hex|upper_hex)", r) or \
                    re.search(r"fmt::rt::Argument.*::new_(display|debug)", r)
                if mfmt:
                    tr = {"display": "Display", "debug": "Debug"}.get(mfmt.group(1), "Display")
                    ga = (t.get("ga") or "").strip("[]")
                    tys = [x.strip() for x in ga.split(",") if x.strip() and not x.strip().startswith("'")]
                    ty = (tys[0] if tys else "").lstrip("&").replace("mut ", "").split("<")[0]
                    last = ty.split("::")[-1]
                    for (c2, st2, nm2), ks in self.by_self_name.items():
                        if nm2 == "fmt" and st2 == last:
                            for k3 in ks:
                                if (self.fns[k3].get("trait") or "").endswith(tr):
                                    es.add(k3)
                rc = t.get("rc") or ""
                if t.get("rl") or rc in ("spirv", "rspirv"):
                    crate = c if t.get("rl") else rc
                    key = "%s::%s" % (crate, r)
                    if key in self.fns:
                        es.add(key)
                        continue
                    # cross-crate call: the two crates print paths differently; match by (self type, item name)
                    st = (t.get("rs") or "").split("::")[-1]
                    cands = self.by_self_name.get((crate, st, t.get("rn")), [])
                    if cands:
                        for cand in cands:
                            es.add(cand)
                        continue
                    # trait method without body (dyn / unresolved generic): all impls of that trait method in the workspace
                    tr = (t.get("rt") or "").split("::")[-1]
                    nm = t.get("rn")
                    cands = self.impls.get((tr, nm), [])
                    if cands:
                        for cand in cands:
                            es.add(cand)
                        continue
                    xs.append((i, t, "<unresolved-local:%s>" % r))
                    continue
                xs.append((i, t, r))
            # closures are reachable with their parent
            for k2 in self.fns:
                if k2.startswith(k + "::{closure"):
                    es.add(k2)
            self.edges[k] = es
            self.ext[k] = xs

    def find(self, suffix, crate="rspirv"):
        out = [k for k in self.fns if k.startswith(crate + "::") and mir_name(k).endswith(suffix)]
        return out

    def reachable(self, entries):
        seen = set()
        st = list(entries)
        while st:
            k = st.pop()
            if k in seen:
                continue
            seen.add(k)
            st += list(self.edges.get(k, ()))
        return seen


def norm_callee(r):
    """generic-free callee name for classification"""
    s = r
    # <T as Trait>::method  -> Trait::method (keeping the self type separately is not needed for classification)
    s = re.sub(r"<[^<>]*(<[^<>]*(<[^<>]*>)?[^<>]*>)?[^<>]*>", lambda m: m.group(0) if " as " in m.group(0) else "", s)
    m = re.match(r"^<(.*) as (.*)>::(\w+)$", s)
    if m:
        self_ty = re.sub(r"<.*>", "", m.group(1))
        tr = re.sub(r"<.*>", "", m.group(2))
        return "%s::%s [%s]" % (tr, m.group(3), self_ty)
    return s.replace("::::", "::")


def sites(graph, key):
    """panic-capable sites of one function: list of dicts (kind, detail, line)"""
    fn = graph.fns[key]
    out = []
    for i, b in enumerate(fn["blocks"]):
        if b.get("cleanup"):
            continue
        t = b["t"]
        if t["t"] == "assert":
            if t["kind"] in ("MisalignedPointerDereference", "NullPointerDereference"):
                continue
            out.append({"kind": "assert", "detail": t["kind"], "line": t["span"]["line"], "file": t["span"]["file"], "macro": t["span"].get("om")})
    for i, t, r in graph.ext[key]:
        out.append({"kind": "call", "detail": norm_callee(r), "line": t["span"]["line"], "file": t["span"]["file"], "macro": t["span"].get("om"),
                    "raw": r})
    return out
