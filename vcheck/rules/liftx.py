"""Symbolic evaluation of LiftContext::convert on one abstract module (C18 R-LIFT-2)."""
from ..core import Anchor
from ..symeval import SymEval, Hooks, NONE, UNIT, Panic as SPanic

LIFT = "rspirv::lift"


def I(name):
    return ("ainst", name)


# T5 is an array-like type: it refers to the earlier type T1 and to the earlier constant C2 (its length); C2 refers to its type T1.
# The storages panic on an id that has not been appended yet (HashMap index), so a use before the lift of its declaration is a panic.
DEPS = {"C2": [("types", "T1")], "T5": [("types", "T1"), ("constants", "C2")]}
RID = {"UNDEF": True, "TF": True, "DEF2": True, "LABEL3": True, "TERM3": False, "OP3": True, "LABEL2": True, "TERM2": False, "T5": True, "PHI2": True, "T1": True, "C2": True, "X3": True, "T4": False, "DEF": True, "LABEL": True, "LINE": False, "PHI": True, "OP1": True, "OP2": False, "TERM": False,
       "CAP0": False, "CAP1": False, "MM": False}
RTYPE = {"UNDEF": True, "DEF2": True, "OP3": True, "DEF": True, "PHI": True, "PHI2": True, "OP1": True, "C2": True}
OPCODE = {"UNDEF": "Undef", "TF": "TypeFunction", "DEF2": "Function", "LABEL3": "Label", "TERM3": "Return", "OP3": "IAdd", "LABEL2": "Label", "TERM2": "Return", "LINE": "Line", "PHI": "Phi", "PHI2": "Phi", "OP1": "IAdd", "OP2": "Store", "TERM": "Return", "T1": "TypeInt", "T4": "TypeForwardPointer", "T5": "TypeArray", "C2": "ConstantTrue",
          "X3": "Variable", "DEF": "Function", "LABEL": "Label", "CAP0": "Capability", "CAP1": "Capability", "MM": "MemoryModel"}


class H(Hooks):
    def __init__(self, ctx):
        from ..model import predeval
        self.pe = predeval(ctx)
        self.events = []
        self.nstor = 0

    def path(self, p):
        o = self.pe.resolve_op(p)
        if o is not None:
            return ("enum", "Op::" + o, [])
        return NotImplemented

    def field(self, base, name, e):
        if base == ("amodule",):
            if name == "types_global_values":
                return ("list", [I("T1"), I("C2"), I("X3"), I("T4"), I("T5"), I("TF")])
            if name == "functions":
                return ("list", [("afun",), ("afun", 2)])       # the second function must get its own blocks and start block
            if name == "capabilities":
                return ("list", [I("CAP0"), I("CAP1"), I("CAP0")])        # a capability declared twice stays declared twice
            if name == "memory_model":
                return ("some", I("MM"))
            if name == "header":
                return ("some", ("aheader",))
        if base == ("aheader",) and name == "version":
            return ("sym", "VERSION")
        if base == ("afun",):
            if name == "def":
                return ("some", I("DEF"))
            if name == "blocks":
                # the second block has no phi: it must not inherit the arguments of the first
                return ("list", [("ablock", 1), ("ablock", 2)])
        if base == ("afun", 2):
            if name == "def":
                return ("some", I("DEF2"))
            if name == "blocks":
                return ("list", [("ablock", 3)])
        if base == ("ablock", 3):
            if name == "instructions":
                return ("list", [I("TERM3")])
            if name == "label":
                return ("some", I("LABEL3"))
        if base == ("ablock", 1):
            if name == "instructions":
                return ("list", [I("LINE"), I("PHI"), I("PHI2"), I("OP1"), I("OP2"), I("TERM")])
            if name == "label":
                return ("some", I("LABEL"))
        if base == ("ablock", 2):
            if name == "instructions":
                return ("list", [I("OP3"), I("UNDEF"), I("TERM2")])      # OpUndef inside a block is a result-producing instruction like any other
            if name == "label":
                return ("some", I("LABEL2"))
        if isinstance(base, tuple) and base[0] == "ainst":
            n = base[1]
            if name == "result_id":
                return ("some", ("id", n)) if RID.get(n) else NONE
            if name == "result_type":
                # the two phis of the block have the same result type
                return ("some", ("rt", "PHI" if n == "PHI2" else n)) if RTYPE.get(n) else NONE
            if name == "class":
                return ("aclass", n)
            if name == "operands":
                if n in ("PHI", "PHI2"):
                    return ("list", [("enum", "Operand::IdRef", [("id", "SRC")]), ("enum", "Operand::IdRef", [("id", "LABEL")])])
                return ("list", [])
        if isinstance(base, tuple) and base[0] == "aclass" and name == "opcode":
            return ("enum", "Op::" + OPCODE[base[1]], [])
        return NotImplemented

    def call(self, p, args, e):
        if p == "Default::default:of" and len(args) == 1 and isinstance(args[0], tuple) and args[0] and args[0][0] == "storage":
            self.nstor += 1
            return ("storage", self.nstor)
        if p.endswith("LiftStorage::new") and not args:
            self.nstor += 1
            return ("storage", self.nstor)
        return NotImplemented

    def match_path(self, v, path):
        o = self.pe.resolve_op(path)
        if o is not None and isinstance(v, tuple) and v[0] == "enum":
            return v[1] == "Op::" + o
        return NotImplemented

    def binary(self, op, a, b, e):
        return NotImplemented

    def stor_name(self, ev, st):
        # name a storage object by the context field that currently or originally held it
        return self.names.get(st[1], "storage%d" % st[1])

    def mcall(self, recv, m, args, e, ev):
        if isinstance(recv, tuple) and recv[0] == "struct" and recv[1] == "LiftContext":
            if not hasattr(self, "names"):
                self.names = {v[1]: k for k, v in recv[2].items() if isinstance(v, tuple) and v[0] == "storage"}
            # which abstract instruction the call is about: the instruction itself, or (a helper taking its parts) its result type / id
            n = None
            for a in args:
                if isinstance(a, tuple) and a and a[0] == "some" and len(a) == 2:
                    a = a[1]
                if isinstance(a, tuple) and len(a) >= 2 and a[0] in ("ainst", "rt", "id") and n is None:
                    n = a[1]
            if m in ("lift_type", "lift_constant") and n in DEPS and ((m == "lift_type") == n.startswith("T")):
                for st, dep in DEPS[n]:
                    if not any(ev_[0] == "append_id" and ev_[1] == st and ev_[2] == ("id", dep) for ev_ in self.events):
                        raise SPanic("%s(%s) looks up %s of the earlier declaration %s, which has not been lifted yet" % (m, n, st[:-1], dep))
            if m == "lift_type" and n == "TF":
                # the function type both functions refer to; its return type is T1 - NOT the result type the definitions carry, so a
                # lifter that takes the function's result type from here instead of from the definition is noticed
                return ("ok", ("enum", "Type::Function", {"return_type": ("token", "types", ("id", "T1")), "parameter_types": ("list", [])}))
            if m == "lift_type":
                return ("ok", ("lifted_type", n)) if n in ("T1", "T4", "T5") else ("err", ("enum", "InstructionError::WrongOpcode", []))
            if m == "lift_constant":
                return ("ok", ("lifted_constant", n)) if n == "C2" else ("err", ("enum", "InstructionError::WrongOpcode", []))
            if m == "lift_function":
                self.events.append(("lift_function", n))
                return ("ok", ("struct", "Function", {"function_control": ("sym", "FUNCTION_CONTROL"), "function_type": ("id", "TF")}))
            if m == "lift_op":
                return ("ok", ("lifted_op", n))
            if m == "lift_terminator":
                return ("ok", ("lifted_terminator", n))
            if m == "lift_capability":
                return ("ok", ("struct", "Capability", {"capability": ("capability_of", n)}))
            if m == "lift_memory_model":
                return ("ok", ("lifted_memory_model", n))
        if isinstance(recv, tuple) and recv[0] == "storage":
            if not hasattr(self, "names"):
                self.names = {}
            nm = self.names.get(recv[1], "storage%d" % recv[1])
            if m == "append_id" and len(args) == 2:
                self.events.append(("append_id", nm, args[0], args[1]))
                return ("token", nm, args[0])
            if m == "append" and len(args) == 2:
                self.events.append(("append", nm, args[0], args[1]))
                return ("tuple", [("token", nm, args[0]), ("entry", nm, args[0])])
            if m == "lookup_token" and len(args) == 1:
                return ("token", nm, args[0])
            if m == "lookup_safe" and len(args) == 1:
                # what was appended under this id, if anything
                for ev_ in self.events:
                    if ev_[0] in ("append_id", "append") and ev_[1] == nm and ev_[2] == args[0]:
                        return ("some", ("tuple", [ev_[3], ("token", nm, args[0])]))
                return NONE
            if m == "lookup" and len(args) == 1:
                return ("tuple", [("value_of", nm, args[0]), ("info_of", nm, args[0])])
            if m == "unwrap" and not args:
                return ("contents", nm, recv[1])
        if isinstance(recv, tuple) and recv[0] == "entry" and m == "insert" and len(args) == 1:
            self.events.append(("entry.insert", recv[1], recv[2], args[0]))
            return UNIT
        return NotImplemented


def convert(ctx):
    f = ctx.rspirv.fn(LIFT, "convert", "LiftContext", False)
    h = H(ctx)
    h.self_ty = "LiftContext"
    ev = SymEval(h, "LiftContext::convert")
    try:
        r = ev.run(f, {f["sig"]["params"][0][0]: ("amodule",)})
    except SPanic as x:
        return ("panic", str(x)), h
    return r, h


class _AnyFreshStorage:
    """the name of the block storage created for the second function (not one of the context's original fields)"""

    def __eq__(self, other):
        return isinstance(other, str) and other.startswith("storage")

    def __ne__(self, other):
        return not self.__eq__(other)

    def __repr__(self):
        return "<the second function's own block storage>"


SECOND_BLOCKS = _AnyFreshStorage()


def expected():
    tok = lambda st, i: ("token", st, i)
    events = [
        ("append_id", "types", ("id", "T1"), ("lifted_type", "T1")),
        ("append_id", "constants", ("id", "C2"), ("lifted_constant", "C2")),
        ("append_id", "types", ("id", "T5"), ("lifted_type", "T5")),
        ("append_id", "types", ("id", "TF"), ("enum", "Type::Function", {"return_type": ("token", "types", ("id", "T1")), "parameter_types": ("list", [])})),
        ("lift_function", "DEF"),
        ("append", "ops", ("id", "OP1"), ("lifted_op", "OP1")),
        ("entry.insert", "ops", ("id", "OP1"), ("struct", "OpInfo", {"op": tok("ops", ("id", "OP1")), "ty": ("some", ("info_of", "types", ("rt", "OP1")))})),
        ("append_id", "blocks", ("id", "LABEL"), ("struct", "Block", {"arguments": ("list", [tok("types", ("rt", "PHI")), tok("types", ("rt", "PHI"))]), "ops": ("list", []),
                                                                        "terminator": ("lifted_terminator", "TERM")})),
        ("append", "ops", ("id", "OP3"), ("lifted_op", "OP3")),
        ("entry.insert", "ops", ("id", "OP3"), ("struct", "OpInfo", {"op": tok("ops", ("id", "OP3")), "ty": ("some", ("info_of", "types", ("rt", "OP3")))})),
        ("append", "ops", ("id", "UNDEF"), ("lifted_op", "UNDEF")),
        ("entry.insert", "ops", ("id", "UNDEF"), ("struct", "OpInfo", {"op": tok("ops", ("id", "UNDEF")), "ty": ("some", ("info_of", "types", ("rt", "UNDEF")))})),
        ("append_id", "blocks", ("id", "LABEL2"), ("struct", "Block", {"arguments": ("list", []), "ops": ("list", []), "terminator": ("lifted_terminator", "TERM2")})),
        ("lift_function", "DEF2"),
        ("append_id", SECOND_BLOCKS, ("id", "LABEL3"), ("struct", "Block", {"arguments": ("list", []), "ops": ("list", []), "terminator": ("lifted_terminator", "TERM3")})),
    ]
    return events
