"""Small-scope abstract evaluation of the hand-written Decoder requests (string, words, bit64, word) on the syntax tree.

State space: a buffer of PRE symbolic prefix bytes followed by r remaining bytes (0 <= r <= RMAX), the offset at PRE, a limit in
{None, 0..LMAX}, the index p of the first NUL among the remaining bytes (or none), UTF-8 validity of the bytes before it.
Bytes are symbols ("byte", absolute index) so that a returned word/string names exactly which buffer bytes it was built from; the
NUL bytes are the integer 0.  Arithmetic on offsets/limits is exact integer arithmetic with usize underflow reported as a panic.
All conditions of the code under analysis compare terms built from offset, len, limit, p with +,-,*,/ by WORD_NUM_BYTES = 4, so
a scope of three whole words plus every residue (r <= 13, limit <= 4) exercises every ordering of those terms."""
from ..core import Anchor
from ..symeval import SymEval, Hooks, NONE, UNIT, Panic as SPanic, Return
from . import codec

DEC = "rspirv::binary::decoder"
PRE = 4
RMAX = 13
LMAX = 4
HUGE = [2 ** 62, 2 ** 64 - 1]        # limits whose byte count does not fit a usize: limit * 4 must not be computed unguarded


class DH(Hooks):
    def __init__(self, ctx, methods, consts, selfv, utf8_ok=True, typed=None, multibyte=False):
        self.multibyte = multibyte
        self.ctx, self.methods, self.consts, self.selfv, self.utf8_ok = ctx, methods, consts, selfv, utf8_ok
        self.typed = typed
        self.depth = 0

    def path(self, p):
        if p in self.consts and self.consts[p] is not None:
            return self.consts[p]
        return NotImplemented

    def binary(self, op, a, b, e):
        def isbyte(x):
            return isinstance(x, tuple) and x and x[0] == "byte"
        if op in ("==", "!=") and (isbyte(a) or isbyte(b)):
            other = b if isbyte(a) else a
            if other == 0:
                return op == "!="
            if isbyte(other):
                return (a == b) == (op == "==")
        if op in ("<<", "|") and (isinstance(a, tuple) or isinstance(b, tuple)):
            return ("bits", op, a, b)
        return NotImplemented

    def call(self, p, args, e):
        last = p.split("::")[-1]
        if last == "from_utf8" and len(args) == 1:
            a = args[0]
            if not (isinstance(a, tuple) and a[0] == "list"):
                return NotImplemented
            return ("ok", ("utf8", tuple(a[1]))) if self.utf8_ok else ("err", ("sym", "Utf8Error"))
        if last in ("from_utf8_lossy", "from_utf8_unchecked") and len(args) == 1:
            raise Anchor("%s: the string is not validated" % last)
        if last == "from_le_bytes" and len(args) == 1 and isinstance(args[0], tuple) and args[0][0] == "list":
            return ("le", tuple(args[0][1]))
        if last == "from" and len(args) == 1 and isinstance(args[0], tuple) and args[0][0] in ("le", "utf8"):
            return args[0]
        if last in ("min", "max") and len(args) == 2 and all(isinstance(a, int) for a in args):
            return min(args) if last == "min" else max(args)
        if self.typed is not None and last in ("from_u32", "from_bits") and len(args) == 1:
            return ("some", ("typed", p, args[0])) if self.typed else NONE
        return NotImplemented

    def mcall(self, recv, m, args, e, ev):
        if recv is self.selfv and m in self.methods:
            f = self.methods[m]
            ps = [q[0] for q in f["sig"]["params"] if q[0] != "self"]
            if len(ps) != len(args) or self.depth > 6:
                return NotImplemented
            self.depth += 1
            ev.note_ret(f)
            self.ctx.memo("inlined_fns", dict).setdefault("Decoder::%s" % m, set()).add(ev.what)
            try:
                try:
                    return ev.block(f["body"], dict(zip(ps, args), self=self.selfv))
                except Return as r:
                    return r.v
            finally:
                self.depth -= 1
        if isinstance(recv, tuple) and recv and recv[0] == "utf8":
            # a validated string: its byte length is the number of bytes; with `multibyte` its first two bytes are one character
            nbytes = len(recv[1])
            nchars = nbytes - 1 if (self.multibyte and nbytes >= 2) else nbytes
            if m == "len" and not args:
                return nbytes
            if m in ("as_bytes", "bytes") and not args:
                return ("list", list(recv[1]))
            if m == "chars" and not args:
                return ("list", [("char", i) for i in range(nchars)])
            if m == "char_indices" and not args:
                return ("list", [("tuple", [i if not (self.multibyte and nbytes >= 2 and i) else i + 1, ("char", i)]) for i in range(nchars)])
            if m == "is_empty" and not args:
                return nbytes == 0
        if isinstance(recv, int) and not isinstance(recv, bool):
            if m in ("min", "max") and len(args) == 1 and isinstance(args[0], int):
                return min(recv, args[0]) if m == "min" else max(recv, args[0])
            if m in ("checked_sub",) and len(args) == 1 and isinstance(args[0], int):
                return ("some", recv - args[0]) if recv >= args[0] else NONE
            if m in ("saturating_sub",) and len(args) == 1 and isinstance(args[0], int):
                return max(0, recv - args[0])
            if m == "div_ceil" and len(args) == 1 and isinstance(args[0], int) and args[0]:
                return -(-recv // args[0])
        if isinstance(recv, tuple) and recv and recv[0] == "list":
            if m == "try_into" and not args:
                return ("ok", recv)
            if m == "split_at" and len(args) == 1 and isinstance(args[0], int):
                if args[0] > len(recv[1]):
                    raise SPanic("split_at beyond the slice")
                return ("tuple", [("list", recv[1][:args[0]]), ("list", recv[1][args[0]:])])
            if m == "take" and len(args) == 1 and isinstance(args[0], int):
                return ("list", recv[1][:args[0]])
        if isinstance(recv, tuple) and recv and recv[0] == "range" and m in ("map", "into_iter", "iter"):
            return NotImplemented
        return NotImplemented


def state(r, limit, p, padded=True):
    """the Decoder value: PRE prefix bytes (a NUL among them, so a scan from 0 would be noticed), then r bytes with the first NUL at p;
    padded: the rest of the terminator's word is zero (as an assembler writes it); otherwise every byte after the NUL is non-zero"""
    pre = [0 if i % 2 == 0 else ("byte", i) for i in range(PRE)]
    rest = []
    for i in range(r):
        if p is not None and (i == p or (padded and i >= p and i // 4 == p // 4)):
            rest.append(0)                       # the terminator (and its padding to the word boundary)
        else:
            rest.append(("byte", PRE + i))
    return ("struct", "Decoder", {"bytes": ("list", pre + rest), "offset": PRE, "limit": NONE if limit is None else ("some", limit)})


def evaluate(ctx, name, r, limit, p=None, utf8_ok=True, args=None, typed=None, padded=True, multibyte=False):
    """-> dict(result, offset, limit, panic)"""
    dm = codec.decoder_methods(ctx)
    if name not in dm:
        raise Anchor("Decoder::%s not found" % name)
    methods = {k: v["fn"] for k, v in dm.items()}
    consts = codec.consts_of(ctx, DEC)
    sv = state(r, limit, p, padded)
    h = DH(ctx, methods, consts, sv, utf8_ok, typed, multibyte)
    ev = SymEval(h, "Decoder::" + name)
    f = methods[name]
    ps = [q[0] for q in f["sig"]["params"] if q[0] != "self"]
    env = dict(zip(ps, args or []), self=sv)
    out = {}
    try:
        out["result"] = ev.run(f, env)
    except SPanic as x:
        out["panic"] = str(x)
    out["offset"] = sv[2]["offset"]
    lim = sv[2]["limit"]
    out["limit"] = None if lim == NONE else lim[1]
    out["len"] = PRE + r
    return out


def string_reference(r, limit, p, utf8_ok):
    """what the property demands of string() in this state -> (kind, payload, offset', limit')"""
    window = r if limit is None else min(4 * limit, r)
    O = PRE
    if p is None or p >= window:
        if limit is not None and 4 * limit <= r:
            return ("err", "LimitReached", O + 4 * limit, O, limit)
        return ("err", "StreamExpected", O, O, limit)
    if not utf8_ok:
        return ("err", "DecodeStringFailed", O, O, limit)
    consumed = p // 4 + 1
    if 4 * consumed > r:
        return ("err", "StreamExpected", O, O, limit)
    return ("ok", tuple(("byte", O + i) for i in range(p)), None, O + 4 * consumed, None if limit is None else limit - consumed)


def scope(ctx):
    """(largest number of bytes left, largest small limit): at least RMAX / LMAX, more if the decoder code counts further"""
    if ctx is None:
        return RMAX, LMAX
    from ..tree import small_literals
    k = 0
    for name in ("string", "words", "word", "bit64"):
        try:
            k = max([k] + list(small_literals(ctx.rspirv.fn(DEC, name, "Decoder")["body"]) - {4}))
        except Anchor:
            pass
    return max(RMAX, 4 * (k + 1) + 1), max(LMAX, k + 1)


def thresholds(ctx):
    """integer literals above 8 (up to 2^20) in the bodies of the string / word requests: byte positions around them are evaluated too"""
    if ctx is None:
        return []
    from ..tree import big_literals
    out = set()
    for name in ("string", "words", "word"):
        try:
            out |= big_literals(ctx.rspirv.fn(DEC, name, "Decoder")["body"])
        except Anchor:
            pass
    return sorted(out)[:3]


def string_cases(ctx=None):
    rmax, lmax = scope(ctx)
    for t_ in thresholds(ctx):
        # the code mentions the number t_: strings whose terminator lies just below, at and above it (and a word further)
        for p in sorted({t_ - 1, t_, t_ + 1, t_ + 4, (t_ // 4) * 4 + 3}):
            if p >= 0:
                yield p + 5, None, p, True
                yield p + 5, p // 4 + 2, p, True
    for r in range(0, rmax + 1):
        for limit in [None] + list(range(0, lmax + 1)) + HUGE:
            for p in [None] + list(range(r)):
                for u in ((True, False) if p is not None else (True,)):
                    yield r, limit, p, u
                if p is not None and p % 4 != 3:
                    yield r, limit, p, "unpadded"      # non-zero bytes after the terminator: the string still ends at the first NUL
                if p is not None and p >= 2 and p % 4 in (0, 1):
                    yield r, limit, p, "multibyte"     # the first two bytes are one character: characters != bytes


def string_problem(ctx):
    """None if Decoder::string agrees with the reference in every evaluated state, else the first difference"""
    def build():
        try:
            for r, lim, pz, u8 in string_cases(ctx):
                out = evaluate(ctx, "string", r, lim, pz, u8 is not False, padded=(u8 != "unpadded"), multibyte=(u8 == "multibyte"))
                if "panic" in out:
                    return "string(bytes left=%d, limit=%s, first NUL at %s) panics: %s" % (r, lim, pz, out["panic"])
                ref = string_reference(r, lim, pz, u8 is not False)
                v = out["result"]
                if isinstance(v, tuple) and v[0] == "err" and isinstance(v[1], tuple) and v[1][0] == "enum" and v[1][2]:
                    got = ("err", v[1][1].split("::")[-1], v[1][2][0], out["offset"], out["limit"])
                elif isinstance(v, tuple) and v[0] == "ok" and isinstance(v[1], tuple) and v[1][0] == "utf8":
                    got = ("ok", v[1][1], None, out["offset"], out["limit"])
                else:
                    got = ("?", v)
                if got != ref:
                    return "string(bytes left=%d, limit=%s, first NUL at %s) yields %s" % (r, lim, pz, describe(out))
        except Anchor as ex:
            return "not in an analysable shape: %s" % ex
        return None
    return ctx.memo("stringx_string_problem", build)


def describe(out):
    if "panic" in out:
        return "panics (%s)" % out["panic"]
    v = out["result"]
    if isinstance(v, tuple) and v[0] == "err" and isinstance(v[1], tuple) and v[1][0] == "enum":
        return "Err(%s(%s)), offset %s, limit %s" % (v[1][1].split("::")[-1], ", ".join(str(a) if isinstance(a, int) else "_" for a in v[1][2]), out["offset"], out["limit"])
    if isinstance(v, tuple) and v[0] == "ok":
        return "Ok(%s), offset %s, limit %s" % (short(v[1]), out["offset"], out["limit"])
    return "%r" % (v,)


def short(v):
    if isinstance(v, tuple) and v and v[0] in ("utf8", "le"):
        idx = [b[1] if isinstance(b, tuple) else "NUL" for b in v[1]]
        if len(idx) > 8:
            return "%s(%d bytes %s..%s)" % (v[0], len(idx), idx[0], idx[-1])
        return "%s(bytes %s)" % (v[0], idx)
    if isinstance(v, tuple) and v and v[0] == "list":
        return "[%s]" % ", ".join(short(x) for x in v[1])
    return repr(v)


HAND = {"id": 1, "bit32": 1, "ext_inst_integer": 1, "bit64": 2, "words": None}


def word_seq(r, lim, n):
    """reference: n successive word() requests from the state (PRE, r, lim) -> (result, offset, limit)"""
    off, words = PRE, []
    for _ in range(n):
        if lim == 0:
            return ("err", "LimitReached", off), off, lim
        if r - (off - PRE) < 4:
            return ("err", "StreamExpected", off), off, None      # the limit may or may not have been charged
        words.append(tuple(("byte", off + i) for i in range(4)))
        off += 4
        lim = None if lim is None else lim - 1
    return ("ok", words), off, lim


def terms(v, sh=0):
    """a combination of little-endian byte groups by <<, |, +, ^ -> {(byte, shift)} (None: something else)"""
    if v == 0 and not isinstance(v, bool):
        return set()
    if isinstance(v, tuple) and v and v[0] == "le":
        return {(b_, sh + 8 * i_) for i_, b_ in enumerate(v[1])}
    if isinstance(v, tuple) and v and v[0] == "bits" and v[1] == "<<" and isinstance(v[3], int):
        return terms(v[2], sh + v[3])
    if isinstance(v, tuple) and v and v[0] == "bits" and v[1] in ("|", "+", "^"):
        a_, b_ = terms(v[2], sh), terms(v[3], sh)
        return None if a_ is None or b_ is None else a_ | b_
    return None


def hand_states(ctx, mname):
    """evaluate the hand-written request `mname` in every small-scope state -> [(instance, out, good, reference text)]"""
    def build():
        res = []
        for nw in ([HAND[mname]] if HAND[mname] is not None else [0, 1, 2, 3, 5]):
            rmax, lmax = scope(ctx)
            for r in (range(0, rmax + 1) if nw < 5 else (16, 19, 20, 23)):
                for lim in [None] + list(range(0, lmax + 1)) + HUGE:
                    inst = "%s(%sbytes left=%d, limit=%s)" % (mname, "n=%d, " % nw if mname == "words" else "", r, lim)
                    out = evaluate(ctx, mname, r, lim, args=[nw] if mname == "words" else [])
                    ref, roff, rlim = word_seq(r, lim, nw)
                    reft = "%d successive word() requests yield %s, offset %s, limit %s" % (
                        nw, ref if ref[0] == "err" else "Ok(words %s)" % [[b[1] for b in w] for w in ref[1]], roff, rlim)
                    if "panic" in out:
                        res.append((inst, out, False, reft))
                        continue
                    v = out["result"]
                    good = False
                    if ref[0] == "err":
                        good = (isinstance(v, tuple) and v[0] == "err" and isinstance(v[1], tuple) and v[1][0] == "enum"
                                and v[1][1].split("::")[-1] == ref[1] and v[1][2] == [ref[2]] and out["offset"] == roff
                                and (rlim is None or out["limit"] == rlim))
                    elif isinstance(v, tuple) and v[0] == "ok":
                        if mname == "words":
                            good = isinstance(v[1], tuple) and v[1][0] == "list" and \
                                [x[1] if isinstance(x, tuple) and x[0] == "le" else x for x in v[1][1]] == ref[1]
                        elif mname == "bit64":
                            good = terms(v[1]) == terms(("le", tuple(ref[1][0]) + tuple(ref[1][1])))       # byte k of the two words at bit 8k
                        else:
                            good = v[1] == ("le", ref[1][0])
                        good = good and out["offset"] == roff and out["limit"] == rlim
                    res.append((inst, out, good, reft))
        return res
    return ctx.memo("stringx_hand_" + mname, build)


def hand_problem(ctx, mname):
    """None if Decoder::<mname> equals the composition of word() requests in every state, else a description of the first difference"""
    try:
        for inst, out, good, reft in hand_states(ctx, mname):
            if not good:
                return "%s yields %s; %s" % (inst, describe(out), reft)
    except Anchor as ex:
        return "not in an analysable shape: %s" % ex
    return None
