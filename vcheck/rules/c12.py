"""C12 Builder calls never panic, failed calls change nothing, structure is enforced."""
from ..core import Anchor
from ..tree import mir_name, where
from . import builder, buildeval

EXPLANATION = (
    "Every public Builder method (1175) is evaluated in every reachable selection state (selected_function in {none, valid, stale}, "
    "selected_block in {none, valid, stale}), each state being represented by concrete builders over modules of up to two functions "
    "with up to two blocks, with every combination of index-like arguments (Option<usize> in {None, 0, 1, 9}, the four insert points) "
    "and the other optional arguments absent / present; calls to other Builder methods are inlined; methods whose bodies differ only "
    "in opcode, operand kinds and parameter names share one evaluation. The reachable state set is closed from Builder::new() under "
    "all methods. R-INV: no path "
    "panics (index with a stale selection, expect on Err) and the invariant `block selected => function selected and index valid "
    "for it` holds in every reachable state; R-GUARD: the guard table of the statement; R-ATOMIC: no path returning Err has "
    "mutated the module's instructions. Insertion offsets are assumed within the block as the statement says.")
EXHAUSTIVE = False     # the abstract inputs are a stated finite scope, not the whole input space

# outside the property's quantifier (constructors, accessors, helpers that are documented to panic on foreign modules)
OUTSIDE = {"new", "new_from_module", "default", "module", "module_ref", "module_mut", "find_return_block_indices"}

INIT = (None, None)


def sname(s):
    return "(function %s, block %s)" % (s[0] or "none", s[1] or "none")


def run(ctx, chk):
    raw = ctx.raw
    bx = buildeval.BuilderE(ctx)
    ms = {m["name"]: m for m in builder.methods(ctx)}
    entry = sorted(n for n, f in bx.methods.items() if f["vis"] == "pub" and n not in OUTSIDE)
    chk.assumptions += ["insertion offsets passed to insert_* lie within the selected block (property statement)",
                        "module_mut() hands out &mut Module: histories that edit the module behind the builder's back are excluded",
                        "the methods %s are outside the property's quantifier" % sorted(OUTSIDE)]

    RS = chk.rule("R-WHO", "the selection fields are written only by hand-written methods of build/mod.rs (type-checked field-write "
                  "census): generated code reaches the selection only through insert_into_block / end_block")
    mir = ctx.mir("rspirv")
    writers = set()
    for p, fn in mir.fns.items():
        for b in fn["blocks"]:
            for s in b["s"]:
                if s["f"] == "fw" and s["chain"] and s["chain"][-1][0].endswith("Builder") and s["chain"][-1][1] in ("selected_function", "selected_block"):
                    writers.add((mir_name(p), s["span"]["file"]))
    for wn, file in sorted(writers):
        chk.check(RS, file.endswith("dr/build/mod.rs"), "writer:" + wn, "%s (in %s) writes the selection" % (wn, file), file)
    chk.floor(RS, "selection writers", len(writers), 1)         # non-vacuity of the field-write facts only: a refactor may route every write through one helper

    # ---- reachable states and per-(method, state) paths
    RI = chk.rule("R-INV", "in every selection state reachable from Builder::new(), no public method has a panicking path, and every "
                  "reachable state satisfies: block selected => function selected and the block index is valid for that function")
    reach = {INIT: None}
    frontier = [INIT]
    results = {}
    try:
        while frontier:
            st = frontier.pop(0)
            for name in entry:
                ps = bx.paths(name, st)
                results[(name, st)] = ps
                for p in ps:
                    if p["outcome"] == "panic":
                        continue
                    nx = p["next"]
                    if nx not in reach:
                        reach[nx] = (st, name, p["trace"])
                        frontier.append(nx)
    except Anchor as ex:
        chk.bad(RI, "interpretation", "a Builder method is not in an analysable shape: %s" % ex, "rspirv/dr/build/mod.rs", key="C12:shape:%s" % str(ex)[:60])
        return

    def history(st):
        h = []
        while reach.get(st) is not None:
            prev, name, tr = reach[st]
            h.append(name)
            st = prev
        return ["new"] + list(reversed(h))
    npaths = 0

    def good_state(st):
        return not (st[1] is not None and st[0] is None) and st[1] != "stale" and st[0] != "stale"
    # transitions that break the invariant (root causes); consequences (panics in bad states) are attached as examples
    breakers = {}
    for (name, st), ps in results.items():
        for p in ps:
            npaths += 1
            if p["outcome"] != "panic" and good_state(st) and not good_state(p["next"]):
                breakers.setdefault(name, (st, p["next"], p["trace"]))
    for st in sorted(reach, key=str):
        if good_state(st):
            chk.ok(RI, "state" + sname(st))
    for name, (st, nx, tr) in sorted(breakers.items()):
        cons = None
        for (n2, s2), ps in sorted(results.items(), key=str):
            if s2 == nx:
                for p in ps:
                    if p["outcome"] == "panic":
                        cons = "%s then panics: %s" % (n2, p["what"])
                        break
            if cons:
                break
        chk.bad(RI, "Builder::%s from %s" % (name, sname(st)),
                "after the history %s, Builder::%s leaves the selection in %s: the block selection no longer designates a block of the "
                "selected function%s" % ("; ".join(history(st)), name, sname(nx), ("; e.g. " + cons) if cons else ""),
                raw.where(name, "Builder", "build/"), key="C12:breaks-invariant:%s" % name)
    for (name, st), ps in sorted(results.items(), key=str):
        if not good_state(st):
            continue
        pan = [p for p in ps if p["outcome"] == "panic"]
        if pan:
            chk.bad(RI, "Builder::%s in %s" % (name, sname(st)), "panics after the history %s; %s: %s" % (
                "; ".join(history(st)), name, pan[0]["what"]), raw.where(name, "Builder", "build/"), key="C12:panic:%s:%s" % (name, sname(st)))
        else:
            chk.ok(RI, "Builder::%s in %s" % (name, sname(st)))
    chk.floor(RI, "public methods interpreted", len(entry), 1160)

    RG = chk.rule("R-GUARD", "begin_function fails iff a function is selected; begin_block[_no_label] iff no function or a block is "
                  "selected; block instructions / terminators / pop_instruction iff no block is selected; function_parameter / "
                  "end_function iff no function is selected; a terminator deselects the block; end_function deselects the function")
    VALID = [(None, None), ("valid", None), ("valid", "valid")]

    def outcomes(name, st):
        ps = results.get((name, st)) or bx.paths(name, st)
        return ps
    expect = {}
    for n in ("begin_function",):
        expect[n] = lambda st: "NestedFunction" if st[0] else None
    for n in ("begin_block", "begin_block_no_label"):
        expect[n] = lambda st: "DetachedBlock" if not st[0] else ("NestedBlock" if st[1] else None)
    expect["function_parameter"] = lambda st: None if st[0] else "DetachedFunctionParameter"
    expect["end_function"] = lambda st: None if st[0] else "MismatchedFunctionEnd"
    expect["pop_instruction"] = lambda st: None if st[1] else "DetachedInstruction"
    from .. import ospec
    inblock = [m for m in ms.values() if m["emits"] and m["sink"] and m["sink"][0] in ("block", "end_block") and m["vis"] == "pub"]
    # classification by opcode (O-SPEC block-termination instructions), not by what the method happens to call
    term_methods = [m for m in inblock if m["opcode"] in ospec.BLOCK_TERMINATION]
    block_methods = [m for m in inblock if m["opcode"] not in ospec.BLOCK_TERMINATION]
    for m in block_methods:
        expect[m["name"]] = lambda st: None if st[1] else "DetachedInstruction"
    for m in term_methods:
        expect[m["name"]] = lambda st: None if st[1] else "MismatchedTerminator"
    ng = 0
    for name, fexp in sorted(expect.items()):
        if name not in bx.methods:
            chk.bad(RG, "Builder::" + name, "method missing", None)
            continue
        for st in VALID:
            ng += 1
            want = fexp(st)
            ps = outcomes(name, st)
            errs = {p["err"] for p in ps if p["outcome"] == "err"}
            oks = [p for p in ps if p["outcome"] == "ok"]
            inst = "Builder::%s in %s" % (name, sname(st))
            w = raw.where(name, "Builder", "build/")
            if want is None:
                extra = errs - ({"EmptyInstructionList"} if name == "pop_instruction" else set())
                good = bool(oks) and not extra
                what = "must succeed in this state but can fail with %s" % sorted(extra) if extra else "has no succeeding path"
            else:
                good = not oks and errs == {want}
                what = "must fail with %s in this state but %s" % (want, ("succeeds" if oks else "fails with %s" % sorted(errs)))
            chk.check(RG, good, inst, what, w, key="C12:guard:%s:%s" % (name, sname(st)))
            # state effects on success
            if want is None and oks:
                nexts = {p["next"] for p in oks}
                if name == "begin_function":
                    ok2 = nexts == {("valid", None)}
                elif name in ("begin_block", "begin_block_no_label"):
                    ok2 = nexts == {("valid", "valid")}
                elif name == "end_function":
                    ok2 = all(n[0] is None for n in nexts)
                elif name in [m["name"] for m in term_methods]:
                    ok2 = nexts == {(st[0], None)}
                else:
                    ok2 = nexts == {st}
                chk.check(RG, ok2, inst + ":next-state", "leaves the selection in %s" % sorted(map(sname, nexts)), w,
                          key="C12:next:%s:%s" % (name, sname(st)))
    chk.floor(RG, "guard table cells", ng, (1 + 2 + 3 + len(block_methods) + len(term_methods)) * 3 if block_methods else 3000)
    chk.floor(RG, "block-instruction methods", len(block_methods), 1015)

    RA = chk.rule("R-ATOMIC", "on every path of every public method that returns Err, the instructions of the module under "
                  "construction have not been modified (reserving an id is allowed)")
    for (name, st), ps in sorted(results.items(), key=str):
        if not good_state(st):
            continue
        bad = [p for p in ps if p["outcome"] == "err" and p["mutated"]]
        inst = "Builder::%s in %s" % (name, sname(st))
        if bad:
            chk.bad(RA, inst, "returns Err(%s) after modifying the module (path %s)" % (bad[0]["err"], bad[0]["trace"]),
                    raw.where(name, "Builder", "build/"), key="C12:atomic:%s" % name)
        elif any(p["outcome"] == "err" for p in ps):
            chk.ok(RA, inst)
    chk.analysed.update({"public_methods": len(entry), "reachable_states": sorted(map(sname, reach)), "paths": npaths,
                         "method_state_pairs": len(results)})
