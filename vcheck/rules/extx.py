"""Evaluation of ExtInstSetTracker::{new, track, have, resolve} on a tracker value built by new() (shared by C07 and C04).

track() is evaluated on instruction values (opcode, result id present or not, operand list); what the tracker then knows is read
off through the code's own have() and resolve(): `records` is the list of (id, table) pairs for which have(id) holds and
resolve(id, OPCODE) looks OPCODE up in that table.  histories(): every sequence of up to three track() calls over an alphabet with
two ids, the two known set names (one of them imported under both ids), an unknown set name, an import without result id and an
instruction that is not an import."""
import itertools
import re

from ..core import Anchor
from ..symeval import NONE, Panic as SPanic
from . import progx

TRK = "rspirv::binary::tracker"
OPC = ("sym", "OPCODE")
IDS = (7, 9, 11)
SETS = {"glsl": ("GLSL.std.450", "GlslStd450InstructionTable", "GlslStd450"), "opencl": ("OpenCL.std", "OpenCLStd100InstructionTable", "OpenCLStd100")}


def _aliases(ctx):
    out = {}
    for i in ctx.rspirv.items(TRK, "use"):
        for real, alias in re.findall(r"(\w+)\s+as\s+(\w+)", i["tree"]):
            out[alias] = real
    return out


class H(progx.OpHooks):
    def __init__(self, ctx):
        progx.OpHooks.__init__(self, ctx)
        self.self_ty = "ExtInstSetTracker"
        self.alias = _aliases(ctx)

    def call(self, p, args, e):
        segs = p.split("::")
        if segs[-1] == "lookup_opcode" and len(args) == 1 and len(segs) >= 2:
            return ("lookup", self.alias.get(segs[-2], segs[-2]), args[0])       # which table is consulted, with which number
        return progx.OpHooks.call(self, p, args, e)


def S(s):
    return ("enum", "Operand::LiteralString", [("str", s)])


def instruction(opcode, rid, operands):
    return ("struct", "Instruction", {"class": ("struct", "Instruction", {"opcode": ("enum", "Op::" + opcode, []), "opname": ("str", opcode), "capabilities": ("list", []),
                                                                          "extensions": ("list", []), "operands": ("list", [])}),
                                      "result_type": NONE, "result_id": ("some", rid) if rid is not None else NONE, "operands": ("list", list(operands))})


def _fn(ctx, name):
    return ctx.rspirv.fn(TRK, name, "ExtInstSetTracker")


def _run(ctx, name, env):
    f = _fn(ctx, name)
    ps = [q[0] for q in f["sig"]["params"] if q[0] != "self"]
    full = {"self": env[0]} if env[0] is not None else {}
    full.update(dict(zip(ps, env[1:])))
    return progx.make(H(ctx), "ExtInstSetTracker::" + name).run(f, full)


def fresh(ctx):
    t = _run(ctx, "new", (None,))
    if not (isinstance(t, tuple) and t and t[0] == "struct"):
        raise Anchor("ExtInstSetTracker::new() is not a struct value: %r" % (t,))
    return t


def records(ctx, t):
    """what the tracker knows, through have() and resolve(): [(id, real table name)]; Anchor if the two disagree or resolve does
    something else than looking the number up in one table"""
    out = []
    for i in IDS:
        hv = _run(ctx, "have", (t, i))
        rs = _run(ctx, "resolve", (t, i, OPC))
        if not isinstance(hv, bool):
            raise Anchor("have(%d) is undecided: %r" % (i, hv))
        if rs == NONE:
            tab = None
        elif isinstance(rs, tuple) and len(rs) == 3 and rs[0] == "lookup" and rs[2] == OPC:
            tab = rs[1]
        else:
            raise Anchor("resolve(%d, OPCODE) is neither None nor a lookup of OPCODE in a table: %r" % (i, rs))
        if hv != (tab is not None):
            out.append((i, "have=%s but resolve consults %s" % (hv, tab)))
        elif hv:
            out.append((i, tab))
    return out


def track_cases():
    out = []
    for opcode in ("ExtInstImport", "Extension", "Nop"):
        for rid in (True, False):
            # the statement names exactly two set names: other names, also ones sharing a prefix with them or extending them, are unknown sets
            near = [("other:" + n_, [S(n_)]) for n_ in ("", "GLSL.std.45", "GLSL.std.4500", "GLSL.std.", "glsl.std.450", "OpenCL.std.100", "OpenCL.", "OpenCL.DebugInfo.100",
                                                        "OpenCL.st", " OpenCL.std")]
            for name, ops in [("none", []), ("glsl", [S("GLSL.std.450")]), ("opencl", [S("OpenCL.std")]), ("other", [S("NonSemantic.DebugPrintf")]),
                              ("idref", [("enum", "Operand::IdRef", [("id", "X")])])] + (near if (opcode == "ExtInstImport" and rid) else []):
                want = []
                if opcode == "ExtInstImport" and rid and name in SETS:
                    want = [(IDS[0], SETS[name][1])]
                out.append(("%s rid=%s operands=%s" % (opcode, rid, name), opcode, rid, ops, want))
    return out


def track_eval(ctx, opcode, rid, operands):
    t = fresh(ctx)
    try:
        _run(ctx, "track", (t, instruction(opcode, IDS[0] if rid else None, operands)))
    except SPanic as x:
        return ("panic", str(x))
    return ("ok", records(ctx, t))


ALPHABET = [("import %d glsl", "ExtInstImport", 7, "glsl"), ("import %d glsl", "ExtInstImport", 9, "glsl"), ("import %d opencl", "ExtInstImport", 9, "opencl"),
            ("import %d opencl", "ExtInstImport", 11, "opencl"), ("import %d other", "ExtInstImport", 11, "other"), ("import <no id> glsl", "ExtInstImport", None, "glsl"),
            ("extension %d glsl", "Extension", 11, "glsl")]


def histories(ctx):
    """[(history text, problem or None)] for every sequence of up to three track() calls that does not import under one id twice"""
    def build():
        out = []
        for ln in (1, 2, 3):
            for hist in itertools.product(ALPHABET, repeat=ln):
                imp = [a[2] for a in hist if a[1] == "ExtInstImport" and a[2] is not None]
                if len(imp) != len(set(imp)):
                    continue        # the same id declared twice: not a module the property speaks of
                text = "; ".join((a[0] % a[2]) if "%d" in a[0] else a[0] for a in hist)
                model = {}
                pb = None
                try:
                    t = fresh(ctx)
                    for label, opcode, rid, setn in hist:
                        ops = [S(SETS[setn][0] if setn in SETS else "NonSemantic.DebugPrintf")]
                        _run(ctx, "track", (t, instruction(opcode, rid, ops)))
                        if opcode == "ExtInstImport" and rid is not None and setn in SETS:
                            model[rid] = SETS[setn][1]
                    got = records(ctx, t)
                    want = sorted(model.items())
                    if sorted(got) != want:
                        pb = "the tracker then knows %s, expected %s" % (sorted(got), want)
                except SPanic as x:
                    pb = "panics: %s" % x
                except Anchor as ex:
                    pb = "not analysable: %s" % ex
                out.append((text, pb))
        return out
    return ctx.memo("extx_histories", build)


def resolve_eval(ctx, known):
    """resolve(id, OPCODE) on a tracker that has seen an import of the set `known` (GlslStd450 / OpenCLStd100 / None) under that id"""
    t = fresh(ctx)
    for k, (name, table, tag) in SETS.items():
        if tag == known:
            _run(ctx, "track", (t, instruction("ExtInstImport", IDS[0], [S(name)])))
    return _run(ctx, "resolve", (t, IDS[0], OPC))
