"""Symbolic evaluation of ExtInstSetTracker::track / resolve (shared by C07 and C04)."""
from ..core import Anchor
from ..symeval import SymEval, Hooks, NONE, Panic as SPanic

TRK = "rspirv::binary::tracker"


class H(Hooks):
    def __init__(self, ctx, opcode, rid, operands, known=None):
        from ..model import predeval
        self.pe = predeval(ctx)
        self.opcode, self.rid, self.operands, self.known = opcode, rid, operands, known
        self.inserts = []

    def path(self, p):
        if p == "self":
            return ("self",)
        o = self.pe.resolve_op(p)
        if o is not None:
            return ("enum", "Op::" + o, [])
        return NotImplemented

    def field(self, base, name, e):
        if base == ("inst",):
            if name == "result_id":
                return ("some", ("sym", "RID")) if self.rid else NONE
            if name == "operands":
                return ("list", self.operands)
            if name == "class":
                return ("class",)
        if base == ("class",) and name == "opcode":
            return ("enum", "Op::" + self.opcode, [])
        if base == ("self",) and name == "sets":
            return ("setsmap",)
        return NotImplemented

    def index(self, base, idx, e):
        if isinstance(base, tuple) and base[0] == "list" and isinstance(idx, int):
            if idx >= len(base[1]):
                raise SPanic("operands[%d] out of range" % idx)
            return base[1][idx]
        return NotImplemented

    def binary(self, op, a, b, e):
        if op in ("==", "!=") and isinstance(a, tuple) and isinstance(b, tuple) and a[0] == "enum" and b[0] == "enum":
            return (a[1].split("::")[-1] == b[1].split("::")[-1] and a[2] == b[2]) == (op == "==")
        return NotImplemented

    def call(self, p, args, e):
        if p.endswith("::lookup_opcode") and len(args) == 1:
            return ("lookup", p.split("::")[-2], args[0])
        return NotImplemented

    def mcall(self, recv, m, args, e, ev):
        if recv == ("setsmap",):
            if m == "insert" and len(args) == 2:
                self.inserts.append((args[0], args[1][1].split("::")[-1] if isinstance(args[1], tuple) and args[1][0] == "enum" else args[1]))
                return NONE
            if m == "get" and len(args) == 1:
                return ("some", ("enum", "ExtInstSet::" + self.known, [])) if self.known else NONE
            if m == "contains_key" and len(args) == 1:
                return bool(self.known)
        if isinstance(recv, tuple) and recv[0] == "list":
            if m == "first":
                return ("some", recv[1][0]) if recv[1] else NONE
            if m == "is_empty":
                return not recv[1]
            if m == "len":
                return len(recv[1])
        return NotImplemented

    def match_path(self, v, path):
        o = self.pe.resolve_op(path)
        if o is not None and isinstance(v, tuple) and v[0] == "enum":
            return v[1] == "Op::" + o
        return NotImplemented


def track_cases():
    S = lambda s: ("enum", "Operand::LiteralString", [("str", s)])
    out = []
    for opcode in ("ExtInstImport", "Extension", "Nop"):
        for rid in (True, False):
            for name, ops in (("none", []), ("glsl", [S("GLSL.std.450")]), ("opencl", [S("OpenCL.std")]), ("other", [S("NonSemantic.DebugPrintf")]),
                              ("idref", [("enum", "Operand::IdRef", [("sym", "X")])])):
                want = []
                if opcode == "ExtInstImport" and rid and name in ("glsl", "opencl"):
                    want = [(("sym", "RID"), "GlslStd450" if name == "glsl" else "OpenCLStd100")]
                out.append(("%s rid=%s operands=%s" % (opcode, rid, name), opcode, rid, ops, want))
    return out


def track_eval(ctx, opcode, rid, operands):
    f = ctx.rspirv.fn(TRK, "track", "ExtInstSetTracker")
    h = H(ctx, opcode, rid, operands)
    ev = SymEval(h, "ExtInstSetTracker::track")
    try:
        ev.run(f, {f["sig"]["params"][1][0]: ("inst",)})
    except SPanic as x:
        return ("panic", str(x))
    return ("ok", h.inserts)


def resolve_eval(ctx, known):
    f = ctx.rspirv.fn(TRK, "resolve", "ExtInstSetTracker")
    h = H(ctx, "Nop", False, [], known)
    ev = SymEval(h, "ExtInstSetTracker::resolve")
    return ev.run(f, {f["sig"]["params"][1][0]: ("sym", "SET"), f["sig"]["params"][2][0]: ("sym", "OPCODE")})
