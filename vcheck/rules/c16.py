"""C16 Opcode classification predicates agree with the SPIR-V specification."""
from ..core import Anchor
from ..model import predeval
from .. import ospec
from . import builder

EXPLANATION = (
    "Every predicate of grammar::reflect is evaluated symbolically (matches!/==/||/&&/! and calls to sibling predicates) into "
    "an explicit set over all 787 opcodes and compared with the specification's classes (O-SPEC; the type/constant/annotation/"
    "debug classes are cross-checked against the Builder files, which the generator split by the Khronos `class` field). Derived "
    "predicates must equal the documented unions, base classes must be pairwise disjoint, and the set of opcodes whose Builder "
    "method ends the block must equal the block-terminator predicate. Exhaustive over opcodes x predicates.")
EXHAUSTIVE = True

BASE = {"is_location_debug": "location_debug", "is_nonlocation_debug": "nonlocation_debug", "is_annotation": "annotation",
        "is_type": "type", "is_constant": "constant", "is_variable": "variable", "is_return": "return", "is_abort": "abort",
        "is_branch": "branch"}
DERIVED = {"is_debug": ("is_location_debug", "is_nonlocation_debug"), "is_return_or_abort": ("is_return", "is_abort"),
           "is_block_terminator": ("is_branch", "is_return_or_abort")}


def run(ctx, chk):
    pe = predeval(ctx)
    cls = ospec.classes(ctx)
    raw = ctx.raw
    chk.trusted += ["O-SPEC class tables (vcheck/ospec.py, transcribed from the SPIR-V specification)"]
    chk.assumptions += ["vendor/extension opcodes named Type*/Constant*/SpecConstant* that no Builder class file lists may be "
                        "classified either way (the property scopes vendor-specified instructions out)"]
    R1 = chk.rule("R-PRED-2", "for every base predicate P and every opcode: required(class) ⊆ P ⊆ allowed(class)")
    sets = {}
    for name in list(BASE) + list(DERIVED):
        w = raw.where(name, None, "reflect.rs")
        try:
            sets[name] = pe.predicate(name)
        except Anchor as ex:
            chk.bad(R1, name, "predicate is not in an analysable shape: %s" % ex, w)
    for name, cname in BASE.items():
        if name not in sets:
            continue
        w = raw.where(name, None, "reflect.rs")
        req, allowed = cls[cname]
        got = sets[name]
        for op in sorted(req - got):
            chk.bad(R1, "%s(%s)" % (name, op), "%s(Op::%s) is false but the specification puts Op%s in the %s class" % (name, op, op, cname),
                    w, key="C16:%s:missing:%s" % (name, op))
        for op in sorted(got - allowed):
            chk.bad(R1, "%s(%s)" % (name, op), "%s(Op::%s) is true but Op%s is not a %s instruction" % (name, op, op, cname), w,
                    key="C16:%s:extra:%s" % (name, op))
        for op in sorted(pe.ops):
            if (op in got) == (op in req) or (op in got and op in allowed and op not in req):
                if not (op in req - got or op in got - allowed):
                    chk.ok(R1, "%s(%s)" % (name, op), sample=None)
        chk.samples.append({"rule": R1, "instance": name, "status": "evaluated", "detail": {"true_for": sorted(got)[:40], "count": len(got)}})
    chk.floor(R1, "predicates evaluated", len(sets), 12)
    chk.floor(R1, "opcodes", len(pe.ops), 787)

    R3 = chk.rule("R-PRED-3", "derived predicates equal the unions their documentation states; base classes are pairwise disjoint")
    for name, (a, b) in DERIVED.items():
        if name in sets and a in sets and b in sets:
            want = sets[a] | sets[b]
            chk.check(R3, sets[name] == want, name + "=union", "%s differs from %s ∪ %s on %s" % (
                name, a, b, sorted(sets[name] ^ want)[:8]), raw.where(name, None, "reflect.rs"))
    spec_derived = {"is_block_terminator": cls["block_terminator"][0], "is_return_or_abort": cls["return"][0] | cls["abort"][0],
                    "is_debug": cls["location_debug"][0] | cls["nonlocation_debug"][0]}
    for name, want in spec_derived.items():
        if name in sets:
            for op in sorted(sets[name] ^ want):
                chk.bad(R3, "%s(%s)" % (name, op), "%s(Op::%s) is %s but the specification says %s" % (
                    name, op, op in sets[name], op in want), raw.where(name, None, "reflect.rs"), key="C16:%s:%s" % (name, op))
            chk.ok(R3, name + "=spec-class")
    bl = [n for n in BASE if n in sets]
    for i, a in enumerate(bl):
        for b in bl[i + 1:]:
            inter = sets[a] & sets[b]
            chk.check(R3, not inter, "%s∩%s=∅" % (a, b), "both hold for %s" % sorted(inter)[:6], raw.where(a, None, "reflect.rs"))

    R4 = chk.rule("R-PRED-4", "the Builder ends the block (end_block / insert_end_block) for exactly the opcodes is_block_terminator accepts")
    ms = builder.methods(ctx)
    enders = {}
    others = {}
    for m in ms:
        if not m["emits"] or not m["opcode"]:
            continue
        if m["sink"] and m["sink"][0] == "end_block":
            enders.setdefault(m["opcode"], []).append(m)
        elif m["sink"] and m["sink"][0] in ("block", "block_or_global"):
            others.setdefault(m["opcode"], []).append(m)
    term = sets.get("is_block_terminator", set())
    for op, lst in sorted(enders.items()):
        for m in lst:
            chk.check(R4, op in term, "Builder::%s" % m["name"],
                      "Builder::%s ends the current block but Op%s is not a block-termination instruction (is_block_terminator is false)" % (
                          m["name"], op), m["where"], key="C16:builder-ends-block:%s" % m["name"])
    for op in sorted(term):
        for m in others.get(op, []):
            chk.bad(R4, "Builder::%s" % m["name"], "Op%s terminates a block but Builder::%s leaves the block open" % (op, m["name"]),
                    m["where"], key="C16:builder-keeps-block:%s" % m["name"])
        chk.check(R4, op in enders, "terminator:%s:has-builder-method" % op, "no Builder method ends a block with Op%s" % op,
                  "rspirv/dr/build/autogen_terminator.rs")
    chk.floor(R4, "block-ending Builder methods", sum(len(v) for v in enders.values()), 22)
    chk.analysed.update({"predicates": sorted(sets), "opcodes": len(pe.ops), "builder_methods": len(ms),
                         "class_sources": {k: len(v) for k, v in cls["_builder_files"].items()}})
