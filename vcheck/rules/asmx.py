"""Symbolic evaluation of the assembler (C02/C01): operand encodings, instruction framing, string packing."""
from ..core import Anchor
from ..symeval import SymEval, Hooks, NONE, UNIT, Panic as SPanic

ASM = "rspirv::binary::assemble"


def w32(lanes):
    return ("w32", list(lanes))


def as_w32(v):
    if isinstance(v, int) and not isinstance(v, bool):
        return w32([(v >> (8 * i)) & 0xff for i in range(4)])
    if isinstance(v, tuple) and v[0] == "w32":
        return v
    if isinstance(v, tuple) and v[0] == "byte":
        return w32([v, 0, 0, 0])
    return None


class AH(Hooks):
    def __init__(self, selfv=None, rtype=False, rid=False, operand_words=()):
        self.selfv = selfv
        self.rtype, self.rid, self.operand_words = rtype, rid, list(operand_words)
        self.events = []

    def path(self, p):
        if p == "self":
            return self.selfv if self.selfv is not None else ("inst",)
        return NotImplemented

    def field(self, base, name, e):
        if base == ("inst",):
            if name == "class":
                return ("class",)
            if name == "result_type":
                return ("some", ("sym", "RTYPE")) if self.rtype else NONE
            if name == "result_id":
                return ("some", ("sym", "RID")) if self.rid else NONE
            if name == "operands":
                return ("list", [("operand", i) for i in range(len(self.operand_words))])
        if base == ("class",) and name == "opcode":
            return ("opcode",)
        return NotImplemented

    def cast(self, v, ty, e):
        if isinstance(v, int):
            return NotImplemented
        if isinstance(v, tuple) and v[0] == "byte" and ty in ("u32",):
            return w32([v, 0, 0, 0])
        return ("as", v, ty)

    def binary(self, op, a, b, e):
        wa, wb = as_w32(a), as_w32(b)
        if op == "<<" and wa is not None and isinstance(b, int) and b % 8 == 0 and b < 32:
            k = b // 8
            if any(x != 0 for x in wa[1][4 - k:]) if k else False:
                return NotImplemented
            return w32([0] * k + wa[1][:4 - k])
        if op == "|" and wa is not None and wb is not None and (a != 0 or True):
            lanes = []
            for x, y in zip(wa[1], wb[1]):
                if x == 0:
                    lanes.append(y)
                elif y == 0:
                    lanes.append(x)
                else:
                    return NotImplemented
            return w32(lanes)
        if op == ">>" and isinstance(b, int):
            return ("shr", a, b)
        if op == "|":
            return ("or", a, b)
        if op == "<<" and isinstance(b, int):
            return ("shl", a, b)
        return NotImplemented

    def assignop(self, lhs, op, v, env, ev):
        from ..tree import path_of
        p = path_of(lhs)
        if p is not None and p in env and op == "|":
            r = self.binary("|", env[p], v, None)
            if r is not NotImplemented:
                env[p] = r
                return UNIT
        return NotImplemented

    def call(self, p, args, e):
        n = p.split("::")[-1]
        if n == "from_le_bytes" and len(args) == 1 and isinstance(args[0], tuple) and args[0][0] == "list" and len(args[0][1]) == 4:
            return w32(args[0][1])
        if p.endswith("u32::from") and len(args) == 1:
            r = as_w32(args[0])
            return r if r is not None else NotImplemented
        if n == "assemble_str" and len(args) == 2:
            self.events.append(("str", args[0]))
            return UNIT
        return NotImplemented

    def mcall(self, recv, m, args, e, ev):
        if m == "bits" and not args:
            return ("bits", recv)
        if isinstance(recv, tuple) and recv[0] == "operand" and m == "assemble_into" and len(args) == 1:
            from ..tree import path_of
            name = path_of(e[3][0])
            env = ev.cur_env
            if name in env and isinstance(env[name], tuple) and env[name][0] == "list":
                env[name] = ("list", env[name][1] + [("operand-word", recv[1], j) for j in range(self.operand_words[recv[1]])])
                return UNIT
        if recv == ("strbytes",) and m == "as_bytes":
            return ("list", self.bytes_)
        if isinstance(recv, tuple) and recv[0] == "strval" and m == "as_bytes":
            return ("list", [("byte", i) for i in range(recv[1])])
        if isinstance(recv, tuple) and recv[0] == "strval" and m == "len":
            return recv[1]
        return NotImplemented


def operand_class(ctx, variant):
    """-> ('word'|'enum'|'mask'|'word2'|'string'|'other', detail)"""
    f = ctx.rspirv.fn(ASM, "assemble_into", "Operand", "Assemble")
    res = f["sig"]["params"][1][0]
    v = ("sym", "v")
    h = AH(selfv=("enum", "Operand::" + variant, [v]))
    ev = SymEval(h, "Assemble for Operand")
    env = {res: ("list", [])}
    ev.run(f, env)
    out = env[res][1]
    if h.events == [("str", v)] and out == []:
        return ("string", None)
    if h.events:
        return ("other", (out, h.events))
    if out == [v]:
        return ("word", None)
    if out == [("as", v, "u32")]:
        return ("enum", None)
    if out == [("bits", v)]:
        return ("mask", None)
    if out == [("as", v, "u32"), ("as", ("shr", v, 32), "u32")]:
        return ("word2", None)
    return ("other", out)


def frame(ctx, rtype, rid, operand_words, pre=2):
    """-> the words Instruction::assemble_into appends after `pre` existing words"""
    f = ctx.rspirv.fn(ASM, "assemble_into", "Instruction", "Assemble")
    res = f["sig"]["params"][1][0]
    h = AH(rtype=rtype, rid=rid, operand_words=operand_words)
    ev = SymEval(h, "Assemble for Instruction")
    env = {res: ("list", [("pre", i) for i in range(pre)])}
    ev.run(f, env)
    return env[res][1]


def norm_first(w):
    """('opassign','|', X, n) and ('or', X, n) -> ('or', X, n)"""
    if isinstance(w, tuple) and w[0] == "opassign" and w[1] == "|":
        w = ("or", w[2], w[3])
    if isinstance(w, tuple) and w[0] == "or" and w[2] == ("as", ("opcode",), "u32") and w[1] != ("as", ("opcode",), "u32"):
        w = ("or", w[2], w[1])          # `|` commutes: the opcode operand first
    return w


def string_words(ctx, n):
    """-> words assemble_str appends for a string of n bytes"""
    f = ctx.rspirv.fn(ASM, "assemble_str")
    ps = [p[0] for p in f["sig"]["params"]]
    h = AH()
    h.ctx = ctx
    ev = SymEval(h, "assemble_str")
    env = {ps[0]: ("strval", n), ps[1]: ("list", [])}
    ev.run(f, env)
    return env[ps[1]][1]


def expected_string_words(n):
    out = []
    full = n // 4
    for k in range(full):
        out.append(w32([("byte", 4 * k + i) for i in range(4)]))
    rem = [("byte", 4 * full + i) for i in range(n - 4 * full)]
    out.append(w32(rem + [0] * (4 - len(rem))))
    return out


def frame_real(ctx, rtype, rid, operands):
    """Instruction::assemble_into evaluated on a real instruction value with concrete operands (helpers evaluated in place, incl.
    assemble_str) -> (word count stored in the first word or None, the words after the first as integers)"""
    from . import progx, evalsum
    from ..symeval import Panic as SPanic

    class FH(progx.OpHooks):
        def cast(self, v, ty, e):
            if isinstance(v, tuple) and v and v[0] == "enum" and v[1].startswith("Op::") and not v[2]:
                return ("opcode-word",)
            return progx.OpHooks.cast(self, v, ty, e)

        def call(self, p, args, e):
            if p.split("::")[-1] == "assemble_str":
                return progx._InlineMixin.call(self, "assemble_str_", args, e) if False else self.inline(ctx.rspirv.fn(ASM, "assemble_str"), args)
            return progx.OpHooks.call(self, p, args, e)
    f = ctx.rspirv.fn(ASM, "assemble_into", "Instruction", "Assemble")
    res = f["sig"]["params"][1][0]
    inst = evalsum._ti("IAdd", operands, rid, rtype)
    h = FH(ctx)
    h.self_ty = "Instruction"
    env = {"self": inst, res: ("list", [("pre", 0)])}
    try:
        progx.make(h, "Instruction::assemble_into").run(f, env)
    except SPanic as x:
        return ("panic", str(x)), []
    words = env[res][1]
    first = words[1] if len(words) > 1 else None
    cnt = None
    if isinstance(first, tuple) and first and first[0] in ("opassign", "or") and ("opcode-word",) in first:
        other = [x for x in first[1:] if x != ("opcode-word",) and x != "|"]
        if len(other) == 1:
            w = as_w32(other[0]) or other[0]
            if isinstance(w, tuple) and w[0] == "w32" and all(isinstance(x, int) for x in w[1]):
                w = sum(x << (8 * i) for i, x in enumerate(w[1]))
            if isinstance(w, int) and w % (1 << 16) == 0:
                cnt = w >> 16
    body = []
    for w in words[2:]:
        w2 = as_w32(w) or w
        if isinstance(w2, tuple) and w2[0] == "w32" and all(isinstance(x, int) for x in w2[1]):
            w2 = sum(x << (8 * i) for i, x in enumerate(w2[1]))
        body.append(w2)
    return cnt if words[:1] == [("pre", 0)] else None, body
