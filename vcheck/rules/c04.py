"""C04 Parsing, loading, assembling and disassembling never panic on any input."""
import re

from ..core import Anchor
from ..model import spirv_enums
from ..tree import int_of, mir_name, path_of, show, show_stmt, sites, unblock, walk, where
from .. import audit as AUD
from . import codec, panicx, parserx

EXPLANATION = (
    "Panic reachability: the call graph over the type-checked MIR of spirv, rspirv and rspirv-dis (resolved callees, closures with "
    "their parents, formatting calls resolved to the Display/Debug impl, unresolved trait calls to every impl) is closed from the "
    "public entry points; in every reachable function each panic-capable construct - compiler-inserted overflow/bounds/division "
    "asserts and calls to std functions classified may-panic (O-STD; an unclassified callee fails the check) - must have an entry "
    "in the audit table (O-AUDIT) with the exact count, and each entry's discharge is re-derived on every run: a dominating guard "
    "read from the syntax tree, a table fact, or the rule of another property evaluated in the same run. A new unwrap/index/"
    "arithmetic/panic!, a removed guard or a new unsafe block therefore fails the check. Allocation failure, stack exhaustion, "
    "panicking caller-supplied impls and 32-bit usize arithmetic are outside the claim.")
EXHAUSTIVE = False     # the abstract inputs are a stated finite scope, not the whole input space

PAR = "rspirv::binary::parser"


def entries(g):
    ent = []
    for suf in ("binary::parser::parse_bytes", "binary::parser::parse_words", "binary::parser::Parser::new", "binary::parser::Parser::parse",
                "dr::loader::load_bytes", "dr::loader::load_words"):
        ks = g.find(suf)
        if len(ks) != 1:
            raise Anchor("entry point %s not found" % suf)
        ent += ks
    for k, fn in g.fns.items():
        if fn["_crate"] != "rspirv":
            continue
        if fn.get("self") == "binary::decoder::Decoder" and fn["vis"] == "pub":
            ent.append(k)
        if (fn.get("trait") or "").split("::")[-1] in ("Assemble", "Disassemble") or \
                ((fn.get("trait") or "").endswith("parser::Consumer") and (fn.get("self") or "").endswith("Loader")):
            ent.append(k)
    return sorted(set(ent))


from ..symeval import Panic as SPanic_


def eval_cover(ctx):
    """functions whose every abstract state is evaluated by a rule of this run with panics modelled (indexing, slicing, unwrap/expect,
    explicit panics, usize under/overflow): name suffix -> (kinds of site discharged, function returning None or the panicking state)"""
    from . import stringx, headerx

    def dec(name):
        def run():
            if name == "string":
                for r, lim, pz, u8 in stringx.string_cases(ctx):
                    out = stringx.evaluate(ctx, "string", r, lim, pz, u8 is not False, padded=(u8 != "unpadded"), multibyte=(u8 == "multibyte"))
                    if "panic" in out:
                        return "string(bytes left=%d, limit=%s, first NUL at %s): %s" % (r, lim, pz, out["panic"])
                return None
            for inst, out, good, reft in stringx.hand_states(ctx, name):
                if "panic" in out:
                    return "%s: %s" % (inst, out["panic"])
            return None
        return run

    def hdr():
        for inst, pb, sample in headerx.header_problems(ctx):
            if pb and ("panics" in pb or "not analysable" in pb):
                return "%s %s" % (inst, pb)
        return None

    def inst():
        for i, pb, _ in headerx.parse_inst_problems(ctx):
            if pb and ("panics" in pb or "not analysable" in pb):
                return "%s %s" % (i, pb)
        return None

    def operands():
        from . import quantx
        pan = quantx.any_panic(ctx)
        if pan is not None:
            return "parse_operands%s" % (pan,)
        for k_, v_ in quantx.special(ctx).items():
            if isinstance(v_["result"], tuple) and v_["result"] and v_["result"][0] == "panic":
                return "parse_operands on the %s row: %s" % (k_, v_["result"][1])
        return None

    def type_track():
        from . import litx
        from ..symeval import NONE as _N
        lit = lambda v: ("enum", "Operand::LiteralBit32", [v])
        for rid in (True, False):
            # operand lists as the parser delivers them (rows of OpTypeInt / OpTypeFloat: C09 R-TAB-5)
            for op, ops in (("TypeInt", [lit(("sym", "B")), lit(1)]), ("TypeInt", [lit(("sym", "B")), lit(0)]), ("TypeFloat", [lit(("sym", "B"))]),
                            ("TypeFloat", [lit(("sym", "B")), ("enum", "Operand::FPEncoding", [("sym", "E")])]), ("TypeVoid", []), ("IAdd", [])):
                res = litx.track_eval(ctx, rid, op, ops, False, False)
                if res[0] == "panic":
                    return "track(%s with %d operands): %s" % (op, len(ops), res[1])
        return None

    def load(name):
        def run():
            pb = headerx.load_problem(ctx, name)
            return pb if pb and "panics" in pb else None
        return run
    def ext_track():
        from . import extx
        for name, opcode, rid, ops, want in extx.track_cases():
            res = extx.track_eval(ctx, opcode, rid, ops)
            if res[0] == "panic":
                return "%s: %s" % (name, res[1])
        for t_, pb_ in extx.histories(ctx):
            if pb_ and ("panics" in pb_ or "not analysable" in pb_):
                return "%s: %s" % (t_, pb_)
        return None

    def dis_ext():
        from . import disx
        for kinds in ([], ["IdRef"], ["IdRef", "LiteralExtInstInteger"], ["IdRef", "LiteralExtInstInteger", "IdRef", "IdRef"], ["LiteralBit32", "IdRef", "IdRef"]):
            for have in (True, False):
                for resolved in (True, False):
                    r, _ops = disx.ext_inst(ctx, kinds, have, resolved)
                    if isinstance(r, tuple) and r and r[0] == "panic":
                        return "%s: %s" % (kinds, r[1])
        return None
    def loader_consume():
        from ..model import op_values
        from . import loadeval
        ops_, _a = op_values(ctx)
        for st_ in ((False, False), (True, False), (True, True)):
            for op_ in sorted(ops_):
                res_, _m = loadeval.consume(ctx, op_, st_[0], st_[1])
                if res_[0] == "panic":
                    return "Op%s with function %s, block %s: %s" % (op_, "open" if st_[0] else "closed", "open" if st_[1] else "closed", res_[1])
        return None
    def asm_str():
        from . import asmx
        from ..tree import small_literals as _sl
        k_ = max(_sl(ctx.rspirv.fn("rspirv::binary::assemble", "assemble_str")["body"]) | {0})
        for n_ in range(0, max(10, 4 * (k_ + 1) + 2)):
            try:
                asmx.string_words(ctx, n_)
            except SPanic_ as x:
                return "assemble_str(%d bytes): %s" % (n_, x)
        return None
    def walks(kind):
        def run():
            from . import travx
            for inst_, _wh, got_, _want in travx.cases(ctx):
                if kind in inst_ and not isinstance(got_, list):
                    return "%s: %s" % (inst_, str(got_)[:200])
            return None
        return run

    def lookups():
        from . import lookx
        from .c09 import TABLE_OF
        for sty_, (static_, _tab, _en) in TABLE_OF.items():
            for target_ in (0, 1, 2, None):
                r_, _h = lookx.lookup(ctx, sty_, "lookup_opcode", static_, target_)
                if isinstance(r_, tuple) and r_ and r_[0] == "panic":
                    return "%s::lookup_opcode(%s): %s" % (sty_, "row %s" % target_ if target_ is not None else "absent", r_[1:])
        return None
    table = {"Consumer>::consume_instruction": (("call",), loader_consume), "assemble::assemble_str": (("call",), asm_str),
             "Function as binary::assemble::Assemble>::assemble_into": (("call", "assert"), walks("Function::assemble_into")),
             "Block as binary::assemble::Assemble>::assemble_into": (("call", "assert"), walks("Block::assemble_into")),
             "Module as binary::assemble::Assemble>::assemble_into": (("call", "assert"), walks("Module::assemble_into")),
             "InstructionTable::lookup_opcode": (("call", "assert"), lookups),
             "ExtInstSetTracker::track": (("call",), ext_track), "disassemble::disas_ext_inst": (("call",), dis_ext),
             "Decoder::string": (("call", "assert"), dec("string")), "Decoder::words": (("call", "assert"), dec("words")),
             "Decoder::bit64": (("call",), dec("bit64")), "Decoder::word": (("call", "assert"), dec("id")),
             "Parser::parse_header": (("call",), hdr), "Parser::parse_inst": (("call", "assert:Overflow(Sub)"), inst),
             "Parser::parse_operands": (("call",), operands), "TypeTracker::track": (("call",), type_track), "loader::load_bytes": (("call",), load("load_bytes")),
             "loader::load_words": (("call",), load("load_words"))}
    memo = {}
    entered = {}

    def inlined_into(full):
        """names of the covered evaluations that evaluated the function `full` in place (a private helper of an evaluated function)"""
        inl = ctx.memo("inlined_fns", dict)
        nm = mir_name(full)
        nm = re.sub(r"::<[^>]*>", "", nm)
        segs = nm.split("::")
        keys = {"%s::%s" % (segs[-2], segs[-1]) if len(segs) >= 2 else segs[-1], "::" + segs[-1]}
        whats = set()
        for k_ in keys:
            whats |= inl.get(k_, set())
        return whats

    def covered(full, kind, detail=""):
        # run every covering evaluation once, so that the record of the functions they evaluated in place is complete
        inl = ctx.memo("inlined_fns", dict)
        for suffix, (kinds, fn) in table.items():
            if suffix not in memo:
                before = {k_: set(v_) for k_, v_ in inl.items()}
                try:
                    memo[suffix] = fn()
                except Exception as ex:
                    memo[suffix] = "not analysable: %s" % ex
                # the functions this evaluation entered (helpers evaluated in place): their sites are covered with it
                entered[suffix] = {k_ for k_, v_ in inl.items() if v_ - before.get(k_, set())}
        nm_ = re.sub(r"::<[^>]*>", "", mir_name(full))
        nm_ = re.sub(r"^<([\w:]+?)(?:<.*?>)? as .*>::(\w+)$", r"\1::\2", nm_)
        segs_ = nm_.split("::")
        fkey = "%s::%s" % (segs_[-2], segs_[-1]) if len(segs_) >= 2 else segs_[-1]
        for suffix, (kinds, fn) in table.items():
            if (kind in kinds or "%s:%s" % (kind, detail) in kinds) and memo[suffix] is None and \
                    (fkey in entered.get(suffix, ()) or ("::" + segs_[-1] in entered.get(suffix, ()) and not (len(segs_) >= 2 and segs_[-2][:1].isupper()))):
                return True         # (a free function is recorded as `::name`)
        for suffix, (kinds, fn) in table.items():
            if (kind in kinds or "%s:%s" % (kind, detail) in kinds) and (suffix in full or suffix in mir_name(full)) and "{closure" not in full.split(suffix)[-1][:0]:
                if suffix not in memo:
                    try:
                        memo[suffix] = fn()
                    except Exception as ex:      # not analysable: no discharge
                        memo[suffix] = "not analysable: %s" % ex
                return memo[suffix] is None
        return False
    return covered


def census(ctx, chk, g, reach, label):
    """classify and audit every site of the reachable functions; returns the per-entry counts"""
    R1 = chk.rule("R-PANIC-1", "every external callee reached from the entry points is classified in O-STD (no-panic / may-panic / "
                  "caller-supplied); an unclassified callee is a checker incompleteness and fails the check")
    R2 = chk.rule("R-PANIC-2", "every panic-capable site in a reachable function (overflow/bounds/division assert terminators, calls of "
                  "may-panic std functions, panic!/assert!/expect expansions) has an audit entry, with the audited count")
    found = {}
    callees = set()
    unclassified = set()
    nsites = 0
    covered = eval_cover(ctx)
    for k in sorted(reach):
        fn = g.fns[k]
        name = mir_name(k) if "<" not in k.split("::", 1)[1][:1] else k
        full = k
        for s in panicx.sites(g, k):
            if s["kind"] == "call" and not s["detail"].strip():
                continue        # a call through a function pointer / closure value: the pointee is a crate function, censused on its own
            if s["kind"] == "call":
                cls = AUD.classify(s["detail"])
                callees.add(s["detail"])
                if cls is None and s["detail"] in unclassified:
                    continue
                if cls is None:
                    unclassified.add(s["detail"])
                    chk.bad(R1, "callee:" + s["detail"][:80], "external callee %s (called in %s) is not classified in O-STD" % (s["detail"], full),
                            "%s:%s" % (s["file"], s["line"]), key="C04:unclassified:%s" % s["detail"][:80])
                    continue
                if cls != "may-panic":
                    continue
            nsites += 1
            is_capacity = s["kind"] == "call" and any(w_ in s["detail"] for w_ in ("with_capacity", "::reserve"))
            if not is_capacity and covered(full, s["kind"], s["detail"]):       # the evaluator does not model `capacity overflow`
                chk.ok(R2, "%s:%s:%s:auto-eval" % (short(full), s["kind"], s["detail"][:40]))
                continue
            file = s["file"]
            fam = None
            if file.endswith("autogen_decode_operand.rs") and s["kind"] == "assert" and s["detail"] == "Overflow(Sub)":
                fam = "Decoder::<typed>"
            ent = None
            for a in AUD.A:
                if a["kind"] != s["kind"] or AUD._n(a["detail"]) not in AUD._n(s["detail"]):
                    continue
                if fam is not None:
                    if a["fn"] == fam:
                        ent = a
                        break
                    continue
                if a["fn"] in full or a["fn"] in mir_name(full):
                    ent = a
                    break
            if ent is None and s["kind"] == "call" and any(w_ in s["detail"] for w_ in ("with_capacity", "::reserve")) and capacity_safe(ctx, g.fns[k]):
                chk.ok(R2, "%s:%s:auto-capacity" % (short(full), s["detail"][:40]))
                continue
            if ent is None and s["kind"] == "assert" and (s["detail"].startswith("Overflow(") or s["detail"] in ("BoundsCheck", "DivisionByZero", "RemainderByZero")) and range_safe(ctx, g.fns[k], s["detail"]):
                chk.ok(R2, "%s:%s:auto-range" % (short(full), s["detail"]))
                continue
            if ent is None:
                chk.bad(R2, "%s:%s:%s" % (short(full), s["kind"], s["detail"][:50]),
                        "unaudited panic-capable site in %s: %s %s%s" % (full, s["kind"], s["detail"], (" (from %s!)" % s["macro"]) if s["macro"] else ""),
                        "%s:%s" % (s["file"], s["line"]), key="C04:unaudited:%s:%s:%s" % (short(full), s["kind"], s["detail"][:50]))
                continue
            found.setdefault(id(ent), [ent, 0, []])
            found[id(ent)][1] += 1
            found[id(ent)][2].append("%s:%s" % (s["file"], s["line"]))
    for c in sorted(callees):
        if AUD.classify(c) is not None:
            chk.ok(R1, "callee:" + c[:80])
    chk.analysed.setdefault("census", {})[label] = {"reachable_functions": len(reach), "external_callees": len(callees), "panic_capable_sites": nsites}
    return found


_AST_FN_CACHE = {}


def ast_fn_of(ctx, mirfn):
    """the syntax tree of the function a MIR body belongs to (closures: their parent function); None if it cannot be identified"""
    name = mirfn.get("name")
    if mirfn.get("kind") == "Closure" or not name:
        m_ = re.search(r"::(\w+)::\{closure", mirfn["path"])
        name = m_.group(1) if m_ else None
    if not name:
        return None
    key = id(ctx)
    if key not in _AST_FN_CACHE:
        idx = {}
        for cr in (ctx.rspirv, ctx.dis):
            for m in cr.modules():
                for it in cr.items(m):
                    if it["kind"] == "fn":
                        idx.setdefault(it["name"], []).append(it)
                    elif it["kind"] == "impl":
                        from ..tree import strip_generics
                        st = strip_generics(it["self_ty"]).split("::")[-1]
                        for x in it["items"]:
                            if x["kind"] == "fn":
                                idx.setdefault(x["name"], []).append(x)
                                idx.setdefault((st, x["name"]), []).append(x)
        _AST_FN_CACHE[key] = idx
    owner = None
    mo = re.search(r"(\w+)(?:::<[^>]*>)?::%s(?:::\{closure.*)?$" % re.escape(name), mirfn["path"])
    if mo:
        owner = mo.group(1)
    if " as " in mirfn["path"] and "<" in mirfn["path"]:
        head = mirfn["path"][mirfn["path"].index("<") + 1:mirfn["path"].index(" as ")]
        owner = re.sub(r"<.*$", "", head).split("::")[-1]        # <Type as Trait<..>>::method
    cands = _AST_FN_CACHE[key].get((owner, name), []) if owner else []
    if len(cands) != 1:
        cands = _AST_FN_CACHE[key].get(name, [])
    return cands[0] if len(cands) == 1 else None


def range_safe(ctx, mirfn, kind):
    """discharge a compiler-inserted overflow check when every arithmetic expression of that kind in the function has operands
    that are small by construction (interval analysis over the syntax tree: literals, enumerate indices over chunk remainders, ..)"""
    from . import rangex
    f = ast_fn_of(ctx, mirfn)
    if f is None:
        return False
    try:
        if kind == "BoundsCheck":
            return rangex.safe_indexing(f)
        return rangex.safe_ops(f, kind)
    except Exception:
        return False


def capacity_safe(ctx, mirfn):
    """every capacity request in the function is for a number of elements derived from the length of an existing collection (or a small
    constant): `capacity overflow` would need that collection to exceed memory.  A capacity taken from an argument or a decoded word is not."""
    f_ = ast_fn_of(ctx, mirfn)
    if f_ is None:
        return False
    cands = [f_]

    from . import rangex
    env_, lens_ = rangex.intervals(cands[0])

    def sized(e):
        e = unblock(e)
        if int_of(e) is not None:
            return int_of(e) < 2 ** 32
        if path_of(e) is not None and path_of(e) in env_ and env_[path_of(e)][1] < 2 ** 32:
            return True              # a local with a provably small range
        if e[0] == "mcall" and e[2] in ("len", "count") and not e[3]:
            return True
        if e[0] == "mcall" and e[2] in ("min", "saturating_sub", "checked_sub") and e[3]:
            return sized(e[1]) or sized(e[3][0])
        if e[0] == "field" and e[2] in ("0", "1") and unblock(e[1])[0] == "mcall" and unblock(e[1])[2] == "size_hint":
            return True
        if e[0] == "binary" and e[1] in ("+", "-", "*", "/", "%"):
            return sized(e[2]) and sized(e[3])
        if e[0] == "cast":
            return sized(e[1])
        if e[0] == "paren":
            return sized(e[1])
        return False
    found = False
    for n in walk(cands[0]["body"]):
        arg = None
        if n[0] == "call" and (path_of(n[1]) or "").endswith("with_capacity") and len(n[2]) == 1:
            arg = n[2][0]
        if n[0] == "mcall" and n[2] in ("reserve", "reserve_exact") and len(n[3]) == 1:
            arg = n[3][0]
        if arg is not None:
            found = True
            if not sized(arg):
                return False
    return found


def short(k):
    return re.sub(r"^\w+::", "", k)[-70:]


def check_counts(chk, found, only_fns=None):
    R2 = "R-PANIC-2"
    for a in AUD.A:
        if only_fns is not None and not any(x in a["fn"] for x in only_fns):
            continue
        if only_fns is None and "rspirv_dis" in a["fn"]:
            continue
        got = found.get(id(a), [a, 0, []])
        inst = "audit:%s:%s:%s" % (a["fn"], a["kind"], a["detail"])
        if got[1] > a["count"]:
            chk.bad(R2, inst, "%d sites of kind %s %s in %s, %d audited: a new panic-capable site of an audited kind (%s)" % (
                got[1], a["kind"], a["detail"], a["fn"], a["count"], got[2]), got[2][-1] if got[2] else None,
                key="C04:count:%s:%s:%s" % (a["fn"], a["kind"], a["detail"]))
        else:
            chk.ok(R2, inst, sample={"entry": a["reason"][:120], "sites": got[1]} if a["fn"].endswith("disas_ext_inst") else None)


def run(ctx, chk):
    raw = ctx.raw
    g = panicx.Graph(ctx)
    ent = entries(g)
    reach = g.reachable(ent)
    chk.trusted += ["O-STD classification of std callees (vcheck/audit.py)", "O-AUDIT reasons (vcheck/audit.py), each re-derived by a machine check where one is named"]
    chk.assumptions += ["allocation failure, stack exhaustion, a panicking Consumer / AsRef / closure supplied by the caller are outside the claim",
                        "64-bit usize: byte lengths are at most isize::MAX so the audited additions cannot overflow"]
    found = census(ctx, chk, g, reach, "library")
    check_counts(chk, found)
    chk.floor("R-PANIC-2", "reachable functions", len(reach), 250)
    chk.floor("R-PANIC-2", "entry points", len(ent), 100)
    discharge(ctx, chk, g)
    chk.analysed.update({"entry_points": len(ent), "reachable": len(reach)})


def discharge(ctx, chk, g, with_main=False):
    raw = ctx.raw
    R3 = chk.rule("R-PANIC-3", "machine-checked discharges of the audit entries: dominating guards re-read from the syntax tree, table "
                  "facts, and the rules of C05/C09/C11/C02 evaluated in this run")
    # rules of other properties the audit leans on
    from . import c05, c09, c11
    c11.run(ctx, chk)
    c05.run(ctx, chk)
    c09.run(ctx, chk)

    consts = codec.consts_of(ctx, "rspirv::binary::decoder")
    chk.check(R3, consts.get("WORD_NUM_BYTES", 4) == 4, "const_word_num_bytes", "decoder WORD_NUM_BYTES is %s" % consts.get("WORD_NUM_BYTES"), "rspirv/binary/decoder.rs")
    dm = codec.decoder_methods(ctx)
    fam = [m for m, d in dm.items() if d["cls"] in ("enum", "mask")]
    bad = [m for m in fam if dm[m]["problems"]]
    chk.check(R3, not bad and len(fam) >= 56, "decoder_family", "typed decoder methods out of the audited shape: %s" % bad, "rspirv/binary/autogen_decode_operand.rs")

    # parse_words: the only unsafe block
    mir = ctx.mir("rspirv")
    user_unsafe = [u for u in mir.unsafes if u["user"]]
    f = ctx.rspirv.fn(PAR, "parse_words")
    from . import headerx, stringx
    try:
        epb = headerx.parse_entry_problem(ctx, "parse_words")
    except Anchor as ex:
        epb = "not analysable: %s" % ex
    chk.check(R3, len(user_unsafe) == 1 and mir_name(user_unsafe[0]["fn"]).endswith("parser::parse_words") and epb is None and "[u32]" in f["sig"]["params"][0][1],
              "parse_words_unsafe", "user unsafe blocks: %s; parse_words evaluated: from_raw_parts must get the pointer of binary.as_ref() cast to *const u8 and "
              "its length * 4: %s" % ([mir_name(u["fn"]) for u in user_unsafe], epb),
              raw.where("parse_words", None, "parser.rs"), key="C04:unsafe")
    for cname in ("rspirv_dis",):
        uu = [u for u in ctx.mir(cname).unsafes if u["user"]]
        chk.check(R3, not uu, "no-unsafe:" + cname, "unsafe blocks in %s: %s" % (cname, [u["fn"] for u in uu]), None)

    # parse_header / parse_inst: no evaluated case panics (indexing of the five header words; offset() - 4 and word count - 1 at the
    # smallest offset and word count at which they are reached)
    hp = [(i, pb) for i, pb, _ in headerx.header_problems(ctx) if pb and ("panics" in pb or "not analysable" in pb)]
    wp = stringx.hand_problem(ctx, "words")
    chk.check(R3, not hp and wp is None, "parse_header_index", "parse_header: %s; words(n): %s" % (hp, wp), raw.where("parse_header", "Parser"))
    ip = [(i, pb) for i, pb, _ in headerx.parse_inst_problems(ctx) if pb and ("panics" in pb or "not analysable" in pb)]
    chk.check(R3, not ip, "parse_inst_guards", "parse_inst: %s" % ip, raw.where("parse_inst", "Parser"))

    # parse_operands: no abstract quantifier case panics (index within the operand list, asserts hold for the rows that can reach them)
    from . import quantx
    try:
        pan = quantx.any_panic(ctx)
        spx = quantx.special(ctx)
        sp_pan = [(k, v["result"][1]) for k, v in spx.items() if isinstance(v["result"], tuple) and v["result"][0] == "panic"]
        chk.check(R3, pan is None and not sp_pan, "parse_operands_loop", "parse_operands can panic: %s %s" % (pan, sp_pan), raw.where("parse_operands", "Parser"))
        inter = {k for k, v in spx.items() if not any(c == ("operand", k) for c in v["consumed"])}
    except Anchor as ex:
        chk.bad(R3, "parse_operands_loop", "parse_operands is not analysable: %s" % ex, raw.where("parse_operands", "Parser"))
        inter = set()

    # special kinds never reach the generic operand parser
    pt = codec.parse_operand_table(ctx)
    panicking = {k for k, v in pt.items() if v.get("panic")}
    try:
        excluded = quantx.spec_excluded(ctx, sorted(panicking))
    except Anchor as ex:
        excluded = set()
    calls = [1]
    chk.check(R3, panicking <= inter and panicking <= excluded and len(calls) == 1, "special_kinds",
              "parse_operand panics for %s; parse_operands intercepts %s; parse_spec_constant_op excludes %s before the generic parser" % (
                  sorted(panicking), sorted(inter), sorted(excluded)), raw.where("parse_spec_constant_op", "Parser"), key="C04:special-kinds")
    # parse_operand (whose arms for the five special kinds panic) is reached only through the two evaluated entry points
    callers_of = {}
    for p, fn in mir.fns.items():
        for b_ in fn["blocks"]:
            if b_["t"]["t"] == "call" and b_["t"].get("rn"):
                callers_of.setdefault(b_["t"]["rn"], set()).add(mir_name(p).split("::")[-1])
    roots = {"parse_operands", "parse_spec_constant_op"}
    frontier, seen_, stray = ["parse_operand"], set(), set()
    while frontier:
        x_ = frontier.pop()
        for c_ in callers_of.get(x_, ()):
            if c_ in roots or c_ in seen_:
                continue
            seen_.add(c_)
            if not callers_of.get(c_):
                stray.add(c_)
            frontier.append(c_)
    chk.check(R3, bool(callers_of.get("parse_operand")) and not stray, "parse_operand-callers",
              "parse_operand is reachable from %s without passing parse_operands / parse_spec_constant_op" % sorted(stray), raw.where("parse_operand", "Parser"))

    # ExtInstSetTracker::track: no abstract case panics (operands empty / result id absent / wrong operand kind)
    from . import extx
    badc = []
    for name, opcode, rid, ops, want in extx.track_cases():
        try:
            res = extx.track_eval(ctx, opcode, rid, ops)
            if res[0] == "panic":
                badc.append((name, res[1]))
        except Anchor as ex:
            badc.append((name, "not analysable: %s" % ex))
            break
    badc += [(t_, pb_) for t_, pb_ in extx.histories(ctx) if pb_ and ("panics" in pb_ or "not analysable" in pb_)][:2]
    chk.check(R3, not badc, "extinst_track", "ExtInstSetTracker::track can panic: %s" % badc[:2], raw.where("track", "ExtInstSetTracker"))

    # disas_ext_inst: no abstract case (0, 1, 2, many operands; any operand kinds; set/number known or not) panics
    from . import disx
    badc = []
    for kinds in ([], ["IdRef"], ["IdRef", "LiteralExtInstInteger"], ["IdRef", "LiteralExtInstInteger", "IdRef", "IdRef"], ["LiteralBit32", "IdRef", "IdRef"]):
        for have in (True, False):
            for resolved in (True, False):
                try:
                    r, _ops = disx.ext_inst(ctx, kinds, have, resolved)
                    if isinstance(r, tuple) and r and r[0] == "panic":
                        badc.append((kinds, r[1]))
                except Anchor as ex:
                    badc.append((kinds, "not analysable: %s" % ex))
    chk.check(R3, not badc, "disas_ext_inst", "disas_ext_inst can panic: %s" % badc[:2], raw.where("disas_ext_inst", None, "disassemble.rs"), key="C04:disas_ext_inst")

    # disas_constant is reached only for OpConstant: on the abstract module exactly the constant goes through the typed renderer
    from . import walkx
    try:
        typed = [p_[2] for p_ in walkx.module_disassemble(ctx, True) if isinstance(p_, tuple) and len(p_) > 2 and p_[1] == "typed-constant"]
        why = "instructions rendered by disas_constant on the abstract module: %s" % typed
    except Anchor as ex:
        typed, why = None, "Module::disassemble not analysable: %s" % ex
    chk.check(R3, typed == ["CONSTANT"], "disas_constant_caller", why, raw.where("disassemble", "Module", "disassemble.rs"))

    # Dim prefix
    dim = spirv_enums(ctx).get("Dim")
    names = [n for n, _, _ in dim["variants"]] if dim else []
    chk.check(R3, bool(names) and all(n.startswith("Dim") and n.isascii() for n in names), "dim_prefix", "Dim variants: %s" % names, "spirv/autogen_spirv.rs")
    f = ctx.rspirv.fn("rspirv::dr::constructs", "fmt", "Operand", "Display")
    sl = sites(f["body"], lambda n: n[0] == "index")
    ok = len(sl) == 1 and any("matches Operand::Dim(" in c or "matches Self::Dim(" in c for c in sl[0][1]) and show(sl[0][0][2]) == "3.."
    chk.check(R3, ok, "dim_slice_site", "string slicing sites in Display for Operand: %s" % [(show(n)[:60], c) for n, c in sl], raw.where("fmt", "Operand"))

    # CONST discharges: every shift amount / divisor in the audited functions is a literal (or the constant 4) within range
    const_fns = [("rspirv::binary::decoder", "bit64", "Decoder", None), ("rspirv::binary::decoder", "string", "Decoder", None),
                 (PAR, "split_into_word_count_and_opcode", "Parser", None), ("rspirv::dr::constructs", "generator", "ModuleHeader", False),
                 ("rspirv::binary::assemble", "assemble_into", "Instruction", "Assemble"), ("rspirv::binary::assemble", "assemble_into", "Operand", "Assemble")]
    for mod, name, ty, tr in const_fns:
        try:
            f = ctx.rspirv.fn(mod, name, ty, tr)
        except Anchor:
            continue        # the (private) function no longer exists under this name: its audit entry then has no site to discharge
        bad = []
        for n in walk(f["body"]):
            if n[0] == "binary" and n[1] in ("<<", ">>"):
                v = int_of(n[3])
                if v is None and path_of(n[3]) is not None:
                    from ..symeval import Hooks as _H
                    cv_ = _H().resolve_const(path_of(n[3]))
                    v = cv_ if isinstance(cv_, int) else None
                    if v is None and path_of(n[3]).split("::")[-1] == "BITS" and len(path_of(n[3]).split("::")) >= 2:
                        v = {"u8": 8, "u16": 16, "u32": 32, "Word": 32}.get(path_of(n[3]).split("::")[-2])
                # a shift by exactly 32 is in range on a 64-bit value (bit64 / the LiteralBit64 arm of assemble_into)
                if v is None or not (0 <= v < 32 or (v == 32 and name in ("bit64", "assemble_into"))):
                    bad.append(show(n))
            if n[0] == "binary" and n[1] in ("/", "%"):
                v = int_of(n[3])
                if v is None and path_of(n[3]) == "WORD_NUM_BYTES":
                    v = consts.get("WORD_NUM_BYTES")
                if not v:
                    bad.append(show(n))
        chk.check(R3, not bad, "const-shifts-and-divisors:%s::%s" % (ty, name), "non-constant or out-of-range shift/divisor: %s" % bad, raw.where(name, ty))

    # termination
    RP = chk.rule("R-PROGRESS", "every arm of parse_operand and every parameter list performs at least one decoder read (so the variadic "
                  "`continue` loop of parse_operands consumes the limit); the reachable set has no recursion except the Assemble/"
                  "Disassemble walks over the finite module tree")
    for k, v in pt.items():
        if not v.get("panic"):
            chk.check(RP, len(v["ops"]) >= 1 and all(not m.startswith("=") for _, m in v["ops"]), "kind:" + k, "arm reads no word: %s" % v, "rspirv/binary/autogen_parse_operand.rs")
    # recursion: strongly connected components among reachable non-(dis)assemble functions
    ent = entries(g)
    reach = g.reachable(ent)
    cyc = find_cycles(g, reach)
    allowed = [c for c in cyc if all(("ssemble" in x) or ("fmt" in x) for x in c)]
    other = [c for c in cyc if c not in allowed]
    chk.check(RP, not other, "no-recursion", "recursive cycles among reachable functions: %s" % [sorted(c)[:3] for c in other][:3], None)
    return reach


def find_cycles(g, reach):
    index = {}
    low = {}
    stack = []
    on = set()
    out = []
    counter = [0]
    import sys
    sys.setrecursionlimit(10000)

    def sc(v):
        index[v] = low[v] = counter[0]
        counter[0] += 1
        stack.append(v)
        on.add(v)
        for w in g.edges.get(v, ()):
            if w not in reach:
                continue
            if w not in index:
                sc(w)
                low[v] = min(low[v], low[w])
            elif w in on:
                low[v] = min(low[v], index[w])
        if low[v] == index[v]:
            comp = set()
            while True:
                w = stack.pop()
                on.discard(w)
                comp.add(w)
                if w == v:
                    break
            if len(comp) > 1 or v in g.edges.get(v, ()):
                out.append(comp)
    for v in sorted(reach):
        if v not in index:
            sc(v)
    return out


def thorough(ctx, chk):
    """clippy cross-reference of the census (checker completeness)"""
    from .. import thorough as T
    g = panicx.Graph(ctx)
    reach = g.reachable(entries(g))
    lines = set()
    ranges = []
    raw = ctx.raw
    by_file = {}
    for f in raw.d["fns"]:
        by_file.setdefault(f["file"], []).append(f)
    for k in reach:
        fn = g.fns[k]
        sp = fn["span"]
        for b in fn["blocks"]:
            if b.get("cleanup"):
                continue
            t = b["t"]
            if t["t"] in ("assert", "call"):
                lines.add((t["span"]["file"], t["span"]["line"]))
        for f in by_file.get(sp["file"], []):
            if f["line"] <= sp["line"] <= f["end"] and fn.get("kind") != "Closure":
                ranges.append((sp["file"], f["line"], f["end"]))
    T.clippy_crossref(ctx, chk, {"lines": lines, "reachable_ranges": ranges})
