"""Extraction of the hand-written parser's decision tables (parse_operands, parse_inst, parse_header, parse_literal)."""
from ..core import Anchor
from ..tree import int_of, is_node, lastseg, path_of, show, show_stmt, strip_refs, unblock, walk

PAR = "rspirv::binary::parser"


def _pat_names(pat):
    pats = pat[1] if pat[0] == "p_or" else [pat]
    out = []
    for p in pats:
        if p[0] == "p_wild":
            out.append("_")
        else:
            q = path_of(p)
            if q is None:
                raise Anchor("unrecognised pattern %s" % show(p))
            out.append(q.split("::")[-1])
    return out


def _err_variant(e):
    """return Err(State::X(..)) / Err(State::X(..)) -> (X, [args])"""
    e = unblock(e)
    if e[0] == "return":
        e = e[1]
    if e is not None and e[0] == "call" and path_of(e[1]) == "Err" and len(e[2]) == 1:
        v = e[2][0]
        if v[0] == "call":
            return lastseg(path_of(v[1]) or "?"), v[2]
        if v[0] == "path":
            return lastseg(v[1]), []
    return None


def parse_operands(ctx):
    """-> {"intercepted": {kind: text}, "quant": {(has_more, q): action}, "fn": f, ...}"""
    def build():
        f = ctx.rspirv.fn(PAR, "parse_operands", "Parser")
        body = f["body"][1]
        loops = [s[1] for s in body if s[0] == "expr" and s[1][0] == "while"]
        if len(loops) != 1:
            raise Anchor("parse_operands: expected exactly one while loop, found %d" % len(loops))
        loop = loops[0]
        cond = loop[1]
        idx = None
        if cond[0] == "binary" and cond[1] == "<" and path_of(cond[2]) and show(cond[3]).endswith(".operands.len()"):
            idx = path_of(cond[2])
        if idx is None:
            raise Anchor("parse_operands: loop condition is not `index < grammar.operands.len()`: %s" % show(cond))
        gram = show(cond[3])[:-len(".operands.len()")]
        st = loop[2][1]
        lop = None
        more = None
        branch = None
        for s in st:
            if s[0] == "local" and s[1][0] == "p_ident":
                init = strip_refs(s[3])
                if init[0] == "index" and show(init[1]) == gram + ".operands" and path_of(init[2]) == idx:
                    lop = s[1][1]
                    continue
                if show(s[3]) == "!self.decoder.limit_reached()":
                    more = s[1][1]
                    continue
                raise Anchor("parse_operands: unexpected binding in loop: %s" % show_stmt(s)[:100])
            if s[0] == "expr" and s[1][0] == "if":
                if branch is not None:
                    raise Anchor("parse_operands: more than one if in the loop body")
                branch = s[1]
                continue
            raise Anchor("parse_operands: unexpected statement in loop: %s" % show_stmt(s)[:100])
        if lop is None or branch is None:
            raise Anchor("parse_operands: loop body shape")
        c = branch[1]
        if not ((more and path_of(c) == more) or show(c) == "!self.decoder.limit_reached()"):
            raise Anchor("parse_operands: branch condition is not `words left`: %s" % show(c))
        if branch[3] is None:
            raise Anchor("parse_operands: no else branch")
        yes, no = branch[2][1], branch[3][1]
        out = {"fn": f, "index": idx, "loperand": lop, "grammar": gram, "intercepted": {}, "quant": {}, "generic": None,
               "kind_match": None, "post": None}
        kind_match = [s[1] for s in yes if s[0] == "expr" and s[1][0] == "match" and show(s[1][1]) == lop + ".kind"]
        quant_yes = [s[1] for s in yes if s[0] == "expr" and s[1][0] == "match" and show(s[1][1]) == lop + ".quantifier"]
        if len(kind_match) != 1 or len(quant_yes) != 1 or len(yes) != 2:
            raise Anchor("parse_operands: `words left` branch is not [match kind; match quantifier]")
        out["kind_match"] = kind_match[0]
        for pat, guard, b in kind_match[0][2]:
            if guard is not None:
                raise Anchor("parse_operands: guarded kind arm")
            for k in _pat_names(pat):
                if k == "_":
                    out["generic"] = b
                else:
                    out["intercepted"][k] = b
        for pat, guard, b in quant_yes[0][2]:
            b = unblock(b)
            for q in _pat_names(pat):
                if b[0] == "assignop" and b[1] == "+" and path_of(b[2]) == idx and int_of(b[3]) == 1:
                    out["quant"][(True, q)] = "next"
                elif b[0] == "continue":
                    out["quant"][(True, q)] = "same"
                else:
                    out["quant"][(True, q)] = "other:" + show(b)[:60]
        quant_no = [s[1] for s in no if s[0] == "expr" and s[1][0] == "match" and show(s[1][1]) == lop + ".quantifier"]
        if len(quant_no) != 1 or len(no) != 1:
            raise Anchor("parse_operands: `no words left` branch is not a single match on the quantifier")
        for pat, guard, b in quant_no[0][2]:
            b = unblock(b)
            for q in _pat_names(pat):
                ev = _err_variant(b)
                if ev:
                    out["quant"][(False, q)] = ("error", ev[0], [show(a) for a in ev[1]])
                elif b[0] == "break":
                    out["quant"][(False, q)] = "stop"
                else:
                    out["quant"][(False, q)] = "other:" + show(b)[:60]
        # after the loop: Ok(Instruction::new(grammar.opcode, rtype, rid, coperands))
        last = body[-1]
        out["post"] = show(last[1]) if last[0] == "expr" else None
        out["pre"] = [show_stmt(s) for s in body if s[0] == "local"]
        return out
    return ctx.memo("parse_operands_x", build)


def spec_constant_op(ctx):
    """-> kinds filtered out before the generic operand parser in parse_spec_constant_op, number handling"""
    def build():
        f = ctx.rspirv.fn(PAR, "parse_spec_constant_op", "Parser")
        filt = set()
        calls_generic = False
        narrowing = []
        for n in walk(f["body"]):
            # `kind != K` filters
            if n[0] == "binary" and n[1] == "!=" and show(n[2]).endswith(".kind"):
                p = path_of(n[3])
                if p:
                    filt.add(p.split("::")[-1])
            # match on the kind: arms that come before the arm calling the generic parser exclude their kinds
            if n[0] == "match" and show(n[1]).endswith(".kind"):
                for pat, guard, body in n[2]:
                    if any(x[0] == "mcall" and x[2] == "parse_operand" for x in walk(body)):
                        break
                    if guard is not None:
                        continue
                    for p_ in (pat[1] if pat[0] == "p_or" else [pat]):
                        q = path_of(p_)
                        if q and len(q.split("::")) >= 2:
                            filt.add(q.split("::")[-1])
            if n[0] == "mcall" and n[2] == "parse_operand" and path_of(n[1]) == "self":
                calls_generic = True
            if n[0] == "cast" and n[2] in ("u16", "u8"):
                narrowing.append(show(n))
        return {"filtered": filt, "calls_generic": calls_generic, "narrowing": narrowing, "fn": f}
    return ctx.memo("spec_constant_op_x", build)
