"""C10 Context-dependent literal widths follow the types declared earlier."""
import re

from ..core import Anchor
from ..tree import Cfg, int_of, is_node, mir_name, path_of, show, show_stmt, sites, unblock, walk, where
from . import codec, parserx

EXPLANATION = (
    "The width decision of Parser::parse_literal is extracted as a table by evaluating its nested matches for every "
    "(tracked type kind, width) equivalence class (all literals occurring in the patterns, their neighbours and the extremes); "
    "TypeTracker::track's three insertion sites with their path conditions and inserted values; the call-site wiring (result "
    "type for OpConstant/OpSpecConstant, selector id for OpSwitch); tracking before delivery (dominance in Parser::parse's CFG); "
    "a fresh tracker per parser and no mutable/interior-mutable static in the crate (type-checked statics census); the assembler's "
    "one-word / two-words-low-first encodings. That every history yields the right width is the composition of these; ids defined "
    "twice are outside the quantifier.")
EXHAUSTIVE = False     # the abstract inputs are a stated finite scope, not the whole input space

PAR = "rspirv::binary::parser"
TRK = "rspirv::binary::tracker"


from .litx import lit_eval, tracked_value, literal_ints_of, track_eval, literal_results  # noqa: E402,F401


class NoMatch(Exception):
    pass


def pmatch(pat, v, env):
    k = pat[0]
    if k == "p_wild":
        return True
    if k == "p_ident" and pat[4] is None and pat[1] != "None":
        env[pat[1]] = v
        return True
    if k in ("p_ident", "p_path") and (path_of(pat) or "").split("::")[-1] == "None":
        return v == ("none",)
    if k == "p_ts":
        name = pat[1].split("::")[-1]
        if name == "Some":
            return isinstance(v, tuple) and v[0] == "some" and pmatch(pat[2][0], v[1], env)
        if isinstance(v, tuple) and v[0] == "type" and v[1] == name:
            return all(pmatch(p, x, env) for p, x in zip(pat[2], v[2]))
        return False
    if k == "p_lit":
        return isinstance(v, int) and int_of(pat) == v
    if k == "p_range":
        lo = int_of(pat[1]) if pat[1] is not None else 0
        hi = int_of(pat[2]) if pat[2] is not None else 2 ** 32
        return isinstance(v, int) and lo <= v <= (hi if pat[3] else hi - 1)
    if k == "p_or":
        return any(pmatch(c, v, env) for c in pat[1])
    if k == "p_ref":
        return pmatch(pat[2], v, env)
    raise Anchor("parse_literal: unrecognised pattern %s" % show(pat))


def eval_lit(e, env):
    e = unblock(e)
    if e[0] == "match":
        s = path_of(e[1])
        if s is None or s not in env:
            raise Anchor("parse_literal: match on %s" % show(e[1]))
        v = env[s]
        for pat, guard, body in e[2]:
            en = dict(env)
            if pmatch(pat, v, en):
                if guard is not None:
                    raise Anchor("parse_literal: guarded arm")
                return eval_lit(body, en)
        raise Anchor("parse_literal: no arm matches")
    if e[0] == "call" and path_of(e[1]) == "Ok" and len(e[2]) == 1:
        a = e[2][0]
        if a[0] == "call" and len(a[2]) == 1:
            variant = (path_of(a[1]) or "?").split("::")[-1]
            r = a[2][0]
            if r[0] == "try" and r[1][0] == "mcall" and show(r[1][1]) == "self.decoder" and not r[1][3]:
                return ("ok", variant, r[1][2])
    if e[0] == "call" and path_of(e[1]) == "Err" and len(e[2]) == 1:
        a = e[2][0]
        if a[0] == "call":
            return ("err", (path_of(a[1]) or "?").split("::")[-1], [show(x) for x in a[2]])
    raise Anchor("parse_literal: unrecognised result %s" % show(e)[:80])


def literal_ints(n):
    out = set()
    for x in walk(n):
        if x[0] == "p_lit":
            v = int_of(x)
            if v is not None:
                out.add(v)
        if x[0] == "p_range":
            for b in (x[1], x[2]):
                if b is not None and int_of(b) is not None:
                    out.add(int_of(b))
    return out


def run(ctx, chk):
    raw = ctx.raw
    mir = ctx.mir("rspirv")

    R1 = chk.rule("R-WIDTH", "parse_literal: Integer 8/16/32 -> one word (LiteralBit32 via bit32), Integer 64 -> two words (LiteralBit64 "
                  "via bit64), any other integer width -> TypeUnsupported(offset, n); Float 16/32 -> one word, 64 -> two words, other -> "
                  "TypeUnsupported; unknown type id -> one word")
    W = raw.where("parse_literal", "Parser")
    lits = literal_ints_of(ctx)
    widths = sorted(set([0, 1, 2 ** 32 - 1, 128] + [w + d for w in lits for d in (-1, 0, 1) if w + d >= 0]))
    ncell = 0
    for kind in ("none", "Integer", "Float"):
        for w in ([None] if kind == "none" else widths):
            for signed in ([None] if kind != "Integer" else [True, False]):
                try:
                    res = lit_eval(ctx, tracked_value(kind, w, signed))
                except Anchor as ex:
                    chk.bad(R1, "type=%s width=%s" % (kind, w), "parse_literal is not analysable for this case: %s" % ex, W, key="C10:parse_literal-shape")
                    continue
                ncell += 1
                if kind == "none":
                    want = ("ok", "LiteralBit32", "bit32")
                elif (kind == "Integer" and w in (8, 16, 32)) or (kind == "Float" and w in (16, 32)):
                    want = ("ok", "LiteralBit32", "bit32")
                elif w == 64:
                    want = ("ok", "LiteralBit64", "bit64")
                else:
                    want = ("err", "TypeUnsupported", ["self.decoder.offset()", "self.inst_index"])
                chk.check(R1, tuple(res) == want, "type=%s width=%s%s" % (kind, w, "" if signed is None else (" signed" if signed else " unsigned")),
                          "literal of a %s type of width %s is parsed as %s, expected %s" % (kind, w, res, want), W,
                          sample=list(res) if w in (16, 64) else None)
    chk.floor(R1, "width-table cells", ncell, 30)

    R2 = chk.rule("R-TRACK", "TypeTracker::track records OpTypeInt as Integer(operand 0, operand 1 == 1), OpTypeFloat as Float(operand 0) "
                  "for instructions with a result id, and propagates the tracked type of the result type to the result id of every "
                  "non-type instruction; these are the only writes of the type map; resolve() is a pure lookup")
    WT = raw.where("track", "TypeTracker")
    B = ("sym", "BITS")
    lit = lambda v: ("enum", "Operand::LiteralBit32", [v])
    cases = []
    for rid in (True, False):
        for sign in (0, 1, 2):
            cases.append(("TypeInt sign=%d rid=%s" % (sign, rid), rid, "TypeInt", [lit(B), lit(sign)], False, False,
                          [(("sym", "RID"), ("enum", "Type::Integer", [B, sign == 1]))] if rid else []))
        cases.append(("TypeFloat rid=%s" % rid, rid, "TypeFloat", [lit(B)], False, False, [(("sym", "RID"), ("enum", "Type::Float", [B]))] if rid else []))
        # every operand list the grammar row allows after the width: optional operands present
        from ..model import core_row
        row = core_row(ctx, "TypeFloat")
        extra = [k for k, q in (row["operands"] if row else [])[2:] if q in ("ZeroOrOne", "ZeroOrMore")]
        if extra:
            cases.append(("TypeFloat with optional %s rid=%s" % ("+".join(extra), rid), rid, "TypeFloat",
                          [lit(B)] + [("enum", "Operand::" + k, [("sym", "OPT")]) for k in extra], False, False,
                          [(("sym", "RID"), ("enum", "Type::Float", [B]))] if rid else []))
        cases.append(("TypeVoid rid=%s" % rid, rid, "TypeVoid", [], False, False, []))
        cases.append(("TypeVector rid=%s" % rid, rid, "TypeVector", [("enum", "Operand::IdRef", [("sym", "X")]), lit(4)], False, False, []))
        for op in ("IAdd", "Constant", "FunctionParameter", "Load"):
            cases.append(("%s typed+resolvable rid=%s" % (op, rid), rid, op, [], True, True, [(("sym", "RID"), ("sym", "RESOLVED"))] if rid else []))
            cases.append(("%s typed+unknown-type rid=%s" % (op, rid), rid, op, [], True, False, []))
            cases.append(("%s untyped rid=%s" % (op, rid), rid, op, [], False, False, []))
    cases.append(("TypeInt non-literal operands rid=True", True, "TypeInt", [("enum", "Operand::IdRef", [("sym", "X")]), ("enum", "Operand::IdRef", [("sym", "Y")])], False, False, []))
    ntr = 0
    for name, rid, op, operands, rtype, resolvable, want in cases:
        try:
            res = track_eval(ctx, rid, op, operands, rtype, resolvable)
        except Anchor as ex:
            chk.bad(R2, "track(%s)" % name, "TypeTracker::track is not analysable: %s" % ex, WT, key="C10:track-shape")
            continue
        ntr += 1
        chk.check(R2, res == ("ok", want), "track(%s)" % name, "records %s, expected %s" % (res, want), WT, key="C10:track:%s" % name.split(" rid=")[0],
                  sample=str(res) if name.startswith("TypeInt sign=1") else None)
    chk.floor(R2, "track cases", ntr, 30)
    ins = []
    from . import headerx
    try:
        rpb = headerx.tracker_resolve_problem(ctx)
    except Anchor as ex:
        rpb = "not analysable: %s" % ex
    chk.check(R2, rpb is None, "resolve=lookup", "%s" % rpb, raw.where("resolve", "TypeTracker"))
    mutators = set()
    for p, fn in mir.fns.items():
        for b in fn["blocks"]:
            for s in b["s"]:
                if s["f"] in ("ref", "fw") and (s["f"] == "fw" or s["mut"]) and s.get("chain") and s["chain"][-1][0].endswith("tracker::TypeTracker") and s["chain"][-1][1] == "types":
                    mutators.add(mir_name(p).split("::{closure")[0])
    chk.check(R2, mutators == {"binary::tracker::TypeTracker::track"}, "types-map-writers", "the type map is mutated by %s" % sorted(mutators), WT)

    R3 = chk.rule("R-WIRING", "OpConstant/OpSpecConstant literals are sized by the instruction's result type, OpSwitch case literals by the "
                  "id of its first operand (the selector), each case being literal then label id; the tracker is updated for every "
                  "parsed instruction before it is delivered")
    from . import quantx
    WP = raw.where("parse_operands", "Parser")
    try:
        spx = quantx.special(ctx)
        c = spx["LiteralContextDependentNumber"]
        chk.check(R3, c["consumed"] == [("id",), ("id",), ("literal", ("sym", "id1"))] and c["result"][0] == "ok", "context-dependent-number<-result-type",
                  "for a Constant row parse_operands consumes %s (expected: result type id, result id, then a literal sized by the result type id)" % c["consumed"], WP)
        c = spx["PairLiteralIntegerIdRef"]
        sel = ("sym", "w1")
        chk.check(R3, c["consumed"] == [("operand", "IdRef"), ("operand", "IdRef"), ("literal", sel), ("id",), ("literal", sel), ("id",)] and c["result"][0] == "ok",
                  "switch-literal<-selector", "for a Switch row parse_operands consumes %s (expected: selector, default, then (literal sized by the selector id, label id) pairs)" % c["consumed"], WP)
    except Anchor as ex:
        chk.bad(R3, "parse_operands", "parse_operands is not analysable: %s" % ex, WP, key="C10:parse_operands-shape")
    from . import headerx as _hx
    tp = [(i_, pb_) for i_, pb_, _s in _hx.parse_problems(ctx) if pb_ and ("type tracker" in pb_ or "not analysable" in pb_ or "panics" in pb_)]
    chk.check(R3, not tp, "track-before-next-instruction", "Parser::parse evaluated on scripted streams: %s" % tp[:2], raw.where("parse", "Parser"))
    # parse_literal is reached only through parse_operands (directly or through private helpers that only parse_operands reaches)
    callers_of = {}
    for p_, f_ in mir.fns.items():
        for b_ in f_["blocks"]:
            if b_["t"]["t"] == "call" and b_["t"].get("rn"):
                callers_of.setdefault(b_["t"]["rn"], set()).add(mir_name(p_).split("::")[-1])
    frontier, seen_, bad_roots = ["parse_literal"], set(), set()
    while frontier:
        x_ = frontier.pop()
        for c_ in callers_of.get(x_, ()):
            if c_ == "parse_operands" or c_ in seen_:
                continue
            seen_.add(c_)
            if not callers_of.get(c_):
                bad_roots.add(c_)
            frontier.append(c_)
    chk.check(R3, bool(callers_of.get("parse_literal")) and not bad_roots, "parse_literal-callers",
              "parse_literal is reachable from %s without passing parse_operands" % sorted(bad_roots), WP, sample=sorted(callers_of.get("parse_literal", ())))

    R4 = chk.rule("R-FRESH", "every Parser starts with an empty TypeTracker; the crate has no mutable, interior-mutable or thread-local "
                  "static, so nothing survives from an earlier parse; the tracker's map is private")
    from . import headerx
    try:
        pv = headerx.parser_new(ctx)
        tt = pv[2].get("type_tracker") if isinstance(pv, tuple) and pv[0] == "struct" else None
        good = isinstance(tt, tuple) and tt[0] == "struct" and tt[1] == "TypeTracker" and list(tt[2].values()) == [("map", {})]
        chk.check(R4, good, "Parser::new:tracker", "Parser::new yields %s: the type tracker is not a new, empty TypeTracker" % headerx.short(pv)[:200],
                  raw.where("new", "Parser"), sample=headerx.short(pv)[:200])
        chk.check(R4, isinstance(pv, tuple) and pv[0] == "struct" and pv[2].get("inst_index") == 0, "Parser::new:inst_index=0",
                  "Parser::new yields %s" % headerx.short(pv)[:200], raw.where("new", "Parser"))
    except Anchor as ex:
        chk.bad(R4, "Parser::new:tracker", "not analysable: %s" % ex, raw.where("new", "Parser"))
    for cname in ("rspirv", "spirv"):
        for s in ctx.mir(cname).statics:
            chk.check(R4, not s["mut"] and s["freeze"] and not s["thread_local"], "static:%s::%s" % (cname, s["path"]),
                      "static %s is mutable / interior-mutable / thread-local" % s["path"], None)
    for n in walk(ctx.rspirv.module(PAR)["items"] + ctx.rspirv.module(TRK)["items"]):
        pass
    tl = [i for m_ in ctx.rspirv.modules() for i in ctx.rspirv.items(m_, "macro") if i.get("mac") == "thread_local"]
    chk.check(R4, not tl, "no-thread_local", "thread_local! used", None)
    adt = [a for p, a in mir.adts.items() if p.endswith("tracker::TypeTracker")]
    priv = adt and all(f_[2] != "pub" for v in adt[0]["variants"] for f_ in v["fields"])
    chk.check(R4, bool(priv), "TypeTracker.types:private", "the type map is public", raw.where("new", "TypeTracker"))
    pmods = ctx.rspirv.items("rspirv::binary", "mod")
    trk = [m_ for m_ in pmods if m_["name"] == "tracker"]
    chk.check(R4, bool(trk), "tracker-module-exists", "binary::tracker missing", None)

    R5 = chk.rule("R-ASM", "the assembler emits LiteralBit32 as one word and LiteralBit64 as two words, low word first")
    at = codec.assemble_table(ctx)
    chk.check(R5, at.get("LiteralBit32", ("?",))[0] == "word", "LiteralBit32=1-word", "encoding %s" % (at.get("LiteralBit32"),), raw.where("assemble_into", "Operand", "assemble.rs"))
    chk.check(R5, at.get("LiteralBit64", ("?",))[0] == "word2", "LiteralBit64=2-words-low-first", "encoding %s" % (at.get("LiteralBit64"),), raw.where("assemble_into", "Operand", "assemble.rs"))
    dm = codec.decoder_methods(ctx)
    from . import stringx
    for m_ in ("bit32", "bit64"):
        pb = stringx.hand_problem(ctx, m_) if m_ in dm else "not found"
        chk.check(R5, pb is None, "decoder:" + m_, "%s is not %s: %s" % (m_, "one word()" if m_ == "bit32" else "(second word << 32) | first word", pb),
                  raw.where(m_, "Decoder"))
    chk.analysed.update({"width_cells": ncell, "widths_tested": widths, "track_cases": ntr})
