"""Symbolic evaluation of the disassembler's line renderers (C07)."""
from ..core import Anchor
from ..symeval import SymEval, Hooks, NONE, Panic as SPanic, flatten_fmt

DIS = "rspirv::binary::disassemble"


class H(Hooks):
    def __init__(self, rid=False, rtype=False, operands=(), have=True, resolved=True, self_is_inst=False):
        self.rid, self.rtype, self.operands, self.have, self.resolved = rid, rtype, list(operands), have, resolved
        self.self_is_inst = self_is_inst

    def path(self, p):
        if p == "self" and self.self_is_inst:
            return ("inst",)
        return NotImplemented

    def field(self, base, name, e):
        if base == ("inst",):
            if name == "result_id":
                return ("some", ("sym", "RID")) if self.rid else NONE
            if name == "result_type":
                return ("some", ("sym", "RTYPE")) if self.rtype else NONE
            if name == "operands":
                return ("list", self.operands)
            if name == "class":
                return ("class",)
        if base == ("class",) and name == "opname":
            return ("sym", "OPNAME")
        if base == ("class",) and name == "opcode":
            return ("enum", "Op::" + getattr(self, "opcode", "Constant"), [])
        if base == ("grammar",) and name == "opname":
            return ("sym", "EXTNAME")
        return NotImplemented

    def mcall(self, recv, m, args, e, ev):
        if recv == ("inst",) and m == "disassemble":
            return ("generic",)
        if isinstance(recv, tuple) and recv[0] == "enum" and recv[1].startswith("Operand::") and m == "disassemble":
            return ("dis", recv)
        if recv == ("tracker",):
            if m == "have":
                return bool(self.have)
            if m == "resolve":
                return ("some", ("grammar",)) if (self.have and self.resolved) else NONE
        return NotImplemented


def pieces(v):
    from .walkx import pieces as _p
    return _p(v)


def operand_values(n):
    return [("enum", "Operand::IdRef", [("sym", "X%d" % i)]) for i in range(n)]


def line(ctx, rid, rtype, noperands):
    """text pieces of <Instruction as Disassemble>::disassemble for an instruction with / without result id and type and n operands
    (the helpers it is written in terms of are evaluated in place)"""
    f = ctx.rspirv.fn(DIS, "disassemble", "Instruction", "Disassemble")
    ops = operand_values(noperands)
    ev = SymEval(H(rid, rtype, operands=ops, self_is_inst=True), "Instruction::disassemble")
    return pieces(ev.run(f, {}))


def expected_line(rid, rtype, ops, rendered=None):
    """`%id = ` if there is a result id, `Op`name, two spaces `%type` and a space if there is a result type (the space only with
    operands), a space and the operands joined by single spaces (only with operands)"""
    out = []
    if rid:
        out += ["%", ("sym", "RID"), " = "]
    out += ["Op", ("sym", "OPNAME")]
    sp = " " if ops else ""
    if rtype:
        out += ["  %", ("sym", "RTYPE"), sp]
    out += [sp]
    items = rendered if rendered is not None else [("dis", o) for o in ops]
    for i, o in enumerate(items):
        if i:
            out.append(" ")
        out.append(o)
    merged = []
    for p_ in out:
        if p_ == "":
            continue
        if isinstance(p_, str) and merged and isinstance(merged[-1], str):
            merged[-1] += p_
        else:
            merged.append(p_)
    return merged


def ext_inst(ctx, kinds, have, resolved):
    """kinds: list of operand constructors, e.g. ['IdRef', 'LiteralExtInstInteger', 'IdRef']"""
    f = ctx.rspirv.fn(DIS, "disas_ext_inst")
    ps = [p[0] for p in f["sig"]["params"]]
    ops = [("enum", "Operand::" + k, [("sym", "V%d" % i)]) for i, k in enumerate(kinds)]
    ev = SymEval(H(operands=ops, have=have, resolved=resolved), "disas_ext_inst")
    try:
        r = ev.run(f, {ps[0]: ("inst",), ps[1]: ("tracker",)})
    except SPanic as x:
        return ("panic", str(x)), ops
    return r, ops


class LB(Hooks):
    def cast(self, v, ty, e):
        if v == ("sym", "value"):
            return ("as", v, ty)
        return NotImplemented

    def call(self, p, args, e):
        segs = p.split("::")
        if segs[-1] == "from_bits" and len(args) == 1:
            return ("from_bits", segs[-2], args[0])
        return NotImplemented


def literal_bit(ctx, ty, literal_type):
    """text pieces DisassembleLiteralBit for <ty> produces for the given Type value"""
    f = ctx.rspirv.fn(DIS, "disas_literal_bit", ty, "DisassembleLiteralBit")
    ps = [p[0] for p in f["sig"]["params"]]
    r = SymEval(LB(), "disas_literal_bit").run(f, {ps[0]: ("sym", "value"), ps[1]: literal_type})
    return flatten_fmt(r)


class GH(Hooks):
    def __init__(self, word):
        self.word = word

    def path(self, p):
        return ("header",) if p == "self" else NotImplemented

    def field(self, base, name, e):
        if base == ("header",) and name == "generator":
            return self.word
        if base == ("header",) and name == "bound":
            return ("sym", "BOUND")
        return NotImplemented

    def mcall(self, recv, m, args, e, ev):
        if recv == ("header",) and m == "version":
            return ("tuple", [("sym", "MAJOR"), ("sym", "MINOR")])
        if recv == ("header",) and m == "generator":
            return ("tuple", [("sym", "VENDOR"), ("sym", "TOOLVERSION")])
        return NotImplemented


def generator(ctx, word):
    f = ctx.rspirv.fn("rspirv::dr::constructs", "generator", "ModuleHeader", False)
    return SymEval(GH(word), "ModuleHeader::generator").run(f, {})


def header_text(ctx):
    f = ctx.rspirv.fn(DIS, "disassemble", "ModuleHeader", "Disassemble")
    return flatten_fmt(SymEval(GH(0), "ModuleHeader::disassemble").run(f, {}))


class CH(H):
    def __init__(self, rtype, resolved, operand):
        H.__init__(self, rid=True, rtype=rtype, operands=[operand] if operand is not None else [])
        self.resolved = resolved

    def field(self, base, name, e):
        if base == ("inst",) and name == "result_type" and self.rtype:
            return ("some", ("sym", "RTYPE"))
        return H.field(self, base, name, e)

    def mcall(self, recv, m, args, e, ev):
        if recv == ("typetracker",) and m == "resolve" and len(args) == 1:
            return ("some", ("sym", "TYPE")) if self.resolved else NONE
        return H.mcall(self, recv, m, args, e, ev)

    def call(self, p, args, e):
        if p.split("::")[-1] in ("disas_literal_bit_operand", "disas_literal_bit") and len(args) == 2:
            return ("litbit", args[0], args[1])
        return NotImplemented

    def mcall(self, recv, m, args, e, ev):
        if recv == ("typetracker",) and m == "resolve" and len(args) == 1:
            return ("some", ("sym", "TYPE")) if self.resolved else NONE
        if m == "disas_literal_bit" and len(args) == 1:
            return ("litbit", recv, args[0])
        return H.mcall(self, recv, m, args, e, ev)


def constant(ctx, rtype, resolved, operand):
    f = ctx.rspirv.fn(DIS, "disas_constant")
    ps = [p[0] for p in f["sig"]["params"]]
    h = CH(rtype, resolved, operand)
    try:
        return SymEval(h, "disas_constant").run(f, {ps[0]: ("inst",), ps[1]: ("typetracker",)})
    except SPanic as x:
        return ("panic", str(x))
