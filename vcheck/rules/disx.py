"""Symbolic evaluation of the disassembler's line renderers (C07)."""
from ..core import Anchor
from ..symeval import SymEval, Hooks, NONE, Panic as SPanic, flatten_fmt

DIS = "rspirv::binary::disassemble"


class H(Hooks):
    def __init__(self, rid=False, rtype=False, operands=(), have=True, resolved=True, self_is_inst=False):
        self.rid, self.rtype, self.operands, self.have, self.resolved = rid, rtype, list(operands), have, resolved
        self.self_is_inst = self_is_inst

    def path(self, p):
        if p == "self" and self.self_is_inst:
            return ("inst",)
        return NotImplemented

    def field(self, base, name, e):
        if base == ("inst",):
            if name == "result_id":
                return ("some", ("sym", "RID")) if self.rid else NONE
            if name == "result_type":
                return ("some", ("sym", "RTYPE")) if self.rtype else NONE
            if name == "operands":
                return ("list", self.operands)
            if name == "class":
                return ("class",)
        if base == ("class",) and name == "opname":
            return ("sym", "OPNAME")
        if base == ("class",) and name == "opcode":
            return ("enum", "Op::" + getattr(self, "opcode", "Constant"), [])
        if base == ("grammar",) and name == "opname":
            return ("sym", "EXTNAME")
        return NotImplemented

    def mcall(self, recv, m, args, e, ev):
        if recv == ("inst",) and m == "disassemble":
            return ("generic",)
        if isinstance(recv, tuple) and recv[0] == "enum" and recv[1].startswith("Operand::") and m == "disassemble":
            return ("dis", recv)
        if recv == ("tracker",):
            if m == "have":
                return bool(self.have)
            if m == "resolve":
                return ("some", ("grammar",)) if (self.have and self.resolved) else NONE
        return NotImplemented


def pieces(v):
    from .walkx import pieces as _p
    return _p(v)


def operand_values(n):
    return [("enum", "Operand::IdRef", [("sym", "X%d" % i)]) for i in range(n)]


def line(ctx, rid, rtype, noperands):
    """text pieces of <Instruction as Disassemble>::disassemble for an instruction with / without result id and type and n operands
    (the helpers it is written in terms of are evaluated in place)"""
    f = ctx.rspirv.fn(DIS, "disassemble", "Instruction", "Disassemble")
    ops = operand_values(noperands)
    ev = SymEval(H(rid, rtype, operands=ops, self_is_inst=True), "Instruction::disassemble")
    return pieces(ev.run(f, {}))


def expected_line(rid, rtype, ops, rendered=None):
    """`%id = ` if there is a result id, `Op`name, two spaces `%type` and a space if there is a result type (the space only with
    operands), a space and the operands joined by single spaces (only with operands)"""
    out = []
    if rid:
        out += ["%", ("sym", "RID"), " = "]
    out += ["Op", ("sym", "OPNAME")]
    sp = " " if ops else ""
    if rtype:
        out += ["  %", ("sym", "RTYPE"), sp]
    out += [sp]
    items = rendered if rendered is not None else [("dis", o) for o in ops]
    for i, o in enumerate(items):
        if i:
            out.append(" ")
        out.append(o)
    merged = []
    for p_ in out:
        if p_ == "":
            continue
        if isinstance(p_, str) and merged and isinstance(merged[-1], str):
            merged[-1] += p_
        else:
            merged.append(p_)
    return merged


def ext_inst(ctx, kinds, have, resolved):
    """kinds: list of operand constructors, e.g. ['IdRef', 'LiteralExtInstInteger', 'IdRef']"""
    f = ctx.rspirv.fn(DIS, "disas_ext_inst")
    ps = [p[0] for p in f["sig"]["params"]]
    ops = [("enum", "Operand::" + k, [("sym", "V%d" % i)]) for i, k in enumerate(kinds)]
    ev = SymEval(H(operands=ops, have=have, resolved=resolved), "disas_ext_inst")
    try:
        r = ev.run(f, {ps[0]: ("inst",), ps[1]: ("tracker",)})
    except SPanic as x:
        return ("panic", str(x)), ops
    return r, ops


class LB(Hooks):
    def cast(self, v, ty, e):
        if v == ("sym", "value"):
            return ("as", v, ty)
        return NotImplemented

    def call(self, p, args, e):
        segs = p.split("::")
        if segs[-1] == "from_bits" and len(args) == 1:
            return ("from_bits", segs[-2], args[0])
        return NotImplemented


def literal_bit(ctx, ty, literal_type):
    """text pieces DisassembleLiteralBit for <ty> produces for the given Type value"""
    f = ctx.rspirv.fn(DIS, "disas_literal_bit", ty, "DisassembleLiteralBit")
    ps = [p[0] for p in f["sig"]["params"]]
    r = SymEval(LB(), "disas_literal_bit").run(f, {ps[0]: ("sym", "value"), ps[1]: literal_type})
    return flatten_fmt(r)


class GH(Hooks):
    def __init__(self, word):
        self.word = word

    def path(self, p):
        return ("header",) if p == "self" else NotImplemented

    def field(self, base, name, e):
        if base == ("header",) and name == "generator":
            return self.word
        if base == ("header",) and name == "bound":
            return ("sym", "BOUND")
        return NotImplemented

    def mcall(self, recv, m, args, e, ev):
        if recv == ("header",) and m == "version":
            return ("tuple", [("sym", "MAJOR"), ("sym", "MINOR")])
        if recv == ("header",) and m == "generator":
            return ("tuple", [("sym", "VENDOR"), ("sym", "TOOLVERSION")])
        return NotImplemented


def generator(ctx, word):
    f = ctx.rspirv.fn("rspirv::dr::constructs", "generator", "ModuleHeader", False)
    return SymEval(GH(word), "ModuleHeader::generator").run(f, {})


def header_text(ctx):
    f = ctx.rspirv.fn(DIS, "disassemble", "ModuleHeader", "Disassemble")
    return flatten_fmt(SymEval(GH(0), "ModuleHeader::disassemble").run(f, {}))


class CH(H):
    """disas_constant: the type tracker resolves the result type to `tracked` (a Type value or None); the literal renderers the
    function is written in terms of are evaluated in place (a trait implemented for u32 / u64 is dispatched by the operand's width)"""

    def __init__(self, rtype, tracked, operand):
        H.__init__(self, rid=True, rtype=rtype, operands=[operand] if operand is not None else [])
        self.tracked = tracked
        self.bits = "u64" if (operand is not None and operand[1].endswith("LiteralBit64")) else "u32"
        self.opcode = "Constant"

    def field(self, base, name, e):
        if base == ("inst",) and name == "result_type" and self.rtype:
            return ("some", ("sym", "RTYPE"))
        return H.field(self, base, name, e)

    def _impl(self, name):
        from .progx import _index
        import vcheck.symeval as _se
        ctx = _se.DEFAULT_CTX
        if ctx is None:
            return None
        meth, free, consts = _index(ctx)
        c = meth.get((self.bits, name), [])
        return c[0] if len(c) == 1 else None

    def call(self, p, args, e):
        segs = p.split("::")
        if segs[-1] == "from_bits" and len(args) == 1 and len(segs) >= 2:
            return ("from_bits", segs[-2], args[0])
        if len(segs) >= 2 and segs[-2][:1].isupper() and len(args) == 2 and args[0] == ("sym", "V0"):
            f = self._impl(segs[-1])       # Trait::method(value, ..) with the trait implemented for u32 and u64
            if f is not None:
                return ("impl-call", f, args)
        return NotImplemented

    def mcall(self, recv, m, args, e, ev):
        if recv == ("typetracker",) and m == "resolve" and len(args) == 1:
            return ("some", self.tracked) if self.tracked is not None else NONE
        if recv == ("sym", "V0") and args:
            f = self._impl(m)
            if f is not None:
                return ("impl-call", f, [recv] + list(args))
        return H.mcall(self, recv, m, args, e, ev)


def constant(ctx, rtype, tracked, operand):
    """tracked: True (some tracked type, symbolic), None / False (untracked) or a Type value"""
    f = ctx.rspirv.fn(DIS, "disas_constant")
    ps = [p[0] for p in f["sig"]["params"]]
    if tracked is True:
        tracked = ("enum", "Type::Integer", [("sym", "W"), False])
    elif tracked is False:
        tracked = None
    h = CH(rtype, tracked, operand)
    ev = SymEval(h, "disas_constant")
    try:
        r = ev.run(f, {ps[0]: ("inst",), ps[1]: ("typetracker",)})
    except SPanic as x:
        return ("panic", str(x))
    return resolve_impl_calls(ev, r)


def resolve_impl_calls(ev, v):
    """('impl-call', fn, args) placeholders (trait methods dispatched on the literal's width) -> the value of that function"""
    from ..symeval import Scope, Return
    if isinstance(v, tuple) and v and v[0] == "impl-call":
        f, args = v[1], v[2]
        ps = [q[0] for q in f["sig"]["params"]]
        try:
            r = ev.block(f["body"], Scope(dict(zip(ps, args))))
        except Return as x:
            r = x.v
        return resolve_impl_calls(ev, r)
    if isinstance(v, tuple):
        return tuple(resolve_impl_calls(ev, x) for x in v)
    if isinstance(v, list):
        return [resolve_impl_calls(ev, x) for x in v]
    return v
