"""Evaluation of dr::Loader::consume_instruction / finalize for a concrete opcode on a small loader state (function open?, block
open?): the real statements are evaluated (helpers inlined, grammar::reflect predicates decided by the per-opcode predicate
evaluation) on a Loader value built from Loader::new(); where the instruction value ends up, which objects were created or
handed over and the next state are read off the resulting value.  Same result records as loaderx (which it replaces)."""
import copy

from ..core import Anchor
from ..model import predeval
from ..symeval import NONE, UNIT, Panic as SPanic
from . import progx

LDR = "rspirv::dr::loader"


class LH(progx.InlineHooks):
    def __init__(self, ctx):
        progx.InlineHooks.__init__(self, ctx)
        self.pe = predeval(ctx)
        self.self_ty = "Loader"

    def path(self, p):
        o = self.pe.resolve_op(p)
        if o is not None:
            return ("enum", "Op::" + o, [])
        return progx.InlineHooks.path(self, p)

    def match_path(self, v, path):
        o = self.pe.resolve_op(path)
        if o is not None and isinstance(v, tuple) and v[0] == "enum":
            return v[1] == "Op::" + o
        return NotImplemented

    def binary(self, op, a, b, e):
        if op in ("==", "!=") and isinstance(a, tuple) and isinstance(b, tuple) and a and b and a[0] == "enum" and b[0] == "enum" and (a[1] != b[1] or not (a[2] or b[2])):
            return (a[1] == b[1]) == (op == "==")       # different variants, or the same payload-free variant (payloads: general rules)
        return progx.InlineHooks.binary(self, op, a, b, e)

    def call(self, p, args, e):
        last = p.split("::")[-1]
        if last in self.pe.fns and len(args) == 1 and isinstance(args[0], tuple) and args[0][0] == "enum" and args[0][1].startswith("Op::"):
            return args[0][1][4:] in self.pe.predicate(last)
        if p.split("::")[-2:] in (["Box", "new"], ["Rc", "new"], ["Arc", "new"]) and len(args) == 1:
            return args[0]
        return progx.InlineHooks.call(self, p, args, e)


def _templates(ctx):
    def build():
        from . import evalsum
        t = dict(evalsum._templates(ctx))
        h = LH(ctx)
        ev = progx.make(h, "Loader::new")
        f = ctx.rspirv.fn(LDR, "new", "Loader", False)
        t["Loader"] = ev.run(f, {})
        if not (isinstance(t["Loader"], tuple) and t["Loader"][0] == "struct" and set(t["Loader"][2]) >= {"module", "function", "block"}):
            raise Anchor("Loader::new() does not yield a Loader with module, function, block: %r" % (t["Loader"],))
        return t
    return ctx.memo("loadeval_templates", build)


def make_state(ctx, fopen, bopen, twin=None, later=False):
    """twin: an instruction equal by value to the one about to be consumed; a copy of it already sits in every list of the module, the
    open function and the open block (so that "already present" is not confused with "nothing to do")"""
    t = copy.deepcopy(_templates(ctx))
    ld = t["Loader"]
    if twin is not None:
        for k_, v_ in ld[2]["module"][2].items():
            if isinstance(v_, tuple) and v_ and v_[0] == "list" and k_ != "functions":
                v_[1].append(copy.deepcopy(twin))
    f0 = b0 = None
    if fopen:
        f0 = t["Function"]
        f0[2]["def"] = ("some", ("sym", "EARLIER_DEF"))
        ld[2]["function"] = ("some", f0)
    if bopen:
        b0 = t["Block"]
        b0[2]["label"] = ("some", ("sym", "EARLIER_LABEL"))
        ld[2]["block"] = ("some", b0)
        if twin is not None:
            b0[2]["instructions"][1].append(copy.deepcopy(twin))
    if fopen and twin is not None:
        f0[2]["parameters"][1].append(copy.deepcopy(twin))
    if later:
        # not the first of its kind: the module already has a finished function and the open function a finished block
        t2 = copy.deepcopy(_templates(ctx))
        done_b = t2["Block"]
        done_b[2]["label"] = ("some", ("sym", "FINISHED_LABEL"))
        done_b[2]["instructions"][1].append(("sym", "FINISHED_TERMINATOR"))
        done_f = t2["Function"]
        done_f[2]["def"] = ("some", ("sym", "FINISHED_DEF"))
        done_f[2]["end"] = ("some", ("sym", "FINISHED_END"))
        done_f[2]["blocks"][1].append(copy.deepcopy(done_b))
        ld[2]["module"][2]["functions"][1].append(done_f)
        if fopen:
            f0[2]["blocks"][1].append(done_b)
    return ld, f0, b0


KIND_AS_OPERAND = {"LiteralInteger": ["LiteralBit32"], "LiteralContextDependentNumber": ["LiteralBit32"], "LiteralFloat": ["LiteralBit32"],
                   "PairLiteralIntegerIdRef": ["LiteralBit32", "IdRef"], "PairIdRefLiteralInteger": ["IdRef", "LiteralBit32"], "PairIdRefIdRef": ["IdRef", "IdRef"]}


def instruction(op, ctx=None):
    """an instruction of the opcode shaped after its grammar row: a result type / result id where the row has one, one operand per
    required or optional logical operand and two per repeated one, each of the row's kind with an unknown payload.  (Where the
    instruction ends up must not depend on a payload: a comparison of one with a particular value is undecided and reported.)"""
    from ..model import core_row
    row = core_row(ctx, op) if ctx is not None else None
    ops, rt, rid = [], NONE, NONE
    n = 0
    for kind, quant in (row or {}).get("operands") or []:
        if kind == "IdResultType":
            rt = ("some", ("id", "RESULT_TYPE"))
            continue
        if kind == "IdResult":
            rid = ("some", ("id", "RESULT_ID"))
            continue
        for _rep in range(2 if quant == "ZeroOrMore" else 1):
            for variant in KIND_AS_OPERAND.get(kind, [kind]):
                ops.append(("enum", "Operand::" + variant, [("arg", op, n)]))
                n += 1
    return ("struct", "Instruction", {"class": ("struct", "Instruction", {"opcode": ("enum", "Op::" + op, []), "opname": ("str", op), "capabilities": ("list", []), "extensions": ("list", []), "operands": ("list", [("sym", "LOGICAL_OPERAND")])}),
                                      "result_type": rt, "result_id": rid, "operands": ("list", ops)})


def _find(obj, inst, prefix, out, seen):
    """names of the places holding `inst` below the struct `obj`"""
    if id(obj) in seen or not (isinstance(obj, tuple) and obj and obj[0] == "struct"):
        return
    seen.add(id(obj))
    for k, v in obj[2].items():
        if v is inst:
            out.append(prefix + k)
        elif isinstance(v, tuple) and v and v[0] == "some":
            if v[1] is inst:
                out.append(prefix + k)
        elif isinstance(v, tuple) and v and v[0] == "list":
            for x in v[1]:
                if x is inst:
                    out.append(prefix + k)


def run(ctx, fname, opcode, fopen, bopen, later=False):
    f = ctx.rspirv.fn(LDR, fname, "Loader", "Consumer")
    inst = instruction(opcode, ctx) if opcode is not None else None
    ld, f0, b0 = make_state(ctx, fopen, bopen, inst, later)
    h = LH(ctx)
    ev = progx.make(h, "Loader::" + fname)
    env = {"self": ld}
    if opcode is not None:
        ps = [q[0] for q in f["sig"]["params"] if q[0] != "self"]
        env[ps[0]] = inst
    try:
        r = ev.run(f, env)
    except SPanic as x:
        return ("panic", str(x)), 0
    if not (isinstance(r, tuple) and r and r[0] == "enum" and r[1].split("::")[0] in ("ParseAction", "Action")):
        raise Anchor("loader: function result is not a ParseAction: %r" % (r,))
    variant = r[1].split("::")[-1]
    mod = ld[2]["module"]
    fn_now = ld[2]["function"][1] if ld[2]["function"] != NONE else None
    blk_now = ld[2]["block"][1] if ld[2]["block"] != NONE else None
    sinks = []
    seen = set()
    if inst is not None:
        _find(mod, inst, "module.", sinks, seen)
        for fobj in [x for x in (f0, fn_now) if x is not None] + list(mod[2]["functions"][1]):
            _find(fobj, inst, "function.", sinks, seen)
            for b in fobj[2]["blocks"][1]:
                _find(b, inst, "block.", sinks, seen)
        for bobj in (b0, blk_now):
            if bobj is not None:
                _find(bobj, inst, "block.", sinks, seen)
    moves = len(sinks)
    if variant == "Error":
        payload = r[2][0] if r[2] else None
        ev_name = payload[1].split("::")[-1] if isinstance(payload, tuple) and payload and payload[0] == "enum" else repr(payload)
        if inst is not None and isinstance(payload, tuple) and payload[0] == "enum" and any(
                x is inst or (isinstance(x, tuple) and x and x[0] == "some" and x[1] is inst) for x in payload[2]):
            moves += 1
        return ("error", ev_name, sinks), moves
    if variant != "Continue":
        return ("stop",), moves
    events = []
    if f0 is not None and any(x is f0 for x in mod[2]["functions"][1]):
        events.append("function->module.functions")
    owner_fns = [x for x in (f0, fn_now) if x is not None] + list(mod[2]["functions"][1])
    if b0 is not None and any(any(x is b0 for x in fo[2]["blocks"][1]) for fo in owner_fns):
        events.append("block->function.blocks")

    def set_fields(o):
        return sorted(k for k, v in o[2].items() if (isinstance(v, tuple) and v and v[0] == "some") or (isinstance(v, tuple) and v and v[0] == "list" and v[1]))
    if fn_now is not None and fn_now is not f0:
        events.append("new function %s" % set_fields(fn_now))
    if blk_now is not None and blk_now is not b0:
        events.append("new block %s" % set_fields(blk_now))
    st = (fn_now is not None, blk_now is not None)
    return ("ok", sinks, st, events), moves


def consume(ctx, opcode, fopen, bopen, later=False):
    return run(ctx, "consume_instruction", opcode, fopen, bopen, later)


def finalize(ctx, fopen, bopen):
    return run(ctx, "finalize", None, fopen, bopen)[0]
