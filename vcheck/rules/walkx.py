"""Evaluation of the disassembler's walks (Module / Function / Block) and of the per-operand renderer on abstract values (C07)."""
import copy

from ..core import Anchor
from ..symeval import NONE, UNIT, Panic as SPanic, flatten_fmt
from . import progx

DIS = "rspirv::binary::disassemble"


def inst(name, opcode="Nop"):
    return ("struct", "Instruction", {"class": ("struct", "Instruction", {"opcode": ("enum", "Op::" + opcode, []), "opname": ("str", opcode), "capabilities": ("list", []), "extensions": ("list", []), "operands": ("list", [("sym", "LOGICAL_OPERAND")])}),
                                      "result_type": NONE, "result_id": NONE, "operands": ("list", []), "name": name})


class WH(progx.InlineHooks):
    def __init__(self, ctx):
        progx.InlineHooks.__init__(self, ctx)
        from ..model import predeval
        self.pe = predeval(ctx)
        self.trackers = {}

    def path(self, p):
        o = self.pe.resolve_op(p)
        if o is not None:
            return ("enum", "Op::" + o, [])
        return progx.InlineHooks.path(self, p)

    def match_path(self, v, path):
        o = self.pe.resolve_op(path)
        if o is not None and isinstance(v, tuple) and v[0] == "enum":
            return v[1] == "Op::" + o
        return NotImplemented

    def binary(self, op, a, b, e):
        if op in ("==", "!=") and isinstance(a, tuple) and isinstance(b, tuple) and a and b and a[0] == "enum" and b[0] == "enum":
            return (a[1] == b[1]) == (op == "==")
        return progx.InlineHooks.binary(self, op, a, b, e)

    def call(self, p, args, e):
        segs = p.split("::")
        if len(segs) >= 2:
            from ..symeval import _type_alias
            al_ = _type_alias(segs[-2])         # a private alias of a tracker type names its constructor too
            if al_:
                segs = segs[:-2] + [al_.split("<")[0].split("::")[-1], segs[-1]]
        if segs[-2:] in (["ExtInstSetTracker", "new"], ["TypeTracker", "new"]) and not args:
            t = ("tracker", segs[-2], [])
            return t
        if segs[-1] == "disas_constant" and len(args) == 2 and isinstance(args[1], tuple) and args[1][0] == "tracker":
            return ("text", "typed-constant", args[0][2].get("name"), args[1][1], tuple(args[1][2]))
        if segs[-1] == "disas_ext_inst" and len(args) == 2 and isinstance(args[1], tuple) and args[1][0] == "tracker":
            return ("text", "named-ext-inst", args[0][2].get("name"), args[1][1], tuple(args[1][2]))
        return progx.InlineHooks.call(self, p, args, e)

    def mcall(self, recv, m, args, e, ev):
        if isinstance(recv, tuple) and recv and recv[0] == "tracker" and m == "track" and len(args) == 1:
            recv[2].append(args[0][2].get("name"))
            return UNIT
        if isinstance(recv, tuple) and recv and recv[0] == "struct" and m == "disassemble" and not args:
            if recv[1] == "Instruction":
                return ("text", "instruction", recv[2].get("name"))
            if recv[1] == "ModuleHeader":
                return ("text", "header")
        if recv == NONE and m == "unwrap_or_default" and not args:
            return ("str", "")          # the values rendered here are Strings
        if m == "is_empty" and not args:
            r = empty(recv)
            if r is not None:
                return r
        if isinstance(recv, tuple) and recv and recv[0] in ("text", "join", "fmt") and m in ("to_string", "clone", "to_owned", "into", "as_str"):
            return recv
        return progx.InlineHooks.mcall(self, recv, m, args, e, ev)


def empty(v):
    if isinstance(v, tuple) and v:
        if v[0] == "text":
            return False
        if v[0] == "join":
            es = [empty(x) for x in v[1]]
            return all(x is True for x in es) if None not in es else None
        if v[0] == "fmt":
            es = [(p == "") if isinstance(p, str) else empty(p[1]) for p in v[1]]
            return all(x is True for x in es) if None not in es else None
        if v[0] == "str":
            return v[1] == ""
    return None


def pieces(v):
    """the text value as a sequence of atomic texts and separator strings"""
    out = []

    def go(x):
        if isinstance(x, tuple) and x and x[0] == "join" and isinstance(x[2], tuple) and x[2][0] == "str":
            for i, it in enumerate(x[1]):
                if i:
                    out.append(x[2][1])
                go(it)
        elif isinstance(x, tuple) and x and x[0] == "fmt":
            for p_ in x[1]:
                if isinstance(p_, str):
                    if p_:
                        out.append(p_)
                elif p_[2] == "":
                    go(p_[1])
                else:
                    out.append(("formatted", p_[1], p_[2]))
        elif isinstance(x, tuple) and x and x[0] == "str":
            if x[1]:
                out.append(x[1])
        else:
            out.append(x)
    go(v)
    merged = []
    for p_ in out:
        if isinstance(p_, str) and merged and isinstance(merged[-1], str):
            merged[-1] += p_
        else:
            merged.append(p_)
    return merged


SECTIONS = [("capabilities", "CAP", "Capability"), ("extensions", "EXT", "Extension"), ("ext_inst_imports", "IMPORT", "ExtInstImport"),
            ("memory_model", "MEMORY_MODEL", "MemoryModel"), ("entry_points", "ENTRY", "EntryPoint"), ("execution_modes", "MODE", "ExecutionMode"),
            ("debug_string_source", "STRING", "String"), ("debug_names", "NAME", "Name"), ("debug_module_processed", "PROCESSED", "ModuleProcessed"),
            ("annotations", "DECORATE", "Decorate")]


def module(ctx, full):
    """full: header, memory model, three functions - a complete one; one without definition but with parameters, whose first block
    has no label and whose second block is empty; one with a definition only.  not full: the same without header and memory model."""
    from . import evalsum
    t = copy.deepcopy(evalsum._templates(ctx))
    mod = t["Module"]
    for field, name, op in SECTIONS:
        if field == "memory_model":
            mod[2][field] = ("some", inst(name, op)) if full else NONE
        else:
            mod[2][field] = ("list", [inst(name, op)])
    mod[2]["types_global_values"] = ("list", [inst("TYPE", "TypeInt"), inst("CONSTANT", "Constant"), inst("VARIABLE", "Variable")])

    def block(label, insts):
        b = copy.deepcopy(t["Block"])
        b[2]["label"] = ("some", inst(label, "Label")) if label else NONE
        b[2]["instructions"] = ("list", insts)
        return b

    def function(d, params, blocks, end):
        f = copy.deepcopy(t["Function"])
        f[2]["def"] = ("some", inst(d, "Function")) if d else NONE
        f[2]["parameters"] = ("list", [inst(p_, "FunctionParameter") for p_ in params])
        f[2]["blocks"] = ("list", blocks)
        f[2]["end"] = ("some", inst(end, "FunctionEnd")) if end else NONE
        return f
    f1 = function("FUNCTION", ["PARAMETER"], [block("LABEL", [inst("ADD", "IAdd"), inst("EXT", "ExtInst"), inst("RETURN", "Return")])], "FUNCTION_END")
    f2 = function(None, ["F2_PARAMETER1", "F2_PARAMETER2"], [block(None, [inst("F2_EXT", "ExtInst")]), block("F2_LABEL2", [])], "F2_END")
    f3 = function("F3_FUNCTION", [], [], None)
    mod[2]["functions"] = ("list", [f1, f2, f3])
    mod[2]["header"] = ("some", ("struct", "ModuleHeader", {})) if full else NONE
    return mod


def extra_size(ctx):
    """the largest small integer the walkers (disassembler walks, traversals, container assembly) compare / count with: the abstract
    module then also gets that many + 1 functions, blocks per function and instructions per block"""
    def build():
        from ..tree import small_literals
        lits = set()
        for mod_, ty, tr in (("rspirv::binary::disassemble", "Module", "Disassemble"), ("rspirv::binary::disassemble", "Function", "Disassemble"),
                             ("rspirv::binary::disassemble", "Block", "Disassemble"), ("rspirv::binary::assemble", "Module", "Assemble"),
                             ("rspirv::binary::assemble", "Function", "Assemble"), ("rspirv::binary::assemble", "Block", "Assemble"),
                             ("rspirv::dr::constructs", "Module", False), ("rspirv::dr::constructs", "Function", False)):
            for f in ctx.rspirv.fns(mod_, ty, tr):
                if tr is False and "inst_iter" not in f["name"]:
                    continue
                lits |= small_literals(f["body"])
        return max(lits) if lits else 0
    return ctx.memo("walkx_extra", build)


def grow(ctx, mod):
    """append extra_size+1 - (present) functions of extra_size+1 blocks of extra_size+1 instructions"""
    k = extra_size(ctx)
    if k < 2:
        return mod
    from . import evalsum
    t = evalsum._templates(ctx)
    n = k + 1
    fns = list(mod[2]["functions"][1])
    for fi in range(len(fns), max(n, len(fns) + 1)):
        f = copy.deepcopy(t["Function"])
        f[2]["def"] = ("some", inst("G%d_FUNCTION" % fi, "Function"))
        f[2]["parameters"] = ("list", [inst("G%d_PARAMETER%d" % (fi, j), "FunctionParameter") for j in range(n)])
        blocks = []
        for bi in range(n):
            b = copy.deepcopy(t["Block"])
            b[2]["label"] = ("some", inst("G%d_B%d_LABEL" % (fi, bi), "Label"))
            b[2]["instructions"] = ("list", [inst("G%d_B%d_I%d" % (fi, bi, j), "IAdd") for j in range(n)])
            blocks.append(b)
        f[2]["blocks"] = ("list", blocks)
        f[2]["end"] = ("some", inst("G%d_END" % fi, "FunctionEnd"))
        fns.append(f)
    mod[2]["functions"] = ("list", fns)
    return mod


def expected_module(full, m=None):
    """header, every global instruction (OpConstant typed, after all of types_global_values was tracked), then per function its
    definition, parameters, per block label and instructions (OpExtInst named, after all imports were tracked), end - computed
    from the module value"""
    T = lambda n: ("text", "instruction", n)

    def nm(x):
        return x[2].get("name")

    def op(x):
        return x[2]["class"][2]["opcode"][1].split("::")[-1]
    mod = m[2]
    out = [("text", "header")] if mod["header"] != NONE else []
    tracked_types = tuple(nm(x) for x in mod["types_global_values"][1])
    imports = tuple(nm(x) for x in mod["ext_inst_imports"][1])
    for f_, _, _ in SECTIONS + [("types_global_values", None, None)]:
        v = mod[f_]
        xs = [] if v == NONE else ([v[1]] if v[0] == "some" else list(v[1]))
        for x in xs:
            out.append(("text", "typed-constant", nm(x), "TypeTracker", tracked_types) if op(x) == "Constant" else T(nm(x)))
    for fn in mod["functions"][1]:
        fl = fn[2]
        if fl["def"] != NONE:
            out.append(T(nm(fl["def"][1])))
        out += [T(nm(x)) for x in fl["parameters"][1]]
        for b in fl["blocks"][1]:
            if b[2]["label"] != NONE:
                out.append(T(nm(b[2]["label"][1])))
            for x in b[2]["instructions"][1]:
                out.append(("text", "named-ext-inst", nm(x), "ExtInstSetTracker", imports) if op(x) == "ExtInst" else T(nm(x)))
        if fl["end"] != NONE:
            out.append(T(nm(fl["end"][1])))
    res = []
    for i, x in enumerate(out):
        if i:
            res.append("\n")
        res.append(x)
    return res


def module_disassemble(ctx, full):
    f = ctx.rspirv.fn(DIS, "disassemble", "Module", "Disassemble")
    h = WH(ctx)
    ev = progx.make(h, "Module::disassemble")
    h.self_ty = "Module"
    m = grow(ctx, module(ctx, full))
    try:
        r = ev.run(f, {"self": m})
    except SPanic as x:
        return ("panic", str(x))
    return pieces(r)


def module_expected(ctx, full):
    return expected_module(full, grow(ctx, module(ctx, full)))


def container_disassemble(ctx, ty, full):
    """Function / Block disassemble on the abstract function / block -> pieces"""
    f = ctx.rspirv.fn(DIS, "disassemble", ty, "Disassemble")
    h = WH(ctx)
    ev = progx.make(h, "%s::disassemble" % ty)
    h.self_ty = ty
    fn = module(ctx, True)[2]["functions"][1][0]
    selfv = fn if ty == "Function" else fn[2]["blocks"][1][0]
    try:
        r = ev.run(f, {"self": selfv})
    except SPanic as x:
        return ("panic", str(x))
    return pieces(r)


def expected_container(ty, full):
    T = lambda n: ("text", "instruction", n)
    blk = [T("LABEL"), "\n", T("ADD"), "\n", T("EXT"), "\n", T("RETURN")]
    if ty == "Block":
        return blk
    return [T("FUNCTION"), "\n", T("PARAMETER"), "\n"] + blk + ["\n", T("FUNCTION_END")]


# ------------------------------------------------------------------------------------------------- Disassemble for Operand
class OH(progx.InlineHooks):
    NO_INLINE = ("disassemble",)

    def mcall(self, recv, m, args, e, ev):
        if recv == ("sym", "PAYLOAD") and m == "disassemble" and not args:
            return ("text", "payload-disassemble")
        return progx.InlineHooks.mcall(self, recv, m, args, e, ev)


def operand_disassemble(ctx, variant):
    """-> 'id' | 'payload-table' | 'display' | other description"""
    f = ctx.rspirv.fn(DIS, "disassemble", "Operand", "Disassemble")
    h = OH(ctx)
    ev = progx.make(h, "Operand::disassemble")
    h.self_ty = "Operand"
    selfv = ("enum", "Operand::" + variant, [("sym", "PAYLOAD")])
    try:
        r = ev.run(f, {"self": selfv})
    except SPanic as x:
        return "panics: %s" % x
    ps = pieces(r)
    if ps == ["%", ("sym", "PAYLOAD")]:
        return "id"
    if ps == [("text", "payload-disassemble")]:
        return "payload-table"
    if ps == [selfv]:
        return "display"
    return "other: %s" % (ps,)
