"""Symbolic reading of every dr::Builder method: which instruction it builds (opcode, result type/id, operand slots)
and where it puts it."""
from ..core import Anchor
from ..tree import is_node, path_of, show, show_stmt, strip_refs, unblock, walk

BLD = "rspirv::dr::build"


def _op_elem(e, params):
    """dr::Operand::K(P) | dr::Operand::K(P.into()) | dr::Operand::K(*P) -> (K, P)"""
    if is_node(e) and e[0] == "call" and len(e[2]) == 1:
        p = path_of(e[1]) or ""
        segs = p.split("::")
        if len(segs) >= 2 and segs[-2] == "Operand":
            a = e[2][0]
            if a[0] == "mcall" and a[2] in ("into",) and not a[3]:
                a = a[1]
            if a[0] == "unary" and a[1] == "*":
                a = a[2]
            q = path_of(a)
            if q is not None:
                return (segs[-1], q)
            if a[0] == "field":  # v.0
                return (segs[-1], show(a))
    return None


def _opt(e):
    """None -> ('none',); Some(x) -> ('some', x-path); path -> ('path', p)"""
    p = path_of(e)
    if p == "None":
        return ("none",)
    if is_node(e) and e[0] == "call" and path_of(e[1]) == "Some" and len(e[2]) == 1:
        return ("some", path_of(e[2][0]) or show(e[2][0]))
    if p is not None:
        return ("path", p)
    return ("other", show(e))


def find_inst_new(n):
    return [x for x in walk(n) if x[0] == "call" and (path_of(x[1]) or "").endswith("Instruction::new") and len(x[2]) == 4]


def summarise(f, file):
    """-> dict; 'problems' lists every statement that was not understood (fail closed by the caller)."""
    params = [(p[0], p[1]) for p in f["sig"]["params"] if p[0] != "self"]
    pnames = [p[0] for p in params]
    s = {"name": f["name"], "file": file, "params": params, "ret": f["sig"]["ret"], "vis": f["vis"], "doc": f.get("doc", ""),
         "opcode": None, "rtype": None, "rid": None, "slots": [], "sink": None, "id_src": None, "problems": [],
         "returns": None, "emits": False, "dedup": False, "guards": [], "fn": f, "other": []}
    news = find_inst_new(f["body"])
    if not news:
        return s
    s["emits"] = True
    if len(news) != 1:
        s["problems"].append("%d Instruction::new calls" % len(news))
        return s
    new = news[0]
    opp = path_of(new[2][0]) or ""
    s["opcode"] = opp.split("::")[-1] if opp.split("::")[-2:-1] == ["Op"] else None
    if s["opcode"] is None:
        s["problems"].append("opcode argument is not a spirv::Op path: %s" % show(new[2][0]))
    s["rtype"] = _opt(new[2][1])
    s["rid"] = _opt(new[2][2])
    opsarg = new[2][3]
    inst_var = None
    ops_var = None
    idvars = {}

    def vec_slots(v):
        out = []
        for el in v[1]:
            oe = _op_elem(el, pnames)
            if oe is None:
                s["problems"].append("operand element not Operand::K(param): %s" % show(el)[:80])
            else:
                out.append(("one", [oe[0]], oe[1]))
        return out

    if opsarg[0] == "vec":
        s["slots"] += vec_slots(opsarg)
    elif path_of(opsarg) is not None:
        ops_var = path_of(opsarg)
    else:
        s["problems"].append("operand vector argument: %s" % show(opsarg)[:80])

    pre_slots = []
    stmts = f["body"][1]
    for st in stmts:
        txt = show_stmt(st)[:160]
        if st[0] == "local":
            pat, init = st[1], st[3]
            name = pat[1] if pat[0] == "p_ident" else None
            if init is None or name is None:
                if init is not None and not _touches(init, inst_var, ops_var, new) and (st[4] is None or not _touches(st[4], inst_var, ops_var, new) or "return Err" in show(st[4])):
                    s["other"].append(txt)
                    continue
                s["problems"].append("statement: " + txt)
                continue
            if init is new or (find_inst_new(init) and unblock(init) is new):
                inst_var = name
                continue
            # id sources
            if init[0] == "mcall" and init[2] == "unwrap_or_else" and path_of(init[1]) in pnames and len(init[3]) == 1 \
                    and init[3][0][0] == "closure" and show(init[3][0][2]) == "self.id()":
                idvars[name] = ("param_or_fresh", path_of(init[1]))
                continue
            if show(init) == "self.id()":
                idvars[name] = ("fresh",)
                continue
            if init[0] == "match" and path_of(init[1]) in pnames and len(init[2]) == 2:
                arms = {show(a[0]): show(a[2]) for a in init[2]}
                if arms == {"Some(v)": "v", "None": "self.id()"}:
                    idvars[name] = ("param_or_fresh", path_of(init[1]))
                    continue
            if init[0] == "match" and show(init[1]) == "self.selected_function":
                s["guards"].append(("fn", txt))
                continue
            if init[0] == "vec" and ops_var == name:
                pre_slots += vec_slots(init)
                continue
            if init[0] == "ref" and "self.module.functions" in show(init):
                continue
            if init[0] == "call" and (path_of(init[1]) or "").endswith("Function::new") or (init[0] == "call" and (path_of(init[1]) or "").endswith("Block::new")):
                continue
            if not _touches(init, inst_var, ops_var, new):
                s["other"].append(txt)
                continue
            s["problems"].append("statement: " + txt)
            continue
        if st[0] != "expr":
            s["problems"].append("statement: " + txt)
            continue
        e = st[1]
        # optional / variadic / additional operands
        if e[0] == "if" and e[1][0] == "let" and e[3] is None and (inst_var or ops_var):
            pat, src = e[1][1], e[1][2]
            blk = e[2][1]
            if pat[0] == "p_ts" and pat[1] == "Some" and len(pat[2]) == 1 and pat[2][0][0] == "p_ident" and path_of(src) in pnames \
                    and len(blk) == 1 and blk[0][0] == "expr":
                c = blk[0][1]
                tgt = (inst_var + ".operands") if inst_var else ops_var
                if c[0] == "mcall" and c[2] == "push" and show(c[1]) == tgt and len(c[3]) == 1:
                    oe = _op_elem(c[3][0], [pat[2][0][1]])
                    if oe and oe[1] == pat[2][0][1]:
                        (s["slots"] if inst_var else pre_slots).append(("opt", [oe[0]], path_of(src)))
                        continue
        if e[0] == "mcall" and e[2] == "extend" and len(e[3]) == 1 and inst_var and show(e[1]) == inst_var + ".operands":
            a = e[3][0]
            if path_of(a) in pnames:
                s["slots"].append(("additional", [], path_of(a)))
                continue
            if a[0] == "mcall" and a[2] == "map" and len(a[3]) == 1 and a[1][0] == "mcall" and a[1][2] == "into_iter" \
                    and path_of(a[1][1]) in pnames:
                k = (path_of(a[3][0]) or "").split("::")
                if len(k) >= 2 and k[-2] == "Operand":
                    s["slots"].append(("many", [k[-1]], path_of(a[1][1])))
                    continue
        if e[0] == "for":
            pat, src, body = e[1], e[2], e[3]
            target = None
            if inst_var:
                target = inst_var + ".operands"
            if ops_var:
                target = ops_var
            srcp = path_of(src)
            if srcp is None and src[0] == "mcall" and src[2] == "as_ref" and path_of(src[1]) in pnames:
                srcp = path_of(src[1])
            if pat[0] == "p_ident" and srcp in pnames and target:
                v = pat[1]
                ks = []
                good = True
                for b in body[1]:
                    c = b[1] if b[0] == "expr" else None
                    if c is not None and c[0] == "mcall" and c[2] == "push" and show(c[1]) == target and len(c[3]) == 1:
                        a = c[3][0]
                        oe = _op_elem(a, [])
                        if oe and oe[1] in (v, v + ".0", v + ".1"):
                            ks.append(oe[0] if oe[1] == v else "%s@%s" % (oe[0], oe[1].split(".")[-1]))
                        elif show(a) in (v + ".0", v + ".1"):
                            ks.append("<Operand>@%s" % show(a).split(".")[-1])
                        else:
                            good = False
                    else:
                        good = False
                if good and ks:
                    (pre_slots if ops_var and not inst_var else s["slots"]).append(("many", ks, srcp))
                    continue
        if e[0] == "mcall" and e[2] == "extend" and ops_var and path_of(e[1]) == ops_var and len(e[3]) == 1 and path_of(e[3][0]) in pnames:
            pre_slots.append(("many", ["<Operand>"], path_of(e[3][0])))
            continue
        # sinks
        sink = _sink(e, inst_var, new)
        if sink:
            if s["sink"] is not None and s["sink"] != sink:
                s["problems"].append("more than one sink: %s and %s" % (s["sink"], sink))
            s["sink"] = sink
            if st[2] is False:
                s["returns"] = "sink-result"
            continue
        # type dedup three-way branch
        dd = dedup_stmt(e, inst_var, pnames)
        if dd is not None:
            s["dedup"] = dd
            s["sink"] = ("section", "types_global_values")
            s["returns"] = "dedup"
            continue
        if e[0] == "if" and show(e[1]).startswith("self.selected_") and e[3] is None and "return Err" in show(e[2]):
            s["guards"].append(("if", txt))
            continue
        # selection-dependent sinks (line/no_line/variable/undef)
        sel = _select_sink(e, inst_var)
        if sel:
            s["sink"] = sel
            continue
        # function/block bookkeeping of begin_*/end_function
        if _bookkeeping(e):
            continue
        # returns
        if st[2] is False:
            r = e
            if r[0] == "call" and path_of(r[1]) == "Ok" and len(r[2]) == 1:
                r = r[2][0]
            rp = path_of(r)
            if rp is not None:
                s["returns"] = rp
                continue
            if show(r) == "()":
                s["returns"] = "()"
                continue
        if not _touches(e, inst_var, ops_var, new):
            s["other"].append(txt)
            continue
        s["problems"].append("statement: " + txt)
    s["slots"] = pre_slots + s["slots"]
    s["idvars"] = idvars
    # resolve result id source
    rid = s["rid"]
    if rid[0] == "some" and rid[1] in idvars:
        s["id_src"] = idvars[rid[1]]
    elif rid[0] == "some" and rid[1] in pnames:
        s["id_src"] = ("param", rid[1])
    elif rid[0] == "path" and rid[1] in pnames:
        s["id_src"] = ("optparam", rid[1])
    elif rid[0] == "none":
        s["id_src"] = ("none",)
    else:
        s["id_src"] = ("other", str(rid))
    return s


def _touches(e, inst_var, ops_var, new):
    """does the expression mention the instruction under construction, its operand vector, or build/push instructions?"""
    for x in walk(e):
        if x is new:
            return True
        if x[0] == "path" and x[1] in (inst_var, ops_var) and x[1] is not None:
            return True
        if x[0] == "mcall" and x[2] in ("push", "insert", "extend", "append") and "self.module" in show(x[1]):
            return True
    return False


def _is_inst(e, inst_var, new):
    return (inst_var is not None and path_of(e) == inst_var) or e is new or (is_node(e) and unblock(e) is new)


def _sink(e, inst_var, new):
    if e[0] == "try":
        e = e[1]
    if e[0] == "mcall" and path_of(e[1]) == "self":
        m, a = e[2], e[3]
        if m == "insert_into_block" and len(a) == 2 and _is_inst(a[1], inst_var, new):
            return ("block", show(a[0]))
        if m == "end_block" and len(a) == 1 and _is_inst(a[0], inst_var, new):
            return ("end_block", "InsertPoint::End")
        if m == "insert_end_block" and len(a) == 2 and _is_inst(a[1], inst_var, new):
            return ("end_block", show(a[0]))
        if m == "insert_types_global_values" and len(a) == 2 and _is_inst(a[1], inst_var, new):
            return ("section", "types_global_values")
    if e[0] == "mcall" and e[2] == "push" and len(e[3]) == 1 and _is_inst(e[3][0], inst_var, new):
        r = e[1]
        if r[0] == "field" and show(r[1]) == "self.module":
            return ("section", r[2])
        t = show(r)
        if t.startswith("self.module.functions[") and t.endswith(".parameters"):
            return ("fn_param",)
    if e[0] == "assign" and e[2][0] == "call" and path_of(e[2][1]) == "Some" and _is_inst(e[2][2][0], inst_var, new):
        l = show(e[1])
        if l == "self.module.memory_model":
            return ("section", "memory_model")
        if l.startswith("self.module.functions[") and l.endswith(".end"):
            return ("fn_end",)
        if l.endswith(".def"):
            return ("fn_def",)
        if l.endswith(".label"):
            return ("label",)
    return None


class _DD(Exception):
    pass


def dedup_eval(e, inst_var, explicit_param):
    """Evaluate the final expression of an implicit-type method for (explicit id given?, identical declaration found?).
    -> {(explicit, found): (pushes, pushed_result_id, returned)} with symbols 'E' (explicit id), 'D' (found id), 'F' (fresh id),
    'orig' (the id the instruction was built with = result_id parameter)."""
    out = {}
    for explicit in (True, False):
        for found in (True, False):
            env = {explicit_param: ("some", "E") if explicit else ("none",)}
            st = {"pushes": 0, "pushed_id": None, "inst_id": "orig", "fresh": 0, "dedup_calls": 0}

            def val(x):
                x = unblock(x)
                k = x[0]
                if k == "path":
                    if x[1] in env:
                        return env[x[1]]
                    if x[1] == "None":
                        return ("none",)
                    raise _DD("name " + x[1])
                if k == "call" and path_of(x[1]) == "Some" and len(x[2]) == 1:
                    return ("some", val(x[2][0]))
                if k == "mcall" and path_of(x[1]) == "self" and x[2] == "dedup_insert_type" and show(x[3][0]) == "&" + inst_var:
                    st["dedup_calls"] += 1
                    if st["inst_id"] != "orig":
                        raise _DD("lookup after the id was changed")
                    return ("some", "D") if found else ("none",)
                if k == "mcall" and path_of(x[1]) == "self" and x[2] == "id" and not x[3]:
                    st["fresh"] += 1
                    return "F"
                if k == "mcall" and x[2] == "push" and show(x[1]) == "self.module.types_global_values" and path_of(x[3][0]) == inst_var:
                    st["pushes"] += 1
                    st["pushed_id"] = st["inst_id"]
                    return None
                if k == "assign" and show(x[1]) == inst_var + ".result_id":
                    v = val(x[2])
                    if not (isinstance(v, tuple) and v[0] == "some"):
                        raise _DD("result_id assigned " + show(x[2]))
                    st["inst_id"] = v[1]
                    return None
                if k == "block":
                    r = None
                    for s_ in x[1]:
                        if s_[0] == "local" and s_[1][0] == "p_ident" and s_[3] is not None:
                            env[s_[1][1]] = val(s_[3])
                            r = None
                        elif s_[0] == "expr":
                            r = val(s_[1])
                            if s_[2]:
                                r = None
                        else:
                            raise _DD("statement")
                    return r
                if k == "if" and x[1][0] == "let":
                    v = val(x[1][2])
                    pat = x[1][1]
                    if pat[0] == "p_ts" and pat[1] == "Some" and pat[2][0][0] == "p_ident":
                        if isinstance(v, tuple) and v[0] == "some":
                            env[pat[2][0][1]] = v[1]
                            return val(x[2])
                        return val(x[3]) if x[3] is not None else None
                    raise _DD("if-let pattern")
                if k == "match":
                    v = val(x[1])
                    for pat, guard, body in x[2]:
                        if guard is not None:
                            raise _DD("guard")
                        if pat[0] == "p_ts" and pat[1] == "Some" and pat[2][0][0] == "p_ident":
                            if isinstance(v, tuple) and v[0] == "some":
                                env[pat[2][0][1]] = v[1]
                                return val(body)
                        elif (path_of(pat) or "") == "None":
                            if v == ("none",):
                                return val(body)
                        elif pat[0] == "p_wild":
                            return val(body)
                        else:
                            raise _DD("match pattern")
                    raise _DD("no arm")
                if k == "return" and x[1] is not None:
                    raise _DD("early return")
                raise _DD("expression " + show(x)[:60])
            try:
                r = val(e)
            except _DD as ex:
                return {"error": str(ex)}
            out[(explicit, found)] = (st["pushes"], st["pushed_id"], r, st["fresh"])
    return out


DEDUP_WANT = {(True, True): (1, "orig", "E", 0), (True, False): (1, "orig", "E", 0), (False, True): (0, None, "D", 0), (False, False): (1, "F", "F", 1)}


def dedup_stmt(e, inst_var, pnames):
    """the statement is the explicit/found/fresh decision of an implicit-type method if it mentions dedup_insert_type"""
    if not inst_var or "dedup_insert_type" not in show(e):
        return None
    cands = [p for p in pnames if p in ("result_id",)] or list(pnames)
    for ep in cands:
        tab = dedup_eval(e, inst_var, ep)
        if "error" not in tab:
            ok = all(tab.get(k) == v for k, v in DEDUP_WANT.items())
            return {"shape_ok": ok, "explicit_param": ep, "why": "decision table %s" % {str(k): v for k, v in tab.items()}, "text": show(e)[:300]}
    return {"shape_ok": False, "explicit_param": cands[0] if cands else None, "why": "not evaluable: %s" % tab.get("error"), "text": show(e)[:300]}


def _select_sink(e, inst_var):
    t = show(e)
    if e[0] == "if" and show(e[1]) == "self.selected_block.is_some()" and e[3] is not None and inst_var:
        a = show(e[2])
        b = show(e[3])
        if "self.insert_into_block(InsertPoint::End, %s)" % inst_var in a and b == "{ self.module.types_global_values.push(%s); }" % inst_var:
            return ("block_or_global", "by selected_block")
    if e[0] == "match" and show(e[1]) == "(self.selected_function, self.selected_block)" and inst_var and len(e[2]) == 2:
        a0, a1 = e[2]
        if show(a0[0]).startswith("(Some(") and ".instructions.push(%s)" % inst_var in show(a0[2]) and show(a1[0]) == "_" \
                and show(unblock(a1[2])) == "self.module.types_global_values.push(%s)" % inst_var:
            return ("block_or_global", "by selected_function and selected_block")
    return None


def _bookkeeping(e):
    t = show(e)
    return t in ("self.module.functions.push(f)", "blocks.push(bb)") or t.startswith("self.selected_function = ") \
        or t.startswith("self.selected_block = ") or t.startswith("f.def = ") or t.startswith("bb.label = ")


def methods(ctx):
    def build():
        out = []
        raw = ctx.raw
        for f in ctx.rspirv.fns(BLD, "Builder"):
            cand = [x for x in raw.byname.get(f["name"], []) if (x.get("owner") or "").split("<")[0].split("::")[-1] == "Builder"
                    and "dr/build/" in x["file"]]
            file = cand[0]["file"] if len(cand) == 1 else None
            s = summarise(f, file)
            hand = not (file or "").split("/")[-1].startswith("autogen")
            if not s["dedup"] and ((s["emits"] and s["problems"]) or hand):
                # hand-written methods (and anything not in one of the recognised statement shapes) are summarised by evaluation,
                # including whether they emit at all (the instruction may be built by a helper); the statement-shape reading is
                # kept when the evaluation gives no single answer
                from . import evalsum
                try:
                    s = evalsum.summarise(ctx, f, s)
                except evalsum.NoInstruction:
                    pass
                except Anchor as ex:
                    if s["problems"] or (hand and s["emits"]):
                        # a hand-written method whose evaluation gives no single answer (e.g. it branches on the value of an
                        # argument) is reported, even if its statements look like a recognised shape
                        s["problems"] = s["problems"][:2] + ["evaluation: %s" % ex]
            if any(x[0] == "mcall" and x[2] == "dedup_insert_type" for x in walk(f["body"])) and f["name"] != "dedup_insert_type":
                # implicit-type methods: the explicit / found / fresh decision is evaluated on builders with and without an identical declaration
                from . import evalsum
                try:
                    s = evalsum.dedup_summary(ctx, f, s)
                except evalsum.NoInstruction:
                    pass
                except Anchor as ex:
                    if not s["dedup"]:
                        s["dedup"] = {"shape_ok": False, "explicit_param": None, "why": "not evaluable: %s" % ex, "text": ""}
            if s["emits"] and s["problems"] and s["vis"] != "pub":
                # a private helper that cannot be summarised on its own (e.g. the opcode is a parameter) is covered through the
                # methods that call it, which are evaluated with it inlined
                callers = [g["name"] for g in ctx.rspirv.fns(BLD, "Builder") if g["name"] != f["name"] and
                           any(x[0] == "mcall" and x[2] == f["name"] and path_of(x[1]) == "self" for x in walk(g["body"]))]
                if callers:
                    s["emits"] = False
                    s["helper_of"] = callers
            s["where"] = "%s:%s Builder::%s" % (file, cand[0]["line"], f["name"]) if file else "Builder::%s" % f["name"]
            out.append(s)
        return out
    return ctx.memo("builder_methods", build)
