"""C17 Operand reflection agrees with the parser and the grammar."""
import re

from ..core import Anchor
from ..model import spirv_enums, spirv_masks
from ..tree import is_node, lastseg, path_of, show, show_stmt, strip_refs, unblock, walk
from .. import snapshot
from . import codec

EXPLANATION = (
    "additional_operands / required_capabilities / required_extensions are read as tables (per enumerant for value enums, per "
    "flag group for masks) from the match arms of the current source; additional_operands is compared, enumerant by enumerant "
    "and bit by bit, with what the parser's parse_*_arguments functions consume (kinds mapped through the parser's own "
    "kind->variant table) and with the pinned grammar snapshot; capabilities/extensions with the snapshot; id_ref_any[_mut], "
    "From<T> and unwrap_* by shape for all 64 variants.")
EXHAUSTIVE = True

CON = "rspirv::dr::constructs"


def _logical_ops(n):
    """[LogicalOperand {kind: K, quantifier: Q}, ...] inside n -> [(K, Q)]"""
    out = []
    for x in walk(n):
        if x[0] == "struct" and x[1].split("::")[-1] == "LogicalOperand":
            f = dict((a, b) for a, b in x[2])
            out.append((lastseg(path_of(f.get("kind")) or "?"), lastseg(path_of(f.get("quantifier")) or "?")))
    return out


def _flag_names(n, ty):
    out = []
    for x in walk(n):
        if x[0] == "path":
            segs = x[1].split("::")
            if len(segs) >= 2 and segs[-2] == ty:
                out.append(segs[-1])
    return out


def _vec_values(n, what):
    n = unblock(n)
    if n[0] == "vec":
        if what == "ops":
            return _logical_ops(n)
        out = []
        for e in n[1]:
            if what == "caps":
                out.append(lastseg(path_of(e) or "?"))
            else:
                out.append(e[2] if is_node(e) and e[0] == "lit" else "?")
        return out
    raise Anchor("value is not a vec!: %s" % show(n)[:80])


def reflect_table(ctx, fname, what):
    """variant -> {"style": "enum", "map": {enumerant: [..]}, "default": [..]} | {"style": "mask", "entries": [([flags], [..])]}"""
    f = ctx.rspirv.fn(CON, fname, "Operand", False)
    m = None
    for s in f["body"][1]:
        if s[0] == "expr" and s[1][0] == "match":
            m = s[1]
    if m is None:
        raise Anchor("%s is not a match on self" % fname)
    out = {}
    for pat, guard, body in m[2]:
        if guard is not None:
            raise Anchor("%s: guarded arm" % fname)
        pats = pat[1] if pat[0] == "p_or" else [pat]
        if len(pats) == 1 and pats[0][0] == "p_wild":
            b = unblock(body)
            if not (b[0] == "vec" and not b[1]):
                raise Anchor("%s: fall-through arm is not an empty vec" % fname)
            continue
        for p in pats:
            if p[0] != "p_ts":
                raise Anchor("%s: arm pattern %s" % (fname, show(p)))
            variant = p[1].split("::")[-1]
            v = p[2][0][1] if p[2] and p[2][0][0] == "p_ident" else None
            b = unblock(body)
            if b[0] == "match" and path_of(strip_refs(b[1])) == v:
                mp = {}
                default = None
                for pp, g2, bb in b[2]:
                    pps = pp[1] if pp[0] == "p_or" else [pp]
                    vals = _vec_values(bb, what)
                    for q in pps:
                        if q[0] == "p_wild":
                            default = vals
                        else:
                            mp[(path_of(q) or "?").split("::")[-1]] = vals
                out[variant] = {"style": "enum", "map": mp, "default": default}
            elif b[0] == "block":
                ent = []
                st = b[1]
                for s in st[1:-1]:
                    e = s[1]
                    if what == "ops":
                        # result.extend([FLAGS].iter().filter(|arg| v.contains(**arg)).flat_map(|_| [OPS].iter().cloned()))
                        if not (e[0] == "mcall" and e[2] == "extend" and len(e[3]) == 1):
                            raise Anchor("%s/%s: statement %s" % (fname, variant, show_stmt(s)[:80]))
                        ch = e[3][0]
                        if not (ch[0] == "mcall" and ch[2] == "flat_map" and ch[1][0] == "mcall" and ch[1][2] == "filter"):
                            raise Anchor("%s/%s: extend argument shape" % (fname, variant))
                        filt = ch[1]
                        if ".contains(" not in show(filt[3][0]):
                            raise Anchor("%s/%s: filter is not contains()" % (fname, variant))
                        flags = _flag_names(filt[1], variant)
                        ent.append((flags, _logical_ops(ch[3][0])))
                    else:
                        # if v.intersects(F1 | F2) { result.extend_from_slice(&[..]) }
                        if not (e[0] == "if" and e[1][0] == "mcall" and e[1][2] in ("intersects", "contains") and e[3] is None):
                            raise Anchor("%s/%s: statement %s" % (fname, variant, show_stmt(s)[:80]))
                        flags = _flag_names(e[1][3][0], variant)
                        vals = []
                        for x in walk(e[2]):
                            if x[0] == "array":
                                for el in x[1]:
                                    vals.append(lastseg(path_of(el) or "?") if what == "caps" else (el[2] if el[0] == "lit" else "?"))
                        ent.append((flags, vals))
                out[variant] = {"style": "mask", "entries": ent}
            else:
                raise Anchor("%s/%s: unrecognised arm body %s" % (fname, variant, show(b)[:80]))
    return out


def _ser(tab):
    out = {}
    for v, d in tab.items():
        if d["style"] == "enum":
            out[v] = {"style": "enum", "map": {k: [list(x) if isinstance(x, tuple) else x for x in vals] for k, vals in d["map"].items()},
                      "default": d["default"]}
        else:
            per = {}
            for flags, vals in d["entries"]:
                for fl in flags:
                    per.setdefault(fl, [])
                    per[fl] += [list(x) if isinstance(x, tuple) else x for x in vals]
            out[v] = {"style": "mask", "per_flag": per}
    return out


def section_params(ctx):
    return _ser(reflect_table(ctx, "additional_operands", "ops"))


def section_caps(ctx):
    return _ser(reflect_table(ctx, "required_capabilities", "caps"))


def section_exts(ctx):
    return _ser(reflect_table(ctx, "required_extensions", "exts"))


snapshot.register("reflect_params", section_params)
snapshot.register("reflect_caps", section_caps)
snapshot.register("reflect_exts", section_exts)


def snake(name):
    s = re.sub(r"([a-z0-9])([A-Z])", r"\1_\2", name)
    s = re.sub(r"([A-Z]+)([A-Z][a-z])", r"\1_\2", s)
    return s.lower()


def run(ctx, chk):
    raw = ctx.raw
    enums, masks = spirv_enums(ctx), spirv_masks(ctx)
    W = "rspirv/dr/autogen_operand.rs"
    pt = codec.parse_operand_table(ctx)
    pa = codec.parse_arguments(ctx)
    ov = ctx.rspirv.item(CON, "enum", "Operand")
    variants = [(v["name"], v["fields"][0][1].replace(" ", "") if len(v["fields"]) == 1 else None) for v in ov["variants"]]

    R1 = chk.rule("R-REFL-1", "for every enumerant of every parameterised value enum and every bit of every parameterised mask, "
                  "additional_operands lists exactly the operand kinds whose variants parse_<kind>_arguments consumes, in the same "
                  "order; both equal the pinned grammar snapshot")
    ao = reflect_table(ctx, "additional_operands", "ops")
    by_ty = {d["param_ty"]: d for d in pa.values()}
    chk.check(R1, set(ao) == set(by_ty), "parameterised-kinds", "additional_operands covers %s, the parser %s" % (sorted(ao), sorted(by_ty)), W)

    def variants_of(kind):
        e = pt.get(kind)
        if e is None or e.get("panic"):
            return None
        return [v for v, _ in e["ops"]]
    n_ent = 0
    for ty in sorted(set(ao) & set(by_ty)):
        refl, par = ao[ty], by_ty[ty]
        pent = {}
        for name, ops in par["entries"]:
            pent.setdefault(name, [])
            pent[name] += [v for v, _ in ops]
        rent = {}
        if refl["style"] == "enum":
            for en, ops in refl["map"].items():
                rent[en] = ops
        else:
            for flags, ops in refl["entries"]:
                for fl in flags:
                    rent.setdefault(fl, [])
                    rent[fl] += ops
        for name in sorted(set(pent) | set(rent)):
            n_ent += 1
            inst = "%s::%s" % (ty, name)
            r_ops = rent.get(name, [])
            conv = []
            okq = True
            for k, q in r_ops:
                vs = variants_of(k)
                if vs is None:
                    conv.append("?" + k)
                else:
                    conv += vs
                if q != "One":
                    okq = False
            chk.check(R1, conv == pent.get(name, []) and okq, inst,
                      "additional_operands reports %s (variants %s) but the parser consumes %s" % (r_ops, conv, pent.get(name, [])), W,
                      sample={"reported": r_ops, "parsed": pent.get(name, [])})
        if refl["style"] == "enum":
            names = {n for n, _, _ in enums[ty]["variants"]} | set(enums[ty]["aliases"])
            chk.check(R1, set(rent) <= names, ty + ":enumerants-exist", "unknown enumerants %s" % sorted(set(rent) - names), W)
        else:
            chk.check(R1, set(rent) <= set(masks[ty]["consts"]), ty + ":flags-exist", "unknown flags %s" % sorted(set(rent) - set(masks[ty]["consts"])), W)
    snap = snapshot.load()
    snapshot.compare(chk, R1, "reflect_params", snap.get("reflect_params"), section_params(ctx), W)
    chk.floor(R1, "parameterised enumerants/bits", n_ent, 38 + 73 + 11 + 15 + 5 + 2)

    R2 = chk.rule("R-REFL-2", "required_capabilities / required_extensions per enumerant and per flag equal the pinned grammar snapshot")
    snapshot.compare(chk, R2, "reflect_caps", snap.get("reflect_caps"), section_caps(ctx), W)
    snapshot.compare(chk, R2, "reflect_exts", snap.get("reflect_exts"), section_exts(ctx), W)
    capnames = {n for n, _, _ in enums["Capability"]["variants"]} | set(enums["Capability"]["aliases"])
    for v, d in section_caps(ctx).items():
        vals = set()
        for lst in (d.get("map") or d.get("per_flag")).values():
            vals |= set(lst)
        chk.check(R2, vals <= capnames, v + ":capabilities-exist", "unknown capabilities %s" % sorted(vals - capnames), W)

    R3 = chk.rule("R-REFL-3", "id_ref_any and id_ref_any_mut return the payload of exactly the three id variants (the variants named "
                  "Id*), None otherwise; the assembler encodes each of them as exactly one pushed word")
    idv = {n for n, _ in variants if n.startswith("Id")}
    at = codec.assemble_table(ctx)
    for fn in ("id_ref_any", "id_ref_any_mut"):
        f = ctx.rspirv.fn(CON, fn, "Operand", False)
        w = raw.where(fn, "Operand")
        st = f["body"][1]
        m = st[0][1] if len(st) == 1 and st[0][0] == "expr" and st[0][1][0] == "match" else None
        if m is None:
            chk.bad(R3, fn, "not a single match", w)
            continue
        got = set()
        ok = True
        none_ok = False
        for pat, guard, body in m[2]:
            pats = pat[1] if pat[0] == "p_or" else [pat]
            b = unblock(body)
            for p in pats:
                if p[0] == "p_wild":
                    none_ok = path_of(b) == "None"
                elif p[0] == "p_ts" and len(p[2]) == 1 and p[2][0][0] == "p_ident":
                    got.add(p[1].split("::")[-1])
                    if not (b[0] == "call" and path_of(b[1]) == "Some" and path_of(b[2][0]) == p[2][0][1]):
                        ok = False
                else:
                    ok = False
        chk.check(R3, ok and none_ok and got == idv and idv == {"IdRef", "IdScope", "IdMemorySemantics"}, fn,
                  "reports an id for %s; id variants are %s" % (sorted(got), sorted(idv)), w, sample=sorted(got))
    for v in sorted(idv):
        chk.check(R3, at.get(v, ("?",))[0] == "word", "assemble:" + v, "Operand::%s is not encoded as one pushed word" % v,
                  raw.where("assemble_into", "Operand", "assemble.rs"))

    R4 = chk.rule("R-REFL-4", "From<T> for Operand builds the first variant whose payload type is T; unwrap_<x> returns the payload of "
                  "variant X (snake(X) = x) and panics otherwise")
    first_of = {}
    for n, t in variants:
        first_of.setdefault(t, n)
    nfrom = 0
    for im in ctx.rspirv.impls(CON, "Operand"):
        tr = im.get("trait") or ""
        if not tr.replace(" ", "").startswith("From<") and "From<" not in tr:
            continue
        t = tr[tr.index("<") + 1:tr.rindex(">")].replace(" ", "")
        fns = [x for x in im["items"] if x["kind"] == "fn" and x["name"] == "from"]
        if not fns:
            continue
        nfrom += 1
        arg = fns[0]["sig"]["params"][0][0]
        from ..symeval import SymEval, Hooks, Panic as SPanic
        import re as _re
        t = _re.sub(r"'\w+\s*", "", tr[tr.index("<") + 1:tr.rindex(">")]).replace(" ", "")
        # the payload handed in: an unknown value; for strings also concrete ones (empty, with a NUL inside, non-ASCII), which must arrive unchanged
        payloads = [("param", arg)] + ([("str", ""), ("str", "a\0b"), ("str", "h\u00e9llo\0")] if t in ("&str", "String") else [])
        v, payload_ok, why_ = None, True, ""
        for pl in payloads:
            try:
                r_ = SymEval(Hooks(), "From<%s>::from" % t).run(fns[0], {arg: pl})
            except (Anchor, SPanic) as ex:
                if pl == ("param", arg) and len(payloads) > 1:
                    continue        # written with string operations the unknown payload cannot go through: the concrete strings decide
                r_ = ("not analysable", str(ex))
            v = r_[1].split("::")[-1] if isinstance(r_, tuple) and r_ and r_[0] == "enum" else None
            if v is None or r_[2] != [pl]:
                payload_ok = False
                why_ = " (on the payload %r it yields %s)" % (pl[1] if pl[0] == "str" else "<unknown>", str(r_)[:160])
                break
        tt = {"&str": "String", "String": "String", "u32": "u32", "u64": "u64"}.get(t, t)
        want = first_of.get(tt) or first_of.get("spirv::" + tt.split("::")[-1])
        chk.check(R4, payload_ok and v is not None and v == want, "From<%s>" % t, "builds Operand::%s, expected Operand::%s with the payload unchanged%s" % (v, want, why_), W,
                  sample={"T": t, "variant": v})
    chk.floor(R4, "From impls", nfrom, 60)
    nun = 0
    for f in ctx.rspirv.fns(CON, "Operand", False):
        if not f["name"].startswith("unwrap_"):
            continue
        nun += 1
        st = f["body"][1]
        m = st[0][1] if len(st) == 1 and st[0][0] == "expr" and st[0][1][0] == "match" else None
        good = False
        var = None
        if m is not None and len(m[2]) == 2:
            p0, _, b0 = m[2][0]
            if p0[0] == "p_ts" and len(p0[2]) == 1 and p0[2][0][0] == "p_ident":
                var = p0[1].split("::")[-1]
                good = path_of(unblock(b0)) == p0[2][0][1] and snake(var) == f["name"][len("unwrap_"):]
        chk.check(R4, good, f["name"], "does not return the payload of the variant it is named after (matches %s)" % var, W)
    chk.floor(R4, "unwrap methods", nun, 64)
    chk.analysed.update({"variants": len(variants), "from_impls": nfrom, "unwrap_methods": nun, "parameter_entries": n_ent})
