"""C14 Parser drives the consumer in protocol order and obeys its actions."""
from ..core import Anchor
from ..tree import Cfg, mir_name, path_of, show, show_stmt, sites, unblock, walk, where

EXPLANATION = (
    "Who-may-call census of the four Consumer callbacks over the whole crate (resolved MIR callees: one call site each, in "
    "Parser::parse); Parser::parse evaluated (rule engine's evaluator of the expanded syntax tree) against scripted consumers - every "
    "callback position answering continue / stop / error - header results and instruction streams (none, two instructions, a parse "
    "error at the first or second instruction): callbacks made and result must be exactly the protocol's; dominator rules on the MIR "
    "control-flow graph give the order for streams of any length; the Action::consume table, the single construction site of "
    "State::Complete and its path condition; load_bytes/load_words and parse_bytes/parse_words evaluated with the parse failing and "
    "succeeding.")
EXHAUSTIVE = False     # the abstract inputs are a stated finite scope, not the whole input space

PAR = "rspirv::binary::parser"
CB = ("initialize", "consume_header", "consume_instruction", "finalize")


def run(ctx, chk):
    raw = ctx.raw
    mir = ctx.mir("rspirv")
    W = raw.where("parse", "Parser", "parser.rs")

    R1 = chk.rule("R-PROTO-1", "each Consumer callback has exactly one call site in the crate and it is in Parser::parse")
    sites_by = {c: [] for c in CB}
    for p, fn in mir.fns.items():
        for b in fn["blocks"]:
            t = b["t"]
            if t["t"] == "call" and (t.get("rt") or "").endswith("parser::Consumer") and t.get("rn") in sites_by:
                sites_by[t["rn"]].append((mir_name(p), where(t["span"])))
    for c in CB:
        ss = sites_by[c]
        chk.check(R1, len(ss) == 1 and ss[0][0].endswith("Parser::parse"), "Consumer::" + c,
                  "call sites of Consumer::%s: %s" % (c, ss), ss[0][1] if ss else W, sample=ss)

    fn = mir.one("binary::parser::Parser::parse")
    g = Cfg(fn)

    def one_call(name, trait=None, self_=None):
        cs = [i for i in g.calls(name, trait) if self_ is None or (g.blocks[i]["t"].get("rs") or "").endswith(self_)]
        if len(cs) != 1:
            raise Anchor("Parser::parse: expected exactly one call of %s, found %d" % (name, len(cs)))
        return cs[0]
    direct = all(len([i for i in g.calls(n_, t_)]) == 1 for n_, t_ in (("initialize", "parser::Consumer"), ("consume_header", "parser::Consumer"),
                                                                       ("consume_instruction", "parser::Consumer"), ("finalize", "parser::Consumer"),
                                                                       ("parse_header", None), ("parse_inst", None)))
    if not direct:
        # parse() reaches some of these through a helper: the dominator rules below need them in one control-flow graph; the
        # scripted evaluation (R-PROTO-2) decides the protocol in that case
        R2 = chk.rule("R-PROTO-2", "Parser::parse evaluated against scripted consumers, header results and instruction streams: the callbacks made and "
                      "the result are exactly the protocol's")
        from . import headerx
        np_ = 0
        for inst, pb, sample in headerx.parse_problems(ctx):
            np_ += 1
            chk.check(R2, pb is None, inst, "%s: %s" % (inst, pb), W, key="C14:script:" + inst)
        chk.floor(R2, "scripts", np_, 15)
        _rest(ctx, chk, raw, mir, W, g, sites_by)
        return
    I = one_call("initialize", "parser::Consumer")
    H = one_call("consume_header", "parser::Consumer")
    CI = one_call("consume_instruction", "parser::Consumer")
    FZ = one_call("finalize", "parser::Consumer")
    PH = one_call("parse_header")
    PI = one_call("parse_inst")
    T = one_call("track", None, "TypeTracker")
    cb_blocks = {I, H, CI, FZ}
    returns = [i for i, b in enumerate(g.blocks) if b["t"]["t"] == "return"]

    R2 = chk.rule("R-PROTO-2", "Parser::parse evaluated against scripted consumers (every callback position answering continue / stop / "
                  "error), header results and instruction streams (none, two instructions, a parse error at the first or second): the "
                  "callbacks made and the result are exactly the protocol's - initialize, header, one call per instruction in order, "
                  "finalize only after the stream completed; stop -> ConsumerStopRequested, error -> ConsumerError(the consumer's value), "
                  "a parse error is returned as is; nothing is called after the parse ended; each instruction reaches the type tracker "
                  "before the next one is parsed")
    from . import headerx
    np_ = 0
    for inst, pb, sample in headerx.parse_problems(ctx):
        np_ += 1
        chk.check(R2, pb is None, inst, "%s: %s" % (inst, pb), W, key="C14:script:" + inst, sample=sample if "all callbacks continue" in inst else None)
    chk.floor(R2, "scripts", np_, 15)

    R3 = chk.rule("R-PROTO-3", "order on every path of the control-flow graph (MIR dominators), for streams of any length: initialize dominates "
                  "parse_header dominates consume_header dominates the instruction loop; in the loop parse_inst dominates track dominates "
                  "consume_instruction, which leads back to parse_inst; parse_inst dominates finalize")
    chain = [("initialize", I), ("parse_header", PH), ("consume_header", H), ("parse_inst", PI), ("track", T), ("consume_instruction", CI)]
    for (an, a), (bn, b) in zip(chain, chain[1:]):
        chk.check(R3, g.dominates(a, b), "%s dominates %s" % (an, bn), "%s can be reached without passing %s" % (bn, an), W)
    chk.check(R3, g.dominates(PI, FZ), "parse_inst dominates finalize", "finalize reachable without parse_inst", W)
    chk.check(R3, PI in g.reachable(g.blocks[CI]["t"]["to"][0]), "loop", "consume_instruction is not followed by the next parse_inst", W)

    _rest(ctx, chk, raw, mir, W, g, sites_by)


def _rest(ctx, chk, raw, mir, W, g, sites_by):
    R4 = chk.rule("R-PROTO-4", "Action::consume maps Continue->Ok(()), Stop->Err(ConsumerStopRequested), Error(e)->Err(ConsumerError(e)); "
                  "State::Complete is constructed at exactly one site, in parse_inst, on the path where the first word of an instruction "
                  "could not be read")
    # Action's conversion into the parse result: named `consume` today; otherwise the one method of Action that takes the action by value
    cands = [x for x in ctx.rspirv.fns(PAR, "Action", False) if any(q[0] == "self" for q in x["sig"]["params"])]
    named = [x for x in cands if x["name"] == "consume"]
    if len(named) == 1:
        f = named[0]
    elif len(cands) == 1:
        f = cands[0]
    else:
        raise Anchor("Action: expected one method turning an action into the parse result, found %s" % [x["name"] for x in cands])
    from ..symeval import SymEval, Hooks

    class AH(Hooks):
        def __init__(self, v):
            self.v = v

        def path(self, p):
            return self.v if p == "self" else NotImplemented
    table = {}
    try:
        for name, v in (("Continue", ("enum", "Action::Continue", [])), ("Stop", ("enum", "Action::Stop", [])),
                        ("Error", ("enum", "Action::Error", [("sym", "CONSUMER_ERROR")]))):
            table[name] = SymEval(AH(v), "Action::consume").run(f, {})
        want = {"Continue": ("ok", ("unit",)), "Stop": ("err", ("enum", "State::ConsumerStopRequested", [])),
                "Error": ("err", ("enum", "State::ConsumerError", [("sym", "CONSUMER_ERROR")]))}
        chk.check(R4, table == want, "Action::consume", "mapping is %s" % table, raw.where(f["name"], "Action"), sample=str(table))
    except Anchor as ex:
        chk.bad(R4, "Action::consume", "not analysable: %s" % ex, raw.where(f["name"], "Action"))
    csites = []
    for p, fn_ in mir.fns.items():
        for b in fn_["blocks"]:
            for s in b["s"]:
                if s["f"] == "agg" and s["adt"].endswith("parser::State") and s["variant"] == "Complete":
                    csites.append(mir_name(p))
    chk.check(R4, len(csites) == 1 and csites[0].endswith("Parser::parse_inst"), "State::Complete:single-site",
              "State::Complete is constructed in %s" % csites, raw.where("parse_inst", "Parser"), sample=csites)
    # Complete is produced only when the first word of an instruction could not be read: parse_inst evaluated on scripted decoders
    from . import headerx as _hx2
    cp = [(i_, pb_) for i_, pb_, _s in _hx2.parse_inst_problems(ctx) if pb_]
    chk.check(R4, not cp, "State::Complete:only-at-end-of-stream", "parse_inst: %s" % cp[:2], raw.where("parse_inst", "Parser"), key="C14:complete-condition")

    R5 = chk.rule("R-PROTO-5", "load_bytes/load_words, evaluated with parse_* failing and succeeding: the parse error is returned unchanged and "
                  "loader.module() is handed out only after parse_* returned Ok; parse_bytes/parse_words build one Parser on the caller's "
                  "bytes and consumer and return its parse() result unchanged")
    from . import headerx
    for name in ("load_bytes", "load_words"):
        try:
            pb = headerx.load_problem(ctx, name)
        except Anchor as ex:
            pb = "not analysable: %s" % ex
        chk.check(R5, pb is None, name, "%s %s" % (name, pb), raw.where(name, None, "loader.rs"), key="C14:load:" + name)
    for name in ("parse_bytes", "parse_words"):
        try:
            pb = headerx.parse_entry_problem(ctx, name)
        except Anchor as ex:
            pb = "not analysable: %s" % ex
        chk.check(R5, pb is None, name, "%s %s" % (name, pb), raw.where(name, None, "parser.rs"), key="C14:entry:" + name)
    chk.analysed.update({"cfg_blocks": g.n, "callback_sites": {k: len(v) for k, v in sites_by.items()}})


def first_decoder_call(pf):
    """the first decoder read in parse_inst is the `word()` whose failure means Complete"""
    for n in walk(pf["body"]):
        if n[0] == "mcall" and show(n[1]) == "self.decoder" and n[2] not in ("offset", "limit_reached", "has_limit"):
            return n[2] == "word"
    return False
