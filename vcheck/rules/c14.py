"""C14 Parser drives the consumer in protocol order and obeys its actions."""
from ..core import Anchor
from ..tree import Cfg, mir_name, path_of, show, show_stmt, sites, unblock, walk, where

EXPLANATION = (
    "Control-flow rules on the type-checked MIR of Parser::parse (dominators, reachability, value flow of each callback's "
    "result): who-may-call census of the four Consumer callbacks over the whole crate (resolved callees), every callback result "
    "flows through Action::consume and `?` with no callback reachable from the error edge, protocol order by dominance, finalize "
    "reachable only through the edge taken when parse_inst's error is State::Complete; plus the Action::consume table, the single "
    "construction site of State::Complete and its path condition, and the shape of load_bytes/load_words, from the syntax tree.")
EXHAUSTIVE = True

PAR = "rspirv::binary::parser"
CB = ("initialize", "consume_header", "consume_instruction", "finalize")


def run(ctx, chk):
    raw = ctx.raw
    mir = ctx.mir("rspirv")
    W = raw.where("parse", "Parser", "parser.rs")

    R1 = chk.rule("R-PROTO-1", "each Consumer callback has exactly one call site in the crate and it is in Parser::parse")
    sites_by = {c: [] for c in CB}
    for p, fn in mir.fns.items():
        for b in fn["blocks"]:
            t = b["t"]
            if t["t"] == "call" and (t.get("rt") or "").endswith("parser::Consumer") and t.get("rn") in sites_by:
                sites_by[t["rn"]].append((mir_name(p), where(t["span"])))
    for c in CB:
        ss = sites_by[c]
        chk.check(R1, len(ss) == 1 and ss[0][0].endswith("Parser::parse"), "Consumer::" + c,
                  "call sites of Consumer::%s: %s" % (c, ss), ss[0][1] if ss else W, sample=ss)

    fn = mir.one("binary::parser::Parser::parse")
    g = Cfg(fn)

    def one_call(name, trait=None, self_=None):
        cs = [i for i in g.calls(name, trait) if self_ is None or (g.blocks[i]["t"].get("rs") or "").endswith(self_)]
        if len(cs) != 1:
            raise Anchor("Parser::parse: expected exactly one call of %s, found %d" % (name, len(cs)))
        return cs[0]
    I = one_call("initialize", "parser::Consumer")
    H = one_call("consume_header", "parser::Consumer")
    CI = one_call("consume_instruction", "parser::Consumer")
    FZ = one_call("finalize", "parser::Consumer")
    PH = one_call("parse_header")
    PI = one_call("parse_inst")
    T = one_call("track", None, "TypeTracker")
    cb_blocks = {I, H, CI, FZ}
    returns = [i for i, b in enumerate(g.blocks) if b["t"]["t"] == "return"]

    R2 = chk.rule("R-PROTO-2", "the value each callback returns is moved into Action::consume; for initialize/header/instruction the "
                  "result goes through `?` (Try::branch) and from its Break edge no callback is reachable before return; "
                  "finalize's consume result is the function's return value")

    def flows(src, dst_arg):
        """local src is (transitively moved into) the local used as argument dst_arg"""
        if src == dst_arg:
            return True
        mv = {}
        for b in g.blocks:
            for s in b["s"]:
                if s["f"] == "mv":
                    mv.setdefault(s["src"], set()).add(s["d"])
        seen, st = set(), [src]
        while st:
            x = st.pop()
            if x == dst_arg:
                return True
            if x in seen:
                continue
            seen.add(x)
            st += list(mv.get(x, ()))
        return False
    for name, blk in (("initialize", I), ("consume_header", H), ("consume_instruction", CI), ("finalize", FZ)):
        t = g.blocks[blk]["t"]
        nxt = t["to"][0] if t["to"] else None
        inst = "Consumer::%s->Action::consume" % name
        ok = False
        why = "the callback's result is not passed to Action::consume"
        if nxt is not None:
            # skip pure goto blocks
            hops = 0
            while g.blocks[nxt]["t"]["t"] in ("goto", "drop") and hops < 4:
                nxt = g.blocks[nxt]["t"]["to"][0]
                hops += 1
            t2 = g.blocks[nxt]["t"]
            if t2["t"] == "call" and t2.get("rn") == "consume" and (t2.get("rs") or "").endswith("parser::Action") \
                    and t2["args"] and isinstance(t2["args"][0], int) and isinstance(t["dest"], int) and flows(t["dest"], t2["args"][0]):
                if name == "finalize":
                    ok = t2["dest"] == 0
                    why = "finalize's result is not returned as the result of parse"
                    # and from there straight to return without callbacks
                    after = g.reachable(t2["to"][0]) if t2["to"] else set()
                    ok = ok and not (after & cb_blocks)
                else:
                    n3 = t2["to"][0]
                    t3 = g.blocks[n3]["t"]
                    if t3["t"] == "call" and t3.get("rn") == "branch" and isinstance(t3["args"][0], int) and flows(t2["dest"], t3["args"][0]):
                        sw = g.blocks[t3["to"][0]]["t"]
                        if sw["t"] == "switch":
                            targets = [x[1] for x in sw["vals"]]
                            brk = [x for x in targets if g.blocks[x]["t"]["t"] == "call" and g.blocks[x]["t"].get("rn") == "from_residual"]
                            if len(brk) == 1:
                                after = g.reachable(brk[0])
                                ok = not (after & cb_blocks) and any(r in after for r in returns) and PI not in after
                                why = "a callback or the parse loop is reachable after the consumer answered stop/error"
                            else:
                                why = "no unique Break edge after `?`"
                    else:
                        why = "Action::consume's result does not go through `?`"
        chk.check(R2, ok, inst, why, where(t["span"]), key="C14:flow:" + name)

    R3 = chk.rule("R-PROTO-3", "order: initialize dominates parse_header dominates consume_header dominates the instruction loop; in "
                  "the loop parse_inst dominates track dominates consume_instruction; finalize is reachable only through the edge taken "
                  "when parse_inst's Err is State::Complete; every other Err of parse_inst/parse_header returns without a callback")
    chain = [("initialize", I), ("parse_header", PH), ("consume_header", H), ("parse_inst", PI), ("track", T), ("consume_instruction", CI)]
    for (an, a), (bn, b) in zip(chain, chain[1:]):
        chk.check(R3, g.dominates(a, b), "%s dominates %s" % (an, bn), "%s can be reached without passing %s" % (bn, an), W)
    chk.check(R3, g.dominates(PI, FZ), "parse_inst dominates finalize", "finalize reachable without parse_inst", W)
    chk.check(R3, PI in g.reachable(g.blocks[CI]["t"]["to"][0]), "loop", "consume_instruction is not followed by the next parse_inst", W)
    # the Complete edge
    state_adt = [a for p, a in mir.adts.items() if p.endswith("parser::State")]
    complete = None
    if state_adt:
        for v in state_adt[0]["variants"]:
            if v["name"] == "Complete":
                complete = int(v["discr"])
    edge_ok = False
    why = "no switch on the discriminant of parser::State selects finalize"
    discr_of = {}
    for i, b in enumerate(g.blocks):
        for s in b["s"]:
            if s["f"] == "discr":
                discr_of[(i, s["d"])] = s["ty"]
    for i, b in enumerate(g.blocks):
        t = b["t"]
        if t["t"] == "switch" and isinstance(t["discr"], int) and discr_of.get((i, t["discr"]), "").endswith("parser::State"):
            for val, tgt in t["vals"]:
                if val == complete and g.dominates(tgt, FZ) and g.pred[tgt] == [i]:
                    # all other targets must reach return without callbacks
                    others = [x[1] for x in t["vals"] if x[1] != tgt] + [t["otherwise"]]
                    bad = [o for o in others if g.reachable(o) & (cb_blocks | {PI})]
                    edge_ok = not bad
                    why = "another error of parse_inst also leads to a callback or continues the loop" if bad else ""
    chk.check(R3, edge_ok and complete is not None, "finalize only on State::Complete", why, W, key="C14:complete-edge")
    # Ok edge of parse_inst leads to track/consume_instruction, Err edges never do
    tpi = g.blocks[PI]["t"]
    sw = g.blocks[tpi["to"][0]]["t"]
    ok_edge = False
    if sw["t"] == "switch" and isinstance(sw["discr"], int) and discr_of.get((tpi["to"][0], sw["discr"]), "").endswith("result::Result"):
        tg = dict((v, t_) for v, t_ in sw["vals"])
        okb, errb = tg.get(0), tg.get(1, sw["otherwise"])
        ok_edge = okb is not None and g.dominates(okb, CI) and g.dominates(okb, T) and CI not in g.reachable(errb, avoid={PI}) and T not in g.reachable(errb, avoid={PI})
    chk.check(R3, ok_edge, "only Ok(inst) is delivered", "consume_instruction/track reachable from the Err edge of parse_inst", W)
    # parse_header: Err edge returns without callbacks
    tph = g.blocks[PH]["t"]
    n2 = g.blocks[tph["to"][0]]["t"]
    ph_ok = False
    if n2["t"] == "call" and n2.get("rn") == "branch":
        sw2 = g.blocks[n2["to"][0]]["t"]
        if sw2["t"] == "switch":
            brk = [x[1] for x in sw2["vals"] if g.blocks[x[1]]["t"]["t"] == "call" and g.blocks[x[1]]["t"].get("rn") == "from_residual"]
            ph_ok = len(brk) == 1 and not (g.reachable(brk[0]) & (cb_blocks | {PI}))
    chk.check(R3, ph_ok, "header error returns", "a callback is reachable after parse_header failed", W)

    R4 = chk.rule("R-PROTO-4", "Action::consume maps Continue->Ok(()), Stop->Err(ConsumerStopRequested), Error(e)->Err(ConsumerError(e)); "
                  "State::Complete is constructed at exactly one site, in parse_inst, on the path where the first word of an instruction "
                  "could not be read")
    f = ctx.rspirv.fn(PAR, "consume", "Action")
    from ..symeval import SymEval, Hooks

    class AH(Hooks):
        def __init__(self, v):
            self.v = v

        def path(self, p):
            return self.v if p == "self" else NotImplemented
    table = {}
    try:
        for name, v in (("Continue", ("enum", "Action::Continue", [])), ("Stop", ("enum", "Action::Stop", [])),
                        ("Error", ("enum", "Action::Error", [("sym", "CONSUMER_ERROR")]))):
            table[name] = SymEval(AH(v), "Action::consume").run(f, {})
        want = {"Continue": ("ok", ("unit",)), "Stop": ("err", ("enum", "State::ConsumerStopRequested", [])),
                "Error": ("err", ("enum", "State::ConsumerError", [("sym", "CONSUMER_ERROR")]))}
        chk.check(R4, table == want, "Action::consume", "mapping is %s" % table, raw.where("consume", "Action"), sample=str(table))
    except Anchor as ex:
        chk.bad(R4, "Action::consume", "not analysable: %s" % ex, raw.where("consume", "Action"))
    csites = []
    for p, fn_ in mir.fns.items():
        for b in fn_["blocks"]:
            for s in b["s"]:
                if s["f"] == "agg" and s["adt"].endswith("parser::State") and s["variant"] == "Complete":
                    csites.append(mir_name(p))
    chk.check(R4, len(csites) == 1 and csites[0].endswith("Parser::parse_inst"), "State::Complete:single-site",
              "State::Complete is constructed in %s" % csites, raw.where("parse_inst", "Parser"), sample=csites)
    pf = ctx.rspirv.fn(PAR, "parse_inst", "Parser")
    cs = sites(pf["body"], lambda n: n[0] == "path" and n[1].endswith("State::Complete"))
    okc = len(cs) == 1 and len(cs[0][1]) == 1 and (
        (cs[0][1][0].startswith("!(let Ok(") and cs[0][1][0].endswith(") = self.decoder.word())"))
        or cs[0][1][0].startswith("self.decoder.word() matches Err("))
    first = first_decoder_call(pf)
    chk.check(R4, okc and first, "State::Complete:path-condition",
              "Complete is produced under %s (expected only: the first self.decoder.word() of the instruction failed)" % [c[1] for c in cs],
              raw.where("parse_inst", "Parser"), key="C14:complete-condition")

    R5 = chk.rule("R-PROTO-5", "load_bytes/load_words, evaluated with parse_* failing and succeeding: the parse error is returned unchanged and "
                  "loader.module() is handed out only after parse_* returned Ok; parse_bytes/parse_words build one Parser on the caller's "
                  "bytes and consumer and return its parse() result unchanged")
    from . import headerx
    for name in ("load_bytes", "load_words"):
        try:
            pb = headerx.load_problem(ctx, name)
        except Anchor as ex:
            pb = "not analysable: %s" % ex
        chk.check(R5, pb is None, name, "%s %s" % (name, pb), raw.where(name, None, "loader.rs"), key="C14:load:" + name)
    for name in ("parse_bytes", "parse_words"):
        try:
            pb = headerx.parse_entry_problem(ctx, name)
        except Anchor as ex:
            pb = "not analysable: %s" % ex
        chk.check(R5, pb is None, name, "%s %s" % (name, pb), raw.where(name, None, "parser.rs"), key="C14:entry:" + name)
    chk.analysed.update({"cfg_blocks": g.n, "callback_sites": {k: len(v) for k, v in sites_by.items()}})


def first_decoder_call(pf):
    """the first decoder read in parse_inst is the `word()` whose failure means Complete"""
    for n in walk(pf["body"]):
        if n[0] == "mcall" and show(n[1]) == "self.decoder" and n[2] not in ("offset", "limit_reached", "has_limit"):
            return n[2] == "word"
    return False
