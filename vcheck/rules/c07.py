"""C07 Disassembly is a complete, unambiguous rendering of the instruction stream."""
import re

from ..core import Anchor
from ..model import spirv_enums, spirv_masks
from ..tree import int_of, is_node, path_of, show, show_stmt, sites, unblock, walk
from .. import ospec, snapshot

EXPLANATION = (
    "Per-renderer rules on the current source: the line format of disas_instruction (holes in the order result id, `Op`+name, "
    "result type, operands); the module walk visits header, every global section, and per function def, parameters, blocks "
    "(label, instructions), end - the same sequence as the traversals (C15); every Operand variant's renderer (ids `%n`, all 15 "
    "mask kinds through the generated specification-name tables, strings quoted with {:?}, enums by variant name); the mask-bit "
    "name tables bit for bit against the flag declarations and the pinned snapshot; the typed literal table; extended-instruction "
    "naming; the generator-id table. Global injectivity of the text is a statement about pairs of modules and is decided only "
    "through these per-renderer necessary conditions; float formatting is std's.")
EXHAUSTIVE = False     # the abstract inputs are a stated finite scope, not the whole input space

DIS = "rspirv::binary::disassemble"
CON = "rspirv::dr::constructs"


def mask_tables(ctx):
    """mask type -> {"empty": str, "bits": [(FLAG, name)], "join": str}"""
    out = {}
    for im in ctx.rspirv.items(DIS, "impl"):
        tr = im.get("trait") or ""
        st = im["self_ty"].replace(" ", "")
        if not tr.endswith("Disassemble") or not st.startswith("spirv::"):
            continue
        ty = st.split("::")[-1]
        f = [x for x in im["items"] if x["kind"] == "fn" and x["name"] == "disassemble"][0]
        body = f["body"][1]
        d = {"empty": None, "bits": [], "join": None, "problems": []}
        for s in body:
            t = show_stmt(s)
            e = s[1] if s[0] == "expr" else None
            if e is not None and e[0] == "if" and show(e[1]) == "self.is_empty()":
                m = re.search(r'return "([^"]*)"\.to_string\(\)', show(e[2]))
                d["empty"] = m.group(1) if m else None
            elif e is not None and e[0] == "if" and e[1][0] == "mcall" and e[1][2] == "contains" and path_of(e[1][1]) == "self" and e[3] is None:
                flag = (path_of(e[1][3][0]) or "?").split("::")[-1]
                inner = [show_stmt(x) for x in e[2][1]]
                m = re.match(r'^(\w+)\.push\("([^"]*)"\);?$', inner[0]) if len(inner) == 1 else None
                if m:
                    d["bits"].append((flag, m.group(2)))
                else:
                    d["problems"].append("flag %s: %s" % (flag, inner))
            elif s[0] == "local" and t.startswith("let mut ") and t.endswith("= vec![];"):
                pass
            elif e is not None and e[0] == "mcall" and e[2] == "join" and len(e[3]) == 1:
                d["join"] = e[3][0][2] if e[3][0][0] == "lit" else None
            else:
                d["problems"].append("statement: " + t[:60])
        out[ty] = d
    return out


def section_mask_names(ctx):
    return {ty: {"empty": d["empty"], "bits": [list(b) for b in d["bits"]], "join": d["join"]} for ty, d in mask_tables(ctx).items()}


snapshot.register("disas_mask_names", section_mask_names)


def fmt_args(n):
    """first format_args!(..) below n -> (format string, [arg exprs])"""
    for x in walk(n):
        if x[0] == "macro" and x[1] == "format_args" and x[3]:
            a = x[3]
            if a[0][0] == "lit" and a[0][1] == "str":
                return a[0][2], a[1:]
    return None, []


def run(ctx, chk):
    raw = ctx.raw
    enums, masks = spirv_enums(ctx), spirv_masks(ctx)

    R1 = chk.rule("S1-LINE", "disas_instruction renders `<%id = >Op<name><  %type ><operands>`: format holes in the order result id, opcode "
                  "name (class.opname), result type, space, operands; `%id = ` present iff the instruction has a result id")
    from . import disx
    W = raw.where("disas_instruction", None, "disassemble.rs")
    W = raw.where("disassemble", "Instruction", "disassemble.rs")
    for rid in (True, False):
        for rtype in (True, False):
            for n in (0, 1, 3):
                inst = "Instruction::disassemble(result id %s, result type %s, %d operands)" % ("present" if rid else "absent", "present" if rtype else "absent", n)
                try:
                    got = disx.line(ctx, rid, rtype, n)
                except Anchor as ex:
                    chk.bad(R1, inst, "not analysable: %s" % ex, W, key="C07:line-shape")
                    continue
                want = disx.expected_line(rid, rtype, disx.operand_values(n))
                chk.check(R1, got == want, inst, "line is rendered as %s, expected %s" % (got, want), W, key="C07:line:%s:%s:%d" % (rid, rtype, n),
                          sample=str(got) if rid and rtype and n == 3 else None)

    R2 = chk.rule("S2-WALK", "Module::disassemble renders the header, every instruction of global_inst_iter() (OpConstant through the typed "
                  "renderer), and per function: def, parameters, per block label then every instruction (OpExtInst through the "
                  "named renderer), end - nothing skipped; lines are joined with newlines")
    fm = ctx.rspirv.fn(DIS, "disassemble", "Module", "Disassemble")
    WM = raw.where("disassemble", "Module", "disassemble.rs")
    from . import walkx

    def names(ps):
        return [p_ if isinstance(p_, str) else ":".join(str(x) for x in p_[1:3]) for p_ in ps] if isinstance(ps, list) else ps
    for full in (True, False):
        inst = "Module::disassemble(%s)" % ("module with header, one instruction per section, a complete function, a function without definition "
                                            "but with parameters, an unlabelled and an empty block, a function with a definition only" if full
                                            else "the same module without header and memory model")
        try:
            got = walkx.module_disassemble(ctx, full)
        except Anchor as ex:
            chk.bad(R2, inst, "not analysable: %s" % ex, WM, key="C07:walk-shape")
            continue
        want = walkx.module_expected(ctx, full)
        chk.check(R2, got == want, inst, "renders %s, expected %s (OpConstant through the typed renderer after all of types_global_values was tracked, "
                  "OpExtInst through the named renderer after all imports were tracked)" % (names(got), names(want)), WM, key="C07:walk", sample=names(got) if full else None)
        for ty in (("Function", "Block") if full else ()):
            inst = "%s::disassemble(complete %s)" % (ty, ty.lower())
            try:
                got = walkx.container_disassemble(ctx, ty, full)
            except Anchor as ex:
                chk.bad(R2, inst, "not analysable: %s" % ex, raw.where("disassemble", ty, "disassemble.rs"), key="C07:walk-shape:" + ty)
                continue
            want = walkx.expected_container(ty, full)
            chk.check(R2, got == want, inst, "renders %s, expected %s" % (names(got), names(want)), raw.where("disassemble", ty, "disassemble.rs"), key="C07:walk:" + ty)

    R3 = chk.rule("S3-OPERANDS", "Disassemble for Operand: the three id variants as `%n`; every bit-mask variant through its generated "
                  "specification-name table; everything else through Display, which prints value enums by variant name (Debug; Dim "
                  "without its prefix), strings quoted/escaped with {:?} and numbers in decimal")
    fo = ctx.rspirv.fn(DIS, "disassemble", "Operand", "Disassemble")
    WO = raw.where("disassemble", "Operand", "disassemble.rs")
    op_enum = ctx.rspirv.item(CON, "enum", "Operand")
    variants = {v["name"]: v["fields"][0][1].replace(" ", "").split("::")[-1] for v in op_enum["variants"]}
    mt = mask_tables(ctx)
    for v, pty in sorted(variants.items()):
        inst = "Operand::" + v
        try:
            how = walkx.operand_disassemble(ctx, v)
        except Anchor as ex:
            chk.bad(R3, inst, "not analysable: %s" % ex, WO, key="C07:operand-shape")
            continue
        if v in ("IdRef", "IdScope", "IdMemorySemantics"):
            chk.check(R3, how == "id", inst, "id operand rendered as %s, expected `%%` followed by the id" % how, WO)
        elif pty in masks:
            chk.check(R3, how == "payload-table" and pty in mt, inst,
                      "bit-mask operand %s is not rendered through its specification-name table (rendered as %s)" % (v, how),
                      WO, key="C07:mask-dispatch:%s" % v)
        else:
            chk.check(R3, how == "display", inst, "rendered as %s, expected its Display form" % how, WO)
    # Display for Operand
    fd = ctx.rspirv.fn(CON, "fmt", "Operand", "Display")
    dm = unblock(fd["body"][1][0][1])
    WD = raw.where("fmt", "Operand", "autogen_operand.rs")
    disp = {}
    if dm[0] == "match":
        for pat, guard, body in dm[2]:
            for p in (pat[1] if pat[0] == "p_or" else [pat]):
                if p[0] == "p_ts":
                    fs_, fa = fmt_args(body)
                    disp[p[1].split("::")[-1]] = (fs_, [show(x) for x in fa], p[2][0][1] if p[2] and p[2][0][0] == "p_ident" else "?")
    for v, pty in sorted(variants.items()):
        d = disp.get(v)
        inst = "Display:Operand::" + v
        if d is None:
            chk.bad(R3, inst, "no Display arm", WD)
            continue
        fs_, fa, var = d
        if pty in enums and v != "Dim":
            chk.check(R3, fs_ == "{0:?}" and fa == [var], inst, "enum rendered with %r %s" % (fs_, fa), WD)
        elif v == "Dim":
            chk.check(R3, fs_ == "{0}" and len(fa) == 1 and "[3..]" in fa[0] and "{0:?}" in fa[0], inst, "Dim rendered with %r %s" % (fs_, fa), WD)
        elif pty == "String":
            chk.check(R3, fs_ == "{0:?}" and fa == [var], inst, "string rendered with %r (must be quoted and escaped)" % fs_, WD)
        elif pty in masks:
            chk.ok(R3, inst)
        elif v == "LiteralSpecConstantOpInteger":
            chk.check(R3, fs_ == "{0:?}" and fa == [var], inst, "rendered with %r" % fs_, WD)
        else:
            chk.check(R3, fs_ in ("{0}", "{0:?}", "%{0}") and fa == [var], inst, "number rendered with %r %s" % (fs_, fa), WD)

    R4 = chk.rule("S3-MASKNAMES", "every mask's name table lists each declared non-zero flag exactly once in ascending bit order, the name "
                  "being the flag's specification name (equal to the flag constant's name ignoring case and underscores), `None` for "
                  "the empty mask, joined by `|`; equal to the pinned snapshot")
    for ty in sorted(masks):
        d = mt.get(ty)
        WM_ = "rspirv/binary/autogen_disas_operand.rs impl Disassemble for spirv::%s" % ty
        if d is None:
            chk.bad(R4, ty, "mask type %s has no name table" % ty, WM_)
            continue
        flags = masks[ty]["consts"]
        nonzero = {k: v for k, v in flags.items() if v != 0}
        listed = [f_ for f_, _ in d["bits"]]
        vals = [flags.get(f_) for f_ in listed]
        ok = not d["problems"] and d["empty"] == "None" and d["join"] == "|" and sorted(listed) == sorted(nonzero) and len(set(listed)) == len(listed) \
            and None not in vals and vals == sorted(vals)
        chk.check(R4, ok, ty + ":complete", "flags %s vs listed %s; empty=%r join=%r problems=%s" % (sorted(nonzero), listed, d["empty"], d["join"], d["problems"][:2]), WM_)
        for f_, name in d["bits"]:
            chk.check(R4, name.replace("_", "").lower() == f_.replace("_", "").lower() and re.match(r"^[A-Za-z0-9]+$", name) is not None, "%s::%s" % (ty, f_),
                      "flag %s is printed as %r" % (f_, name), WM_, key="C07:maskname:%s::%s" % (ty, f_))
    snapshot.compare(chk, R4, "disas_mask_names", snapshot.load().get("disas_mask_names"), section_mask_names(ctx), "rspirv/binary/autogen_disas_operand.rs")
    chk.floor(R4, "mask name tables", len(mt), 15)

    R5 = chk.rule("S4-LITERALS", "OpConstant literals: 32-bit patterns as i32 (signed int), u32 (unsigned int) or f32; 64-bit patterns as "
                  "i64, u64 or f64, selected by the tracked result type; unknown type -> generic rendering")
    V = ("sym", "V0")
    WC_ = raw.where("disas_constant", None, "disassemble.rs")
    from ..tree import small_literals as _sl2, big_literals as _bl2
    _fdc = ctx.rspirv.fn("rspirv::binary::disassemble", "disas_constant")
    _wl = sorted(w_ for w_ in (_sl2(_fdc["body"]) | _bl2(_fdc["body"])) if 0 < w_ <= 128)
    cases5 = []
    for ty, signed_cast, fl, variant, widths in (("u32", "i32", "f32", "LiteralBit32", sorted({8, 16, 32} | {w_ for w_ in _wl if w_ <= 32})),
                                                 ("u64", "i64", "f64", "LiteralBit64", sorted({64} | {w_ for w_ in _wl if 32 < w_ <= 64}))):
        for W_ in widths:
            cases5.append((ty, signed_cast, fl, variant, W_))
    for ty, signed_cast, fl, variant, W_ in cases5:
        operand_ = ("enum", "Operand::" + variant, [V])
        for name, lt, lit_piece in (("signed integer", ("enum", "Type::Integer", [W_, True]), ("as", V, signed_cast)),
                                    ("unsigned integer", ("enum", "Type::Integer", [W_, False]), V),
                                    ("float", ("enum", "Type::Float", [W_]), ("from_bits", fl, V))):
            inst = "OpConstant with a %s bit pattern of a %d-bit %s type" % (ty, W_, name)
            try:
                r = disx.constant(ctx, True, lt, operand_)
                got = disx.pieces(r) if not (isinstance(r, tuple) and r and r[0] == "panic") else r
                want = disx.expected_line(True, True, [operand_], rendered=[lit_piece])
                chk.check(R5, got == want, inst, "renders %s, expected %s (the literal in decimal)" % (str(got)[:240], want), WC_, key="C07:litbit:%s:%s" % (ty, name),
                          sample=str(got))
            except Anchor as ex:
                chk.bad(R5, inst, "not analysable: %s" % ex, WC_, key="C07:litbit-shape")
    WC_ = raw.where("disas_constant", None, "disassemble.rs")
    L32 = ("enum", "Operand::LiteralBit32", [("sym", "V0")])
    L64 = ("enum", "Operand::LiteralBit64", [("sym", "V0")])
    for name, rtype, resolved, operand, typed in (("32-bit literal of a tracked type", True, True, L32, True), ("64-bit literal of a tracked type", True, True, L64, True),
                                                   ("literal of an untracked type", True, False, L32, False), ("no result type", False, False, L32, False),
                                                   ("non-literal operand", True, True, ("enum", "Operand::IdRef", [("sym", "V0")]), False)):
        try:
            r = disx.constant(ctx, rtype, resolved, operand)
        except Anchor as ex:
            chk.bad(R5, "disas_constant(%s)" % name, "not analysable: %s" % ex, WC_, key="C07:disas_constant-shape")
            continue
        got = disx.pieces(r) if not (isinstance(r, tuple) and r and r[0] == "panic") else r
        want = disx.expected_line(True, rtype, [operand], rendered=[("sym", "V0")]) if typed else [("generic",)]
        chk.check(R5, got == want, "disas_constant(%s)" % name, "renders %s, expected %s" % (str(got)[:240], want), WC_, key="C07:disas_constant:%s" % name)
    try:
        tw = [p_ for p_ in walkx.module_disassemble(ctx, True) if isinstance(p_, tuple) and p_[1] == "typed-constant"]
        chk.check(R5, tw == [("text", "typed-constant", "CONSTANT", "TypeTracker", ("TYPE", "CONSTANT", "VARIABLE"))], "type-tracker-fed-from-types_global_values",
                  "the constant is rendered as %s" % tw, WM)
    except Anchor as ex:
        chk.bad(R5, "type-tracker-fed-from-types_global_values", "not analysable: %s" % ex, WM)

    R6 = chk.rule("S5-EXTINST", "OpExtInst in a block is rendered as set id, the extended instruction's name when the set was imported as "
                  "GLSL.std.450 / OpenCL.std (looked up in that set's table), then every remaining operand")
    WE = raw.where("disas_ext_inst", None, "disassemble.rs")
    ecases = [(["IdRef", "LiteralExtInstInteger"], True, True), (["IdRef", "LiteralExtInstInteger", "IdRef"], True, True),
              (["IdRef", "LiteralExtInstInteger", "IdRef", "IdRef", "LiteralBit32", "IdRef"], True, True),
              (["IdRef", "LiteralExtInstInteger", "IdRef"], False, True), (["IdRef", "LiteralExtInstInteger", "IdRef"], True, False),
              ([], True, True), (["IdRef"], True, True), (["LiteralBit32", "LiteralExtInstInteger", "IdRef"], True, True),
              (["IdRef", "IdRef", "IdRef"], True, True)]
    for kinds, have, resolved in ecases:
        inst = "disas_ext_inst(%s, set %s, number %s)" % (kinds, "known" if have else "unknown", "known" if resolved else "unknown")
        try:
            r, ops = disx.ext_inst(ctx, kinds, have, resolved)
        except Anchor as ex:
            chk.bad(R6, inst, "not analysable: %s" % ex, WE, key="C07:extinst-shape")
            continue
        named = len(kinds) >= 2 and kinds[0] == "IdRef" and kinds[1] == "LiteralExtInstInteger" and have and resolved
        got = disx.pieces(r) if not (isinstance(r, tuple) and r and r[0] == "panic") else r
        if named:
            items = [("dis", ops[0]), ("sym", "EXTNAME")] + [("dis", o) for o in ops[2:]]
            want = disx.expected_line(False, False, ops, rendered=items)
        else:
            want = [("generic",)]
        chk.check(R6, got == want, inst, "renders %s, expected %s" % (str(got)[:260], str(want)[:200]), WE, key="C07:extinst")
    from . import extx
    WT_ = raw.where("track", "ExtInstSetTracker")
    for name, opcode, rid, ops, want in extx.track_cases():
        try:
            res = extx.track_eval(ctx, opcode, rid, ops)
        except Anchor as ex:
            chk.bad(R6, "ext-set-track(%s)" % name, "ExtInstSetTracker::track is not analysable: %s" % ex, WT_, key="C07:extset-shape")
            continue
        chk.check(R6, res == ("ok", want), "ext-set-track(%s)" % name, "records %s, expected %s" % (res, want), WT_, key="C07:extset:%s" % name)
    nh = 0
    for text, pb in extx.histories(ctx):
        nh += 1
        chk.check(R6, pb is None, "ext-set-history(%s)" % text, "after track(%s): %s" % (text, pb), WT_, key="C07:extset-history")
    chk.floor(R6, "tracker histories", nh, 200)
    for known, table in (("GlslStd450", "GlslStd450InstructionTable"), ("OpenCLStd100", "OpenCLStd100InstructionTable"), (None, None)):
        try:
            r = extx.resolve_eval(ctx, known)
            want = ("lookup", table, ("sym", "OPCODE")) if known else ("none",)
            chk.check(R6, r == want, "ext-set-resolve(%s)" % known, "resolve yields %s, expected %s" % (r, want), raw.where("resolve", "ExtInstSetTracker"))
        except Anchor as ex:
            chk.bad(R6, "ext-set-resolve(%s)" % known, "not analysable: %s" % ex, raw.where("resolve", "ExtInstSetTracker"))

    R7 = chk.rule("S6-HEADER", "header comment: `; SPIR-V`, `; Version: major.minor`, `; Generator: <tool name>`, `; Bound: n`; the tool name "
                  "table equals the registered generator ids 0-15 (spir-v.xml), `Unknown` otherwise; tool = generator >> 16")
    try:
        ht = disx.header_text(ctx)
        want = ["; SPIR-V\n; Version: ", (("sym", "MAJOR"), ""), ".", (("sym", "MINOR"), ""), "\n; Generator: ", (("sym", "VENDOR"), ""), "\n; Bound: ", (("sym", "BOUND"), "")]
        chk.check(R7, ht == want, "ModuleHeader::disassemble", "header text is %s" % ht, raw.where("disassemble", "ModuleHeader", "disassemble.rs"), sample=str(ht))
    except Anchor as ex:
        chk.bad(R7, "ModuleHeader::disassemble", "not analysable: %s" % ex, raw.where("disassemble", "ModuleHeader", "disassemble.rs"))
    WG = raw.where("generator", "ModuleHeader")
    # registered tools, the first unregistered ones, and numbers that only differ from a registered one above the low byte
    for tool in list(range(0, 18)) + [255, 256, 256 + 7, 256 + 15, 0x1000, 0x8001, 0xff00, 0xffff]:
        word = (tool << 16) | 0x1234
        try:
            r = disx.generator(ctx, word)
            want = ("tuple", [("str", ospec.GENERATORS.get(tool, "Unknown")), 0x1234])
            chk.check(R7, r == want, "generator(tool id %d)" % tool, "yields %s, expected %s" % (r, want), WG, key="C07:generator:%d" % tool,
                      sample=str(r) if tool == 15 else None)
        except Anchor as ex:
            chk.bad(R7, "generator(tool id %d)" % tool, "not analysable: %s" % ex, WG, key="C07:generator-shape")
            break
    chk.analysed.update({"operand_variants": len(variants), "mask_tables": len(mt)})


