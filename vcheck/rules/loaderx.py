"""Abstract interpretation of dr::Loader::consume_instruction / finalize: for a concrete opcode and an abstract state
(function open?, block open?) compute the outcome: error variant | (sink container, next state, structural events) | PANIC.

The interpreter understands the idioms the loader uses (and the obvious variants of them); anything else raises Anchor,
i.e. the obligation can no longer be discharged and the check fails closed."""
from ..core import Anchor
from ..model import predeval
from ..tree import is_node, path_of, show, show_stmt, strip_refs, unblock

LDR = "rspirv::dr::loader"


class Ret(Exception):
    def __init__(self, v):
        self.v = v


class Panic(Exception):
    pass


class Obj:
    def __init__(self, kind):
        self.kind = kind        # 'function' | 'block'
        self.fields = {}        # name -> 'inst' | None
        self.pushed = []        # (field, what)

    def __repr__(self):
        return "<%s %s %s>" % (self.kind, self.fields, self.pushed)


INST = ("inst",)


class Interp:
    def __init__(self, ctx, fn, opcode, fopen, bopen):
        self.pe = predeval(ctx)
        self.fn = fn
        self.opcode = opcode
        self.self = {"function": Obj("function") if fopen else None, "block": Obj("block") if bopen else None}
        self.pre = dict(self.self)
        self.locals = {}
        self.sinks = []          # container names the instruction was moved into
        self.events = []
        self.inst_moves = 0
        params = [p[0] for p in fn["sig"]["params"] if p[0] != "self"]
        self.inst_name = params[0] if params else None

    # ---------------------------------------------------------------- places
    def place(self, e):
        """-> ('self', field) | ('objfield', obj, name) | ('local', name) | ('module', section)"""
        e = strip_refs(e)
        if e[0] == "field":
            base, name = e[1], e[2]
            if path_of(base) == "self" and name in ("function", "block"):
                return ("self", name)
            if base[0] == "field" and path_of(base[1]) == "self" and base[2] == "module":
                return ("module", name)
            b = self.value(base)
            if isinstance(b, Obj):
                return ("objfield", b, name)
            raise Anchor("loader: field %s of a non-object %s" % (name, show(base)))
        p = path_of(e)
        if p is not None and p in self.locals:
            return ("local", p)
        raise Anchor("loader: unrecognised place %s" % show(e)[:80])

    def read_place(self, pl):
        if pl[0] == "self":
            return ("opt", self.self[pl[1]])
        if pl[0] == "local":
            return self.locals[pl[1]]
        if pl[0] == "objfield":
            return ("container", pl[1], pl[2])
        if pl[0] == "module":
            return ("container", "module", pl[1])
        raise Anchor("loader: read of %s" % (pl,))

    # ---------------------------------------------------------------- values
    def value(self, e):
        e = unblock(e)
        k = e[0]
        if k == "ref":
            return self.value(e[2])
        if k == "unary" and e[1] == "*":
            return self.value(e[2])
        if k == "unary" and e[1] == "!":
            v = self.value(e[2])
            if isinstance(v, bool):
                return not v
            raise Anchor("loader: negation of a non-boolean %s" % show(e))
        if k == "binary" and e[1] in ("||", "&&"):
            a = self.value(e[2])
            if e[1] == "||" and a is True:
                return True
            if e[1] == "&&" and a is False:
                return False
            b = self.value(e[3])
            if isinstance(a, bool) and isinstance(b, bool):
                return (a or b) if e[1] == "||" else (a and b)
            raise Anchor("loader: non-boolean operands in %s" % show(e))
        if k == "binary" and e[1] in ("==", "!="):
            a, b = self.value(e[2]), self.value(e[3])
            if isinstance(a, tuple) and a[0] == "op" and isinstance(b, tuple) and b[0] == "op":
                return (a[1] == b[1]) if e[1] == "==" else (a[1] != b[1])
            raise Anchor("loader: comparison %s" % show(e))
        if k == "path":
            p = e[1]
            if p == self.inst_name:
                self.inst_moves += 1
                return INST
            if p in self.locals:
                return self.locals[p]
            if p == "None":
                return ("opt", None)
            op = self.pe.resolve_op(p)
            if op is not None:
                return ("op", op)
            if p.endswith("ParseAction::Continue") or p.endswith("Action::Continue"):
                return ("action", "Continue")
            if p.endswith("ParseAction::Stop") or p.endswith("Action::Stop"):
                return ("action", "Stop")
            segs = p.split("::")
            if len(segs) >= 2 and segs[-2] == "Error":
                return ("errv", segs[-1])
            raise Anchor("loader: unknown name %s" % p)
        if k == "field":
            t = show(e)
            if t == "%s.class.opcode" % self.inst_name:
                return ("op", self.opcode)
            return self.read_place(self.place(e))
        if k == "call":
            p = path_of(e[1]) or ""
            args = e[2]
            if p == "Some" and len(args) == 1:
                return ("opt", self.value(args[0]))
            if p.endswith("Function::new") and not args:
                return Obj("function")
            if p.endswith("Block::new") and not args:
                return Obj("block")
            if p.split("::")[-1] in self.pe.fns and len(args) == 1:
                a = self.value(args[0])
                if isinstance(a, tuple) and a[0] == "op":
                    return a[1] in self.pe.predicate(p.split("::")[-1])
            if p.endswith("Box::new") and len(args) == 1:
                return self.value(args[0])
            if (p.endswith("ParseAction::Error") or p.endswith("Action::Error")) and len(args) == 1:
                v = self.value(args[0])
                if isinstance(v, tuple) and v[0] == "errv":
                    return ("action", "Error", v[1])
            segs = p.split("::")
            if len(segs) >= 2 and segs[-2] == "Error":
                for a in args:
                    self.value(a)
                return ("errv", segs[-1])
            raise Anchor("loader: unrecognised call %s" % show(e)[:80])
        if k == "mcall":
            return self.mcall(e)
        if k == "match":
            return self.match(e)
        if k == "if":
            return self.if_(e)
        if k == "block":
            return self.block(e)
        if k == "return":
            raise Ret(self.value(e[1]) if e[1] is not None else None)
        if k == "assign":
            self.assign(e[1], self.value(e[2]))
            return None
        if k == "tuple" and not e[1]:
            return None
        raise Anchor("loader: unrecognised expression %s" % show(e)[:100])

    def mcall(self, e):
        recv, m, args = e[1], e[2], e[3]
        # Option-typed places
        if m in ("is_some", "is_none", "take", "as_mut", "as_ref") and not args:
            pl = self.place(recv)
            v = self.read_place(pl)
            if not (isinstance(v, tuple) and v[0] == "opt"):
                raise Anchor("loader: %s on a non-Option %s" % (m, show(recv)))
            if m == "is_some":
                return v[1] is not None
            if m == "is_none":
                return v[1] is None
            if m == "take":
                if pl[0] == "self":
                    self.self[pl[1]] = None
                elif pl[0] == "local":
                    self.locals[pl[1]] = ("opt", None)
                else:
                    raise Anchor("loader: take() on %s" % show(recv))
                return v
            return v
        if m in ("unwrap", "expect"):
            v = self.value(recv)
            if isinstance(v, tuple) and v[0] == "opt":
                if v[1] is None:
                    raise Panic("%s on None: %s" % (m, show(e)[:80]))
                return v[1]
            raise Anchor("loader: unwrap of a non-Option %s" % show(recv))
        if m == "push" and len(args) == 1:
            c = self.value(recv)
            a = self.value(args[0])
            if isinstance(c, tuple) and c[0] == "container":
                owner, name = c[1], c[2]
                if a == INST:
                    self.sinks.append(("module." + name) if owner == "module" else ("%s.%s" % (owner.kind, name)))
                    if owner != "module":
                        owner.pushed.append((name, "inst"))
                    return None
                if isinstance(a, Obj):
                    self.events.append(("push", a.kind, ("module." + name) if owner == "module" else ("%s.%s" % (owner.kind, name)), a))
                    if owner != "module":
                        owner.pushed.append((name, a))
                    return None
                raise Anchor("loader: push of %s" % (a,))
            raise Anchor("loader: push on %s" % show(recv))
        if m in ("insert", "remove", "swap", "clear", "truncate", "pop", "sort", "retain", "drain", "extend", "append"):
            raise Anchor("loader: container mutated with %s (only push is order-preserving append): %s" % (m, show(e)[:80]))
        raise Anchor("loader: unrecognised method call %s" % show(e)[:80])

    def assign(self, lhs, v):
        pl = self.place(lhs)
        if pl[0] == "self":
            if not (isinstance(v, tuple) and v[0] == "opt"):
                raise Anchor("loader: self.%s assigned a non-Option" % pl[1])
            self.self[pl[1]] = v[1]
        elif pl[0] == "local":
            self.locals[pl[1]] = v
        elif pl[0] == "objfield":
            if isinstance(v, tuple) and v[0] == "opt" and v[1] == INST:
                pl[1].fields[pl[2]] = "inst"
                self.sinks.append("%s.%s" % (pl[1].kind, pl[2]))
            else:
                raise Anchor("loader: assignment to %s.%s of %s" % (pl[1].kind, pl[2], (v,)))
        elif pl[0] == "module":
            if isinstance(v, tuple) and v[0] == "opt" and v[1] == INST:
                self.sinks.append("module." + pl[1])
            else:
                raise Anchor("loader: assignment to module.%s" % pl[1])

    def pat_match(self, pat, v):
        """-> bindings dict or None"""
        k = pat[0]
        if k == "p_wild":
            return {}
        if k == "p_or":
            for c in pat[1]:
                b = self.pat_match(c, v)
                if b is not None:
                    return b
            return None
        if k == "p_ident" and pat[4] is None:
            # binding or unit constant
            if pat[1] == "None":
                return {} if (isinstance(v, tuple) and v[0] == "opt" and v[1] is None) else None
            return {pat[1]: v}
        if k == "p_path":
            if isinstance(v, tuple) and v[0] == "op":
                o = self.pe.resolve_op(pat[1])
                if o is None:
                    raise Anchor("loader: pattern %s is not an opcode" % pat[1])
                return {} if o == v[1] else None
            if pat[1] == "None":
                return {} if (isinstance(v, tuple) and v[0] == "opt" and v[1] is None) else None
            raise Anchor("loader: pattern %s against %s" % (show(pat), (v,)))
        if k == "p_ts" and pat[1] == "Some" and len(pat[2]) == 1:
            if isinstance(v, tuple) and v[0] == "opt":
                if v[1] is None:
                    return None
                return self.pat_match(pat[2][0], v[1])
        if k == "p_tuple" and isinstance(v, tuple) and v and v[0] == "tuple":
            out = {}
            for p, x in zip(pat[1], v[1]):
                b = self.pat_match(p, x)
                if b is None:
                    return None
                out.update(b)
            return out
        if k == "p_ref":
            return self.pat_match(pat[2], v)
        raise Anchor("loader: unrecognised pattern %s" % show(pat))

    def match(self, e):
        scr = self.value(e[1])
        for pat, guard, body in e[2]:
            b = self.pat_match(pat, scr)
            if b is None:
                continue
            saved = dict(self.locals)
            self.locals.update(b)
            if guard is not None:
                g = self.value(guard)
                if not isinstance(g, bool):
                    raise Anchor("loader: guard is not boolean: %s" % show(guard))
                if not g:
                    self.locals = saved
                    continue
            r = self.value(body)
            return r
        raise Anchor("loader: no arm matched in %s" % show(e)[:60])

    def if_(self, e):
        c = e[1]
        if c[0] == "let":
            v = self.value(c[2])
            b = self.pat_match(c[1], v)
            if b is not None:
                self.locals.update(b)
                return self.value(e[2])
            return self.value(e[3]) if e[3] is not None else None
        v = self.value(c)
        if not isinstance(v, bool):
            raise Anchor("loader: condition is not boolean: %s" % show(c))
        if v:
            return self.value(e[2])
        return self.value(e[3]) if e[3] is not None else None

    def block(self, e):
        r = None
        for s in e[1]:
            if s[0] == "local":
                if s[3] is None:
                    raise Anchor("loader: uninitialised local")
                v = self.value(s[3])
                b = self.pat_match(s[1], v)
                if b is None:
                    raise Anchor("loader: refutable let")
                self.locals.update(b)
                r = None
            elif s[0] == "expr":
                r = self.value(s[1])
                if s[2]:
                    r = None
            else:
                raise Anchor("loader: statement %s" % show_stmt(s)[:60])
        return r

    def run(self):
        try:
            r = self.block(self.fn["body"])
        except Ret as x:
            r = x.v
        except Panic as x:
            return ("panic", str(x))
        if not (isinstance(r, tuple) and r[0] == "action"):
            raise Anchor("loader: function result is not a ParseAction: %s" % (r,))
        if r[1] == "Error":
            return ("error", r[2], list(self.sinks))
        if r[1] != "Continue":
            return ("stop",)
        st = (self.self["function"] is not None, self.self["block"] is not None)
        return ("ok", list(self.sinks), st, self.summary())

    def summary(self):
        """structural events: which object got its def/end/label, what was pushed where"""
        ev = []
        for e in self.events:
            ev.append("%s->%s" % (e[1], e[2]))
        for name in ("function", "block"):
            o = self.self[name]
            if o is not None and o is not self.pre[name]:
                ev.append("new %s %s" % (name, sorted(o.fields)))
        return ev


def consume(ctx, opcode, fopen, bopen):
    f = ctx.rspirv.fn(LDR, "consume_instruction", "Loader", "Consumer")
    it = Interp(ctx, f, opcode, fopen, bopen)
    res = it.run()
    return res, it.inst_moves


def finalize(ctx, fopen, bopen):
    f = ctx.rspirv.fn(LDR, "finalize", "Loader", "Consumer")
    it = Interp(ctx, f, None, fopen, bopen)
    it.inst_name = None
    return it.run()
