"""Rule modules, one per property.  Importing this registers the snapshot sections they own."""
ALL_SECTIONS = True
import importlib as _il
for _m in ("c02", "c07", "c17"):
    try:
        _il.import_module("vcheck.rules." + _m)
    except ImportError:
        pass
