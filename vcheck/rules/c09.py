"""C09 Grammar tables are total, unique and match the Khronos grammar."""
from ..core import Anchor
from ..model import grammar_tables, spirv_enums
from ..tree import is_node, path_of, show, strip_refs, unblock
from .. import snapshot

EXPLANATION = (
    "Table rules over every row of the three instruction tables as expanded by rustc: bijection with the opcode enumerations "
    "(R-TAB-1), normalised shape of the six lookup functions (R-TAB-2), well-formedness of every row (R-TAB-3), equality with the "
    "pinned grammar snapshot and agreement with the other in-repo projections of the grammar (R-TAB-4), and the table facts other "
    "properties' panic discharges lean on (R-TAB-5). Exhaustive over all rows; lookups over all 65536 numbers follow from the "
    "bijection plus the equality shape of the lookup closure.")
EXHAUSTIVE = True

SYN = "rspirv::grammar::syntax"
TABLE_OF = {"CoreInstructionTable": ("INSTRUCTION_TABLE", "core", "Op"),
            "GlslStd450InstructionTable": ("GLSL_STD_450_INSTRUCTION_TABLE", "glsl", "GLOp"),
            "OpenCLStd100InstructionTable": ("OPENCL_STD_100_INSTRUCTION_TABLE", "opencl", "CLOp")}


def lookup_shape(f, table_static):
    """-> (key expression text, compared-with text, has_expect) or raises Anchor"""
    st = f["body"][1]
    if len(st) != 1 or st[0][0] != "expr":
        raise Anchor("%s body is not a single expression" % f["name"])
    e = st[0][1]
    expect = False
    if e[0] == "mcall" and e[2] in ("expect", "unwrap"):
        expect = True
        e = e[1]
    bs = binary_search_shape(e, table_static)
    if bs is not None:
        return bs
    if not (e[0] == "mcall" and e[2] == "find" and len(e[3]) == 1 and e[3][0][0] == "closure"):
        raise Anchor("%s is not TABLE.iter().find(closure)" % f["name"])
    it = e[1]
    if not (it[0] == "mcall" and it[2] == "iter" and path_of(it[1]) == table_static):
        raise Anchor("%s does not iterate %s" % (f["name"], table_static))
    clo = e[3][0]
    if len(clo[1]) != 1 or clo[1][0][0] != "p_ident":
        raise Anchor("%s closure parameter shape" % f["name"])
    v = clo[1][0][1]
    body = unblock(clo[2])
    if not (body[0] == "binary" and body[1] == "=="):
        raise Anchor("%s closure is not an equality: %s" % (f["name"], show(body)))
    return v, body[2], body[3], expect


def binary_search_shape(e, table_static):
    """TABLE.binary_search_by_key(&arg, |v| key).ok().map(|i| &TABLE[i]) -> (var, key, arg, 'sorted')"""
    if not (e[0] == "mcall" and e[2] == "map" and len(e[3]) == 1 and e[3][0][0] == "closure"):
        return None
    ok = e[1]
    if not (ok[0] == "mcall" and ok[2] == "ok" and ok[1][0] == "mcall" and ok[1][2] == "binary_search_by_key"):
        return None
    bs = ok[1]
    if path_of(bs[1]) != table_static or len(bs[3]) != 2 or bs[3][1][0] != "closure":
        raise Anchor("binary search on the wrong table or in an unrecognised shape: %s" % show(bs)[:120])
    mclo = e[3][0]
    idx = mclo[1][0][1] if len(mclo[1]) == 1 and mclo[1][0][0] == "p_ident" else None
    mb = strip_refs(unblock(mclo[2]))
    if not (mb[0] == "index" and path_of(mb[1]) == table_static and path_of(mb[2]) == idx):
        raise Anchor("binary search result is not mapped to &TABLE[index]: %s" % show(mclo)[:120])
    kclo = bs[3][1]
    if len(kclo[1]) != 1 or kclo[1][0][0] != "p_ident":
        raise Anchor("binary search key closure shape")
    return kclo[1][0][1], unblock(kclo[2]), strip_refs(bs[3][0]), "sorted"


def key_class(n, var):
    """('key', cast|None) if n is var.opcode [as T]; ('arg', name, cast|None) if n is a plain path [as T]"""
    cast = None
    if n[0] == "cast":
        cast = n[2]
        n = n[1]
    if n[0] == "field" and path_of(n[1]) == var and n[2] == "opcode":
        return ("key", cast)
    p = path_of(n)
    if p:
        return ("arg", p, cast)
    return ("other", show(n))


def run(ctx, chk):
    t = grammar_tables(ctx)
    enums = spirv_enums(ctx)
    chk.trusted += ["rustc macro expansion of inst!/ext_inst!", "Iterator::find returns the first element satisfying the closure"]
    W = "rspirv/grammar/autogen_table.rs"

    R1 = chk.rule("R-TAB-1", "table rows and opcode enumeration variants are in bijection: every row's opcode is a declared "
                  "variant, its opname is that variant's name, no opcode occurs twice, every variant has a row; all Op "
                  "discriminants fit in 16 bits; extended-instruction rows (name, number) equal GLOp/CLOp (variant, discriminant)")
    ops = {n: v for n, v, _ in enums["Op"]["variants"]}
    seen = {}
    for i, r in enumerate(t["core"]):
        inst = "core[%s]" % (r["opcode"] or "#%d" % i)
        if r["opcode"] not in ops:
            chk.bad(R1, inst, "row %d names an opcode that is not a variant of spirv::Op: %s" % (i, r["opcode"]), W)
            continue
        if r["opcode"] in seen:
            chk.bad(R1, inst, "opcode %s has two rows (%d and %d); lookups return the first" % (r["opcode"], seen[r["opcode"]], i), W)
            continue
        seen[r["opcode"]] = i
        chk.check(R1, r["opname"] == r["opcode"], inst, "opname %r differs from the opcode variant %s" % (r["opname"], r["opcode"]), W,
                  sample={"opname": r["opname"], "number": ops[r["opcode"]]})
    for n, v in ops.items():
        chk.check(R1, n in seen, "Op::%s:has-row" % n, "opcode %s (%s) has no table row: lookup_opcode(%s) yields None and get() panics" % (n, v, v), W)
        chk.check(R1, v is not None and 0 <= v < 65536, "Op::%s:fits-u16" % n, "discriminant %s does not fit in 16 bits" % v, "spirv/autogen_spirv.rs")
    byval = {}
    for n, v in ops.items():
        byval.setdefault(v, []).append(n)
    for v, ns in byval.items():
        chk.check(R1, len(ns) == 1, "Op#%s:unique" % v, "number %s shared by %s" % (v, ns), "spirv/autogen_spirv.rs")
    for tab, en, wf in (("glsl", "GLOp", "rspirv/grammar/autogen_glsl_std_450.rs"), ("opencl", "CLOp", "rspirv/grammar/autogen_opencl_std_100.rs")):
        ev = {n: v for n, v, _ in enums[en]["variants"]}
        rows = {}
        for i, r in enumerate(t[tab]):
            inst = "%s[%s]" % (tab, r["opname"])
            if r["opname"] in rows or r["opcode"] in [x["opcode"] for x in t[tab][:i]]:
                chk.bad(R1, inst, "duplicate name or number in the %s table" % tab, wf)
                continue
            rows[r["opname"]] = r["opcode"]
            chk.check(R1, ev.get(r["opname"]) == r["opcode"] and r["opcode"] is not None, inst,
                      "row (%s, %s) but %s::%s = %s" % (r["opname"], r["opcode"], en, r["opname"], ev.get(r["opname"])), wf,
                      sample={"name": r["opname"], "number": r["opcode"]})
        for n, v in ev.items():
            chk.check(R1, n in rows, "%s::%s:has-row" % (en, n), "%s::%s (%s) has no row in the %s table" % (en, n, v, tab), wf)
    chk.floor(R1, "core rows", len(t["core"]), 787)
    chk.floor(R1, "glsl rows", len(t["glsl"]), 81)
    chk.floor(R1, "opencl rows", len(t["opencl"]), 162)

    R2 = chk.rule("R-TAB-2", "each of the six lookup functions is TABLE.iter().find(|i| key(i) == arg)[.expect] on its own table, "
                  "with key = i.opcode cast at most to the argument's type, compared by equality with the argument")
    nl = 0
    from . import lookx
    for sty, (static, tab, en) in TABLE_OF.items():
        for fname in ("lookup_opcode", "get"):
            f = ctx.rspirv.fn(SYN, fname, sty)
            w = ctx.raw.where(fname, sty, "syntax.rs")
            nl += 1
            inst = "%s::%s" % (sty, fname)
            pname, pty = f["sig"]["params"][0]
            try:
                outs = {}
                casts = set()
                used_bs = False
                for target in (0, 1, 2, None):
                    r, h = lookx.lookup(ctx, sty, fname, static, target)
                    outs[target] = r
                    casts |= h.casts
                    used_bs = used_bs or getattr(h, "binary_search", False)
                if used_bs:
                    keys = [(ops.get(r0["opcode"]) if tab == "core" else r0["opcode"]) for r0 in t[tab]]
                    bad_at = [i for i in range(1, len(keys)) if keys[i - 1] is None or keys[i] is None or keys[i - 1] >= keys[i]]
                    chk.check(R2, not bad_at, inst + ":table-sorted",
                              "%s uses a binary search but %s is not sorted by opcode: row %d (%s, %s) follows (%s, %s); %d out-of-order positions" % (
                                  inst, static, bad_at[0] if bad_at else 0, t[tab][bad_at[0]]["opname"] if bad_at else "", keys[bad_at[0]] if bad_at else "",
                                  t[tab][bad_at[0] - 1]["opname"] if bad_at else "", keys[bad_at[0] - 1] if bad_at else "", len(bad_at)), w)
            except Anchor as ex:
                # not a linear search: accept a binary search on a table that is sorted by the key
                try:
                    var, l, r_, expect = lookup_shape(f, static)
                except Anchor as ex2:
                    chk.bad(R2, inst, "lookup is neither an analysable linear search (%s) nor a binary search (%s)" % (ex, ex2), w)
                    continue
                if expect == "sorted":
                    keys = [(ops.get(r0["opcode"]) if tab == "core" else r0["opcode"]) for r0 in t[tab]]
                    bad_at = [i for i in range(1, len(keys)) if keys[i - 1] is None or keys[i] is None or keys[i - 1] >= keys[i]]
                    chk.check(R2, not bad_at, inst + ":table-sorted",
                              "%s uses a binary search but %s is not sorted by opcode: row %d (%s, %s) follows (%s, %s); %d out-of-order positions" % (
                                  inst, static, bad_at[0] if bad_at else 0, t[tab][bad_at[0]]["opname"] if bad_at else "", keys[bad_at[0]] if bad_at else "",
                                  t[tab][bad_at[0] - 1]["opname"] if bad_at else "", keys[bad_at[0] - 1] if bad_at else "", len(bad_at)), w)
                else:
                    chk.bad(R2, inst, "lookup is not analysable: %s" % ex, w)
                continue
            if fname == "lookup_opcode":
                want = {0: ("some", ("row", 0)), 1: ("some", ("row", 1)), 2: ("some", ("row", 2)), None: ("none",)}
            else:
                want = {0: ("row", 0), 1: ("row", 1), 2: ("row", 2)}
            res_ok = all(outs[k] == v for k, v in want.items()) and (fname == "lookup_opcode" or (isinstance(outs[None], tuple) and outs[None][0] == "panic"))
            # the comparison must be on values of the argument's width: for the core table a u16 argument against `opcode as u16`
            # (injective because every Op discriminant fits 16 bits), or both widened to 32 bits; extended tables compare u32 words
            wide = {"u16": 16, "u32": 32, "spirv::Word": 32, "Word": 32, "usize": 64, "u64": 64}
            cast_ok = True
            for kc, ac in casts:
                if fname == "lookup_opcode" and tab == "core":
                    kw = wide.get(kc)
                    aw = wide.get(ac, wide.get(pty.replace(" ", ""), None))
                    cast_ok = cast_ok and kw is not None and kw >= 16 and kw == aw
                elif fname == "get" and tab == "core":
                    cast_ok = cast_ok and wide.get(kc, 99) >= 16 and (kc is None) == (ac is None) and wide.get(kc, 0) == wide.get(ac, 0)
                elif fname == "lookup_opcode":
                    cast_ok = cast_ok and wide.get(kc, 32) == 32 and wide.get(ac, 32) == 32
                else:
                    cast_ok = cast_ok and wide.get(kc, 32) == 32 and wide.get(ac) == 32
            chk.check(R2, res_ok and cast_ok and bool(casts), inst,
                      "on an abstract table the lookup yields %s (comparison casts %s); expected the row whose opcode equals the argument, %s otherwise" % (
                          {str(k): str(v)[:40] for k, v in outs.items()}, sorted(map(str, casts)), "None" if fname == "lookup_opcode" else "a panic (unreachable by R-TAB-1)"), w,
                      sample={"casts": sorted(map(str, casts))})
    chk.floor(R2, "lookup functions", nl, 6)

    R3 = chk.rule("R-TAB-3", "every row is well-formed: IdResultType only first, IdResult only first or right after IdResultType, at "
                  "most one each, quantifiers of the form One* ZeroOrOne* ZeroOrMore?, all kinds/quantifiers declared")
    kinds = set(t["kinds"])
    for tab in ("core", "glsl", "opencl"):
        for r in t[tab]:
            inst = "%s[%s]" % (tab, r["opcode"] if tab == "core" else r["opname"])
            o = r["operands"]
            if o is None or r["caps"] is None or r["exts"] is None:
                chk.bad(R3, inst, "row is not a literal table entry", W)
                continue
            ks = [k for k, _ in o]
            qs = [q for _, q in o]
            prob = None
            if any(k not in kinds for k in ks) or any(q not in ("One", "ZeroOrOne", "ZeroOrMore") for q in qs):
                prob = "unknown kind or quantifier"
            elif ks.count("IdResultType") > 1 or ks.count("IdResult") > 1:
                prob = "more than one result type / result id"
            elif "IdResultType" in ks and ks.index("IdResultType") != 0:
                prob = "IdResultType is not the first operand"
            elif "IdResult" in ks and ks.index("IdResult") != (1 if "IdResultType" in ks else 0):
                prob = "IdResult is not at the front"
            elif any(q != "One" for k, q in o if k in ("IdResultType", "IdResult")):
                prob = "result type / result id is not required"
            else:
                phase = 0
                order = {"One": 0, "ZeroOrOne": 1, "ZeroOrMore": 2}
                for j, q in enumerate(qs):
                    if order[q] < phase:
                        prob = "required operand after an optional one (position %d)" % j
                        break
                    phase = order[q]
                    if q == "ZeroOrMore" and j != len(qs) - 1:
                        prob = "variadic operand is not last"
                        break
            chk.check(R3, prob is None, inst, prob or "", W, sample={"operands": o})

    R4 = chk.rule("R-TAB-4", "operand kinds, quantifiers, capabilities and extensions of every row equal the pinned grammar snapshot "
                  "(O-SNAP, stands in for the Khronos grammar of SDK 1.4.309.0, absent from the sandbox)")
    snap = snapshot.load().get("tables") or {}
    cur = snapshot.section_tables(ctx)
    for tab in ("core", "glsl", "opencl"):
        snapshot.compare(chk, R4, "tables/" + tab, snap.get(tab), cur[tab], W)
    chk.check(R4, snap.get("kinds") == cur["kinds"], "tables/kinds", "OperandKind variants differ from the snapshot", W)

    R5 = chk.rule("R-TAB-5", "table facts that panic discharges of other properties rely on")
    core = {r["opcode"]: r for r in t["core"]}
    cdn = sorted(k for k, r in core.items() if r["operands"] and any(x[0] == "LiteralContextDependentNumber" for x in r["operands"]))
    chk.check(R5, set(cdn) <= {"Constant", "SpecConstant"} and all(core[k]["operands"][0][0] == "IdResultType" for k in cdn),
              "LiteralContextDependentNumber-rows", "rows with a context dependent literal: %s" % cdn, W, sample=cdn)
    pl = sorted(k for k, r in core.items() if r["operands"] and any(x[0] == "PairLiteralIntegerIdRef" for x in r["operands"]))
    chk.check(R5, pl == ["Switch"] and core["Switch"]["operands"][0] == ("IdRef", "One"), "PairLiteralIntegerIdRef-rows",
              "rows with PairLiteralIntegerIdRef: %s" % pl, W, sample=pl)
    sc = sorted(k for k, r in core.items() if r["operands"] and any(x[0] == "LiteralSpecConstantOpInteger" for x in r["operands"]))
    chk.check(R5, sc == ["SpecConstantOp"], "LiteralSpecConstantOpInteger-rows", "rows: %s" % sc, W, sample=sc)
    ti = core.get("TypeInt", {}).get("operands") or []
    tf = core.get("TypeFloat", {}).get("operands") or []
    chk.check(R5, [x for x in ti] [:3] == [("IdResult", "One"), ("LiteralInteger", "One"), ("LiteralInteger", "One")],
              "TypeInt-row", "TypeInt operands are %s" % ti, W)
    chk.check(R5, tf[:2] == [("IdResult", "One"), ("LiteralInteger", "One")], "TypeFloat-row", "TypeFloat operands are %s" % tf, W)
    chk.analysed.update({"core_rows": len(t["core"]), "glsl_rows": len(t["glsl"]), "opencl_rows": len(t["opencl"]), "lookup_fns": nl})
