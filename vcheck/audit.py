"""O-STD and O-AUDIT: classification of external callees and the audit of every panic-capable site in code reachable
from the no-panic entry points.  One line per entry with its reason.  Keys never contain line numbers."""

# ---------------------------------------------------------------------------------------------------------------- O-STD
# External callees that can panic (or are the panic machinery).  Matching is by substring of the normalised callee name.
MAY_PANIC = [
    "core::panicking::", "std::rt::begin_panic", "std::rt::panic", "std::panicking::",
    "Option::unwrap", "Option::expect", "Result::unwrap", "Result::expect", "Option::unwrap_unchecked",
    "ops::Index::index", "ops::IndexMut::index_mut", "slice::index::", "array::index", "array::index_mut", "str::index",
    "copy_from_slice", "clone_from_slice", "slice::from_raw_parts", "split_at", "Vec::insert", "Vec::remove", "Vec::swap_remove",
    "Vec::drain", "Vec::split_off", "Vec::truncate_front", "slice::chunks", "slice::windows", "slice::swap", "slice::rotate",
    "Iterator::step_by", "RefCell::borrow", "String::insert", "String::remove", "String::drain", "char::from_digit",
    "Duration::", "process::exit", "process::abort", "unreachable_unchecked", "mem::transmute", "mem::zeroed", "ptr::read", "ptr::write",
    "Vec::with_capacity", "String::with_capacity", "Vec::reserve", "Vec::reserve_exact", "String::reserve", "VecDeque::with_capacity",
    "Iterator::sum", "Iterator::product", "num::pow", "num::abs", "num::neg", "ops::Neg::neg", "ops::Div::div", "ops::Rem::rem", "ops::Mul::mul", "ops::Add::add", "ops::Sub::sub", "ops::Shl::shl", "ops::Shr::shr",
    "from_utf8_unchecked", "get_unchecked", "Vec::from_raw_parts", "Vec::set_len", "alloc::alloc",
]

# External callees known not to panic for the argument types used here (allocation failure excluded).
NO_PANIC = [
    "core::f32::from_bits", "core::f64::from_bits", "core::fmt::rt::Argument::new_display", "core::fmt::rt::Argument::new_debug",
    "core::num::from_le_bytes", "core::num::swap_bytes", "core::num::to_le_bytes", "core::slice::as_ptr", "core::slice::iter",
    "core::slice::iter::into_iter", "core::slice::len", "core::str::as_bytes", "std::boxed::Box::new", "std::boxed::Box::new_uninit",
    "std::boxed::box_assume_init_into_vec_unsafe", "std::cmp::PartialEq::eq", "std::cmp::PartialEq::ne", "std::cmp::impls::eq",
    "std::cmp::impls::ne", "std::collections::HashMap::contains_key", "std::collections::HashMap::get", "std::collections::HashMap::insert",
    "std::collections::HashMap::new", "std::convert::TryInto::try_into", "std::convert::num::from", "std::convert::num::try_from",
    "std::convert::From::from", "std::convert::Into::into", "std::fmt::Arguments::new", "std::fmt::format", "std::hint::must_use",
    "std::iter::Extend::extend", "std::iter::IntoIterator::into_iter", "std::iter::Iterator::chain", "std::iter::Iterator::collect",
    "std::iter::Iterator::find", "std::iter::Iterator::map", "std::iter::Iterator::next", "std::iter::Iterator::position",
    "std::iter::Iterator::filter", "std::iter::Iterator::flat_map", "std::iter::Iterator::cloned", "std::iter::Iterator::enumerate",
    "std::iter::range::next", "std::ops::Deref::deref", "std::ops::DerefMut::deref_mut", "std::ops::FromResidual::from_residual",
    "std::ops::Try::branch", "std::option::Option::and_then", "std::option::Option::as_mut", "std::option::Option::as_ref",
    "std::option::Option::cloned", "std::option::Option::is_none", "std::option::Option::is_some", "std::option::Option::map",
    "std::option::Option::map_or", "std::option::Option::ok_or", "std::option::Option::take", "std::option::Option::iter",
    "std::option::Option::unwrap_or", "std::option::Option::unwrap_or_else", "std::option::Option::ok_or_else", "std::option::Option::copied",
    "std::result::Result::map_err", "std::result::Result::map", "std::result::Result::ok", "std::result::Result::is_ok", "std::result::Result::is_err",
    "std::slice::ChunksExact::remainder", "std::slice::join", "std::str::from_utf8", "std::string::String::is_empty", "std::string::String::new",
    "std::string::String::push_str", "std::string::String::len", "std::string::ToString::to_string", "std::vec::Vec::append",
    "std::vec::Vec::is_empty", "std::vec::Vec::len", "std::vec::Vec::new", "std::vec::Vec::push", "std::vec::Vec::pop",
    "std::vec::Vec::first", "std::vec::Vec::last", "std::vec::partial_eq::", "std::clone::Clone::clone", "std::default::Default::default",
    "std::borrow::ToOwned::to_owned", "std::fmt::Formatter::write_str", "std::fmt::Formatter::write_fmt", "std::fmt::Formatter::debug_tuple",
    "std::fmt::Formatter::debug_struct", "std::fmt::Display::fmt", "std::fmt::Debug::fmt", "std::fmt::Write::write_fmt", "std::fmt::Write::write_str",
    "core::fmt::rt::", "core::fmt::builders::", "std::fmt::Formatter::", "core::slice::first", "core::slice::last", "core::slice::get",
    "core::slice::is_empty", "core::slice::iter_mut", "core::str::len", "core::str::is_empty", "std::io::_print", "core::num::saturating_",
    "core::num::checked_", "core::num::wrapping_", "std::cmp::PartialOrd::", "std::cmp::Ord::", "std::hash::Hash::hash",
    "std::marker::", "std::mem::take", "std::mem::replace", "std::mem::swap", "core::slice::cmp::", "core::array::equality::",
    "std::collections::hash_map::", "std::cmp::min", "std::cmp::max", "core::bool::then", "std::iter::Iterator::any", "std::iter::Iterator::all",
    "std::iter::Iterator::rev", "std::iter::Iterator::zip", "std::iter::Iterator::take", "std::iter::Iterator::skip",
]

# Command-line front end (C20): argument parsing exits the process with a usage message instead of returning (outside the
# property's quantifier "for every readable input file"); file I/O returns Results that main handles with expect (audited).
NO_PANIC += ["std::option::Option::unwrap_or", "std::result::Result::unwrap_or", "std::option::Option::unwrap_or_default", "std::slice::get",
             "core::slice::get", "std::option::Option::filter", "std::option::Option::zip", "std::option::Option::or", "std::option::Option::xor"]
NO_PANIC += ["std::iter::Iterator::peekable", "std::iter::Peekable::peek", "std::iter::Peekable::next", "std::iter::Peekable::", "std::option::Option::copied",
             "std::iter::Iterator::copied", "std::iter::Iterator::by_ref", "std::iter::Iterator::count", "std::iter::Iterator::fold", "std::iter::Iterator::for_each",
             "std::iter::Iterator::last", "std::iter::Iterator::nth", "std::iter::Iterator::take_while", "std::iter::Iterator::skip_while",
             "std::iter::Iterator::filter_map", "std::iter::Iterator::find_map", "std::iter::Iterator::rposition", "std::iter::Iterator::max", "std::iter::Iterator::min",
             "std::iter::Iterator::peekable", "std::iter::Iterator::fuse", "std::iter::Iterator::flatten", "std::iter::Iterator::chain", "std::iter::once", "std::iter::empty",
             "std::iter::DoubleEndedIterator::", "std::iter::ExactSizeIterator::len", "std::ops::FnMut::call_mut", "std::ops::FnOnce::call_once"]
NO_PANIC += ["std::string::String::as_str", "std::str::traits::eq", "std::vec::Vec::as_slice", "std::string::String::as_bytes", "std::str::eq",
             "std::cmp::PartialEq::eq", "std::vec::Vec::iter", "std::vec::Vec::as_ptr", "std::slice::first", "std::slice::get"]
NO_PANIC += ["clap::App::", "clap::Arg::", "clap::ArgMatches::", "clap::App::new", "clap::App::version", "clap::App::about", "clap::App::arg", "clap::App::get_matches", "clap::Arg::with_name",
             "clap::Arg::index", "clap::Arg::required", "clap::ArgMatches::value_of", "std::fs::File::open", "std::io::Read::read_to_end",
             "std::io::_print"]

# Further std functions without a panicking path (std documentation: no "Panics" section; allocation failure excluded as above).
NO_PANIC += ["std::option::Option::replace", "std::option::Option::insert", "std::option::Option::get_or_insert", "std::option::Option::get_or_insert_with",
             "std::option::Option::as_deref", "std::option::Option::as_deref_mut", "std::option::Option::is_some_and", "std::option::Option::is_none_or",
             "std::option::Option::map_or_else", "std::option::Option::or_else", "std::option::Option::and", "std::option::Option::flatten",
             "std::option::Option::unzip", "std::option::Option::iter_mut", "std::option::Option::into_iter", "std::option::Option::as_slice",
             "std::option::Option::take_if", "std::option::Option::inspect",
             "std::result::Result::and_then", "std::result::Result::or_else", "std::result::Result::unwrap_or_else", "std::result::Result::unwrap_or_default",
             "std::result::Result::map_or", "std::result::Result::map_or_else", "std::result::Result::as_ref", "std::result::Result::as_mut",
             "std::result::Result::iter", "std::result::Result::err", "std::result::Result::and", "std::result::Result::or", "std::result::Result::is_ok_and",
             "std::result::Result::is_err_and", "std::result::Result::inspect", "std::result::Result::inspect_err", "std::result::Result::copied", "std::result::Result::cloned",
             "core::bool::then_some",
             "std::vec::Vec::extend_from_slice", "std::vec::Vec::clear", "std::vec::Vec::truncate", "std::vec::Vec::capacity", "std::vec::Vec::iter_mut",
             "std::vec::Vec::as_mut_slice", "std::vec::Vec::retain", "std::vec::Vec::dedup", "std::vec::Vec::shrink_to_fit",
             "std::vec::Vec::contains", "std::vec::Vec::from", "std::vec::Vec::to_vec", "std::vec::from_elem", "std::vec::Vec::extend", "std::vec::Vec::get",
             "std::vec::Vec::get_mut", "std::vec::Vec::first_mut", "std::vec::Vec::last_mut", "std::vec::Vec::resize", "std::vec::Vec::into_boxed_slice",
             "core::slice::contains", "core::slice::to_vec", "core::slice::starts_with", "core::slice::ends_with", "core::slice::split_first",
             "core::slice::split_last", "core::slice::get_mut", "core::slice::first_mut", "core::slice::last_mut", "core::slice::binary_search",
             "core::slice::concat", "core::slice::iter::", "core::slice::chunks_exact::", "std::slice::Iter::", "std::slice::IterMut::", "std::slice::ChunksExact::",
             "std::string::String::push", "std::string::String::from", "std::string::String::clear",
             "std::string::String::from_utf8", "std::string::String::from_utf8_lossy", "std::string::String::extend", "std::string::String::into_bytes",
             "core::str::starts_with", "core::str::ends_with", "core::str::contains", "core::str::find", "core::str::chars", "core::str::bytes",
             "core::str::trim", "core::str::to_owned", "core::str::to_string", "core::str::to_lowercase", "core::str::to_uppercase", "core::str::parse",
             "core::str::split", "core::str::lines", "core::str::strip_prefix", "core::str::strip_suffix", "core::str::as_ptr", "Option::transpose", "Result::transpose", "core::ptr::const_ptr::cast", "core::ptr::mut_ptr::cast", "std::ptr::const_ptr::cast", "std::ptr::mut_ptr::cast", "core::str::eq_ignore_ascii_case",
             "core::num::to_be", "core::num::from_be", "core::num::to_le", "core::num::from_le", "core::num::to_be_bytes", "core::num::to_ne_bytes",
             "core::num::from_be_bytes", "core::num::from_ne_bytes", "core::num::leading_zeros", "core::num::trailing_zeros", "core::num::count_ones",
             "core::num::count_zeros", "core::num::min", "core::num::max", "core::num::abs_diff", "core::num::overflowing_", "core::num::is_power_of_two",
             "core::num::rotate_left", "core::num::rotate_right", "core::num::reverse_bits", "core::f32::to_bits", "core::f64::to_bits",
             "core::char::is_", "core::char::to_ascii", "core::char::from_u32", "core::char::len_utf8", "core::char::methods::",
             "std::mem::size_of", "std::mem::drop", "std::mem::forget", "std::mem::align_of", "std::mem::discriminant",
             "std::iter::Iterator::map_while", "std::iter::Iterator::scan", "std::iter::Iterator::inspect", "std::iter::Iterator::partition",
             "std::iter::Iterator::unzip", "std::iter::Iterator::try_fold", "std::iter::Iterator::try_for_each", "std::iter::Iterator::cycle",
             "std::iter::Iterator::size_hint", "std::iter::Iterator::eq", "std::iter::Iterator::ne", "std::iter::Iterator::cmp",
             "std::iter::Iterator::max_by_key", "std::iter::Iterator::min_by_key", "std::iter::Iterator::max_by", "std::iter::Iterator::min_by",
             "std::iter::repeat", "std::iter::from_fn", "std::iter::successors", "std::iter::FromIterator::from_iter",
             "std::iter::adapters::", "core::iter::adapters::", "core::iter::traits::", "std::iter::range::", "core::ops::range::", "std::ops::Range::",
             "std::ops::RangeInclusive::", "std::ops::RangeBounds::", "std::ops::Not::not", "std::ops::BitOr::bitor", "std::ops::BitAnd::bitand",
             "std::ops::BitXor::bitxor", "std::ops::BitOrAssign::", "std::ops::BitAndAssign::", "std::ops::BitXorAssign::",
             "std::collections::HashMap::default", "std::collections::HashMap::get_mut",
             "std::collections::HashMap::remove", "std::collections::HashMap::entry", "std::collections::HashMap::len", "std::collections::HashMap::is_empty",
             "std::collections::HashMap::iter", "std::collections::HashMap::keys", "std::collections::HashMap::values", "std::collections::HashMap::clear",
             "std::collections::HashSet::", "std::collections::BTreeMap::", "std::collections::BTreeSet::", "std::collections::VecDeque::new",
             "std::borrow::Cow::", "std::borrow::Borrow::borrow", "std::borrow::BorrowMut::borrow_mut", "std::convert::AsMut::as_mut", "std::convert::TryFrom::try_from",
             "std::convert::identity", "std::rc::Rc::new", "std::rc::Rc::clone", "std::sync::Arc::new", "std::boxed::Box::from", "std::boxed::Box::into_raw",
             "core::slice::as_chunks", "core::slice::as_rchunks", "core::slice::first_chunk", "core::slice::last_chunk", "core::slice::split_first_chunk",
             "std::array::from_fn", "core::array::from_fn", "std::array::map", "core::array::map", "std::iter::repeat_with", "std::iter::Iterator::take", "std::array::IntoIter::", "core::array::iter::", "std::option::Option::zip",
             "core::bool::then", "std::iter::Iterator::try_for_each", "std::iter::Iterator::try_fold", "std::iter::successors", "std::iter::from_fn",
             "core::slice::split_first", "core::slice::split_last", "std::mem::take", "std::vec::Vec::retain", "std::fmt::Display::fmt",
             "std::error::Error::", "std::any::Any::type_id", "std::hash::Hasher::", "std::hash::BuildHasher::"]

# Callees whose behaviour is supplied by the caller (the properties say "any well-behaved consumer" / argument types).
CALLER_SUPPLIED = ["std::convert::AsRef::as_ref", "std::ops::Fn::call", "std::ops::FnMut::call_mut", "std::ops::FnOnce::call_once",
                   "<indirect>"]


import re as _re


def _n(x):
    return _re.sub(r"\b(core|alloc)::", "std::", x)


def classify(callee):
    callee = _n(callee)
    for m in map(_n, MAY_PANIC):
        if m in callee:
            # `Option::unwrap` must not match `Option::unwrap_or`, `unwrap_or_else`, `unwrap_or_default`
            if m.endswith(("unwrap", "expect")) and _re.search(_re.escape(m) + r"_(or|or_else|or_default)\b", callee):
                continue
            return "may-panic"
    for m in map(_n, CALLER_SUPPLIED):
        if m in callee:
            return "caller-supplied"
    for m in map(_n, NO_PANIC):
        if m in callee:
            return "no-panic"
    return None


A = []


def audit(fn, kind, detail, count, discharge, reason, check=None):
    A.append({"fn": fn, "kind": kind, "detail": detail, "count": count, "discharge": discharge, "reason": reason, "check": check})


# binary/decoder.rs
audit("Decoder::word", "call", "Option::unwrap", 1, "RULE", "limit.as_mut().unwrap() under has_limit(): C11 R-WORD decision table", "c11")
audit("Decoder::word", "assert", "Overflow(Sub)", 2, "RULE", "`limit -= 1` under !limit_reached(); `offset - 4` after `offset += 4`: C11 R-WORD", "c11")
audit("Decoder::word", "assert", "Overflow(Add)", 2, "RULE", "offset + 4 with offset < len <= isize::MAX; offset += 4 under the bounds check: C11 R-ADV/R-WORD", "c11")
audit("Decoder::word", "call", "slice::index::index", 1, "RULE", "bytes[offset-4..offset] after the bounds check: C11 R-WORD", "c11")
audit("Decoder::word", "call", "Result::unwrap", 1, "TYPE", "try_into() of a 4-byte range into [u8; 4]")
audit("Decoder::string", "assert", "DivisionByZero", 2, "CONST", "division by WORD_NUM_BYTES = 4", "const_word_num_bytes")
audit("Decoder::string", "assert", "Overflow(Mul)", 3, "RULE", "limit*4 under limit <= remaining/4; consumed*4 with consumed <= len/4+1: C11 R-LIMIT window", "c11")
audit("Decoder::string", "assert", "Overflow(Add)", 3, "RULE", "offset + slice.len() <= len; first_null/4 + 1; offset += consumed*4 under the bound guard: C11 R-ADV", "c11")
audit("Decoder::string", "assert", "Overflow(Sub)", 1, "RULE", "*limit -= consumed_words with consumed_words <= limit by the window/bound guard: C11 R-LIMIT", "c11")
audit("Decoder::string", "call", "slice::index::index", 3, "RULE", "bytes[offset..] (offset <= len by C11 R-ADV), remaining[..limit*4] under the guard, slice[..first_null] (position < len)", "c11")
audit("Decoder::bit64", "assert", "Overflow(Shl)", 1, "CONST", "shift of a u64 by the constant 32")
audit("Decoder::<typed>", "assert", "Overflow(Sub)", 56, "GUARD", "`self.offset - 4` in the Ok branch of `if let Ok(word) = self.word()` (offset >= 4 after a successful word): audited shape", "decoder_family")
# binary/parser.rs
audit("parser::parse_words", "assert", "Overflow(Mul)", 1, "TYPE", "len * 4 = byte size of a &[u32], at most isize::MAX")
audit("parser::parse_words", "call", "slice::from_raw_parts", 1, "GUARD", "the single unsafe block: pointer and length from the same &[u32], u32 -> u8 reinterpretation", "parse_words_unsafe")
audit("Parser::parse_header", "call", "Index::index", 4, "GUARD", "words[0], [0], [3], [1] in the Ok(words) arm of words(HEADER_NUM_WORDS = 5); words(n) returns exactly n words", "parse_header_index")
audit("Parser::parse_inst", "assert", "Overflow(Add)", 1, "RESOURCE", "inst_index += 1: one increment per instruction, at most len/4 instructions")
audit("Parser::parse_inst", "assert", "Overflow(Sub)", 3, "GUARD", "offset() - 4 (x2) after a successful word(); wc - 1 after the wc == 0 return", "parse_inst_guards")
audit("Parser::split_into_word_count_and_opcode", "assert", "Overflow(Shr)", 1, "CONST", "shift by the constant 16")
audit("Parser::parse_operands", "assert", "BoundsCheck", 1, "GUARD", "grammar.operands[loperand_index] under the loop condition loperand_index < grammar.operands.len()", "parse_operands_loop")
audit("Parser::parse_operands", "assert", "Overflow(Add)", 1, "GUARD", "loperand_index += 1 under loperand_index < len", "parse_operands_loop")
audit("Parser::parse_operands", "call", "core::panicking::panic", 1, "FACT", "assert!(opcode is Constant or SpecConstant): only those rows contain LiteralContextDependentNumber (C09 R-TAB-5)", "tab5")
audit("Parser::parse_operands", "call", "Option::expect", 1, "FACT", "rtype.expect: those rows start with IdResultType, required (C09 R-TAB-5/R-TAB-3)", "tab5")
audit("Parser::parse_operands", "call", "core::panicking::assert_failed", 1, "FACT", "assert_eq!(opcode, Switch): only Switch has PairLiteralIntegerIdRef (C09 R-TAB-5)", "tab5")
audit("Parser::parse_operands", "call", "Index::index", 1, "FACT", "coperands[0]: Switch's first operand (IdRef, One) was parsed before the pairs (C09 R-TAB-5)", "tab5")
audit("Parser::parse_operands", "call", "std::rt::begin_panic", 1, "FACT", "selector is IdRef: parse_operand(IdRef) yields Operand::IdRef (C02 R-CODEC-1 table)", "tab5")
audit("Parser::parse_operand", "call", "std::rt::begin_panic", 5, "GUARD", "the five special kinds are intercepted by parse_operands and rejected/skipped by parse_spec_constant_op before the generic parser", "special_kinds")
# binary/tracker.rs
audit("TypeTracker::track", "call", "Index::index", 3, "FACT", "operands[0], [1] of TypeInt and [0] of TypeFloat: rows have two / one required literal operands and the instruction came from the parser (C09 R-TAB-5)", "tab5")
audit("ExtInstSetTracker::track", "call", "Index::index", 1, "GUARD", "operands[0] after the early return on operands.is_empty()", "extinst_track")
audit("ExtInstSetTracker::track", "call", "Option::unwrap", 2, "GUARD", "result_id.unwrap() after the early return on result_id.is_none()", "extinst_track")
# dr/loader.rs
audit("Consumer>::consume_instruction", "call", "Option::unwrap", 7, "RULE", "as_mut()/take() unwraps after the is_none() early returns: C05 R-AUTO-INV (no failing unwrap in a reachable state)", "c05")
# binary/assemble.rs
audit("assemble::assemble_str", "call", "slice::chunks_exact", 1, "CONST", "chunk size is the constant 4 (non-zero)")
audit("assemble::assemble_str", "call", "array::index_mut", 1, "TYPE", "last[..remainder.len()] with remainder of chunks_exact(4) shorter than 4 = last.len()")
audit("assemble::assemble_str", "call", "copy_from_slice", 1, "TYPE", "both slices have length remainder.len()")
audit("assemble::assemble_str::{closure#0}", "call", "Result::unwrap", 1, "TYPE", "try_into() of a chunk of chunks_exact(4) into [u8; 4]")
audit("Instruction as binary::assemble::Assemble>::assemble_into", "assert", "Overflow(Sub)", 1, "GUARD", "result.len() - start after a push (len > start)", "asm_frame")
audit("Instruction as binary::assemble::Assemble>::assemble_into", "assert", "Overflow(Shl)", 1, "CONST", "shift by the constant 16")
audit("Instruction as binary::assemble::Assemble>::assemble_into", "call", "IndexMut::index_mut", 1, "GUARD", "result[start] after a push at index start", "asm_frame")
audit("Operand as binary::assemble::Assemble>::assemble_into", "assert", "Overflow(Shr)", 1, "CONST", "shift of a u64 by the constant 32")
# binary/disassemble.rs
audit("disassemble::disas_constant", "call", "core::panicking::assert_failed", 2, "FACT", "debug_assert_eq!: the caller's arm is Op::Constant; a parsed OpConstant has exactly one operand (row: IdResultType, IdResult, LiteralContextDependentNumber One)", "disas_constant_caller")
audit("disassemble::disas_ext_inst", "call", "Index::index", 4, "GUARD", "operands[0], [1], [0], [2..] after the early return on operands.len() < 2", "disas_ext_inst")
audit("Operand as std::fmt::Display>::fmt", "call", "Index::index", 1, "FACT", "format!(\"{:?}\", dim)[3..]: every variant name of spirv::Dim starts with the ASCII prefix `Dim`", "dim_prefix")
# dr/constructs.rs, utils, grammar
audit("ModuleHeader::generator", "assert", "Overflow(Shr)", 1, "CONST", "shift by the constant 16")
audit("version::create_version_from_word", "assert", "BoundsCheck", 2, "CONST", "bytes[2], bytes[1] of a [u8; 4]")
audit("CoreInstructionTable::get", "call", "Option::expect", 1, "FACT", "every Op variant has a table row (C09 R-TAB-1 bijection)", "tab1")
# dis/main.rs (C20)
audit("rspirv_dis::", "call", "Option::unwrap", 1, "FACT", "value_of(\"input\").unwrap(): the argument is declared required(true), clap exits before main continues otherwise", "main_required_arg")
audit("rspirv_dis::", "call", "Result::expect", 2, "ASSUMED", "File::open / read_to_end: the property quantifies over readable input files")
