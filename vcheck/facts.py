"""Fact extraction (E1 astfacts, E2 mirfacts) with a content-hash keyed cache.

Everything is derived from the *current* working tree of $VERIF_REPO (default
/repo): a changed tree has a different key and is re-extracted.  Extraction
failures raise ExtractError (the check then fails closed).
"""
import fcntl
import hashlib
import json
import os
import shutil
import subprocess
import sys
import threading
import time

VERIF = os.path.dirname(os.path.dirname(os.path.abspath(__file__)))
REPO = os.environ.get("VERIF_REPO", "/repo")
CACHE = os.path.join(VERIF, ".cache")
ASTFACTS = os.path.join(VERIF, "engines/astfacts/target/release/astfacts")
MIRFACTS = os.path.join(VERIF, "engines/mirfacts/target/release/mirfacts")
KEEP_CACHES = int(os.environ.get("VERIF_KEEP_CACHES", "24"))

# (package, crate name, cargo target selector)
CRATES = [("spirv", "spirv", ["--lib"]), ("rspirv", "rspirv", ["--lib"]), ("rspirv-dis", "rspirv_dis", ["--bin", "rspirv-dis"])]


class ExtractError(Exception):
    pass


def _source_files(repo):
    out = []
    for root, dirs, files in os.walk(repo):
        dirs[:] = sorted(d for d in dirs if d not in ("target", ".git", "external", "spirv-blobs"))
        for f in sorted(files):
            if f.endswith(".rs") or f in ("Cargo.toml", "Cargo.lock", "rust-toolchain", "rust-toolchain.toml", "config.toml", "build.rs"):
                out.append(os.path.join(root, f))
    return out


def tree_key(repo=None, features=""):
    repo = repo or REPO
    h = hashlib.sha256()
    for p in _source_files(repo):
        h.update(os.path.relpath(p, repo).encode())
        h.update(b"\0")
        with open(p, "rb") as fh:
            h.update(fh.read())
        h.update(b"\0")
    for eng in (ASTFACTS, MIRFACTS):
        try:
            with open(eng, "rb") as fh:
                h.update(hashlib.sha256(fh.read()).digest())
        except OSError:
            raise ExtractError("engine binary missing: %s (run MANIFEST.setup_cmd)" % eng)
    h.update(features.encode())
    return h.hexdigest()[:24]


def _sysroot():
    return subprocess.check_output(["rustc", "+nightly", "--print", "sysroot"], text=True).strip()


def _env():
    e = dict(os.environ)
    e["CARGO_NET_OFFLINE"] = "true"
    e.pop("RUSTC_WRAPPER", None)
    return e


def _run(cmd, cwd, env, log):
    p = subprocess.run(cmd, cwd=cwd, env=env, stdout=subprocess.PIPE, stderr=subprocess.PIPE)
    log.append({"cmd": " ".join(cmd), "rc": p.returncode, "stderr_tail": p.stderr.decode(errors="replace")[-3000:]})
    return p


def _extract(repo, work, features, log):
    os.makedirs(work, exist_ok=True)
    errors = []
    feat_args = ["--features", features] if features else []

    def job_mir():
        try:
            env = _env()
            env["LD_LIBRARY_PATH"] = _sysroot() + "/lib:" + env.get("LD_LIBRARY_PATH", "")
            env["RUSTFLAGS"] = "-Zmir-opt-level=0 -Awarnings"
            env["RUSTC_WORKSPACE_WRAPPER"] = MIRFACTS
            env["MIRFACTS_OUT"] = os.path.join(work, "mir")
            env["CARGO_TARGET_DIR"] = os.path.join(work, "tgt-mir")
            os.makedirs(env["MIRFACTS_OUT"], exist_ok=True)
            cmd = ["cargo", "+nightly", "check", "--offline", "-p", "spirv", "-p", "rspirv", "-p", "rspirv-dis"]
            if features:
                # features of the spirv package only
                cmd = ["cargo", "+nightly", "check", "--offline", "-p", "spirv", "-p", "rspirv", "-p", "rspirv-dis",
                       "--features", ",".join("spirv/" + f for f in features.split(","))]
            p = _run(cmd, repo, env, log)
            if p.returncode != 0:
                errors.append("cargo check (mirfacts) failed:\n" + p.stderr.decode(errors="replace")[-4000:])
                return
            for _, cname, _ in CRATES:
                if not os.path.exists(os.path.join(work, "mir", cname + ".mir.jsonl")):
                    errors.append("mirfacts wrote no fact file for crate %s" % cname)
        except Exception as ex:  # noqa
            errors.append("mirfacts job: %r" % ex)
        finally:
            shutil.rmtree(os.path.join(work, "tgt-mir"), ignore_errors=True)

    def job_ast():
        try:
            env = _env()
            env["CARGO_TARGET_DIR"] = os.path.join(work, "tgt-ast")
            env["RUSTFLAGS"] = "-Awarnings"
            os.makedirs(os.path.join(work, "ast"), exist_ok=True)
            for pkg, cname, sel in CRATES:
                cmd = ["cargo", "+nightly", "rustc", "--offline", "-p", pkg] + sel
                if features and pkg == "spirv":
                    cmd += feat_args
                cmd += ["--", "-Zunpretty=expanded"]
                p = _run(cmd, repo, env, log)
                if p.returncode != 0 or len(p.stdout) < 100:
                    errors.append("expansion of %s failed:\n%s" % (pkg, p.stderr.decode(errors="replace")[-4000:]))
                    return
                src = os.path.join(work, "ast", cname + ".expanded.rs")
                with open(src, "wb") as fh:
                    fh.write(p.stdout)
                q = _run([ASTFACTS, "expanded", cname, src, os.path.join(work, "ast", cname)], repo, env, log)
                if q.returncode != 0:
                    errors.append("astfacts failed on %s: %s" % (cname, q.stderr.decode(errors="replace")[-2000:]))
                    return
                os.remove(src)
            q = _run([ASTFACTS, "rawindex", repo, os.path.join(work, "raw.json")], repo, env, log)
            if q.returncode != 0:
                errors.append("astfacts rawindex failed: %s" % q.stderr.decode(errors="replace")[-2000:])
        except Exception as ex:  # noqa
            errors.append("astfacts job: %r" % ex)
        finally:
            shutil.rmtree(os.path.join(work, "tgt-ast"), ignore_errors=True)

    ts = [threading.Thread(target=job_mir), threading.Thread(target=job_ast)]
    for t in ts:
        t.start()
    for t in ts:
        t.join()
    if errors:
        raise ExtractError("\n".join(errors))


def _prune():
    d = os.path.join(CACHE, "facts")
    try:
        ents = [(os.path.getmtime(os.path.join(d, e)), e) for e in os.listdir(d)]
    except OSError:
        return
    ents.sort(reverse=True)
    for _, e in ents[KEEP_CACHES:]:
        shutil.rmtree(os.path.join(d, e), ignore_errors=True)


def ensure(repo=None, fresh=False, features=""):
    """Return the fact directory for the current tree (extracting if needed)."""
    repo = repo or REPO
    if not os.path.isdir(repo):
        raise ExtractError("repository not found: %s" % repo)
    key = tree_key(repo, features)
    os.makedirs(os.path.join(CACHE, "facts"), exist_ok=True)
    os.makedirs(os.path.join(CACHE, "locks"), exist_ok=True)
    dest = os.path.join(CACHE, "facts", key)
    # one lock per tree: different trees (seed copies) are extracted in parallel, the same tree only once
    lockf = open(os.path.join(CACHE, "locks", key), "w")
    fcntl.flock(lockf, fcntl.LOCK_EX)
    try:
        if fresh and os.path.isdir(dest):
            shutil.rmtree(dest)
        if os.path.exists(os.path.join(dest, "meta.json")):
            os.utime(dest)
            return dest
        shutil.rmtree(dest, ignore_errors=True)
        work = os.path.join(CACHE, "work", "%s.%d" % (key, os.getpid()))
        shutil.rmtree(work, ignore_errors=True)
        t0 = time.time()
        log = []
        try:
            _extract(repo, work, features, log)
            if os.path.exists(os.path.join(repo, "Cargo.lock")):
                shutil.copy(os.path.join(repo, "Cargo.lock"), os.path.join(work, "Cargo.lock"))      # the resolution the facts were built with
            meta = {"key": key, "repo": repo, "features": features, "extract_s": round(time.time() - t0, 1),
                    "files": len(_source_files(repo)), "log": log}
            with open(os.path.join(work, "meta.json"), "w") as fh:
                json.dump(meta, fh, indent=1)
            os.rename(work, dest)
        finally:
            shutil.rmtree(work, ignore_errors=True)
        glock = open(os.path.join(CACHE, "lock"), "w")
        fcntl.flock(glock, fcntl.LOCK_EX)
        try:
            _prune()
        finally:
            fcntl.flock(glock, fcntl.LOCK_UN)
            glock.close()
        return dest
    finally:
        fcntl.flock(lockf, fcntl.LOCK_UN)
        lockf.close()


if __name__ == "__main__":
    t = time.time()
    d = ensure(fresh="--fresh" in sys.argv)
    print(d, round(time.time() - t, 1), "s")
