"""Thorough-tier extras shared by the properties: second feature configuration, compile-fail witnesses, clippy cross-reference."""
import json
import os
import re
import shutil
import subprocess

from . import facts
from .core import Anchor

WITNESS_OF = {"C11": ["DecoderOffsetPrivate", "DecoderLimitPrivate"], "C12": ["BuilderSelectionPrivate", "BuilderEndBlockPrivate"],
              "C13": ["BuilderNextIdPrivate"], "C19": ["TokenNewNotPublic", "StorageDataPrivate", "TokenIndexPrivate"]}


def features_config(ctx, chk):
    """Extract the workspace a second time with spirv's serde features on and compare the models every table rule starts from."""
    from .model import Ctx, grammar_tables, spirv_enums, spirv_masks
    R = chk.rule("T-FEATURES", "the spirv crate built with features serialize,deserialize yields the same enums, discriminants, aliases, "
                 "mask flags and grammar tables as the default configuration (what the rules decided holds for both configurations)")
    ctx2 = Ctx(fresh=True, features="serialize,deserialize")
    a = {n: (e["variants"], e["aliases"]) for n, e in spirv_enums(ctx).items()}
    b = {n: (e["variants"], e["aliases"]) for n, e in spirv_enums(ctx2).items()}
    chk.check(R, a == b, "enums", "enum models differ between feature configurations: %s" % sorted(k for k in set(a) | set(b) if a.get(k) != b.get(k))[:5], "spirv/autogen_spirv.rs")
    a = {n: m["consts"] for n, m in spirv_masks(ctx).items()}
    b = {n: m["consts"] for n, m in spirv_masks(ctx2).items()}
    chk.check(R, a == b, "masks", "mask models differ between feature configurations", "spirv/autogen_spirv.rs")
    chk.check(R, grammar_tables(ctx)["core"] == grammar_tables(ctx2)["core"], "tables", "grammar tables differ between feature configurations", "rspirv/grammar/autogen_table.rs")
    chk.analysed["second_configuration"] = {"features": "spirv/serialize,spirv/deserialize", "key": ctx2.meta["key"]}


def witnesses(ctx, chk, pid):
    names = WITNESS_OF.get(pid)
    if not names:
        return
    R = chk.rule("T-WITNESS", "compile-fail witnesses (with compiling twins): external code cannot write the private state the rules "
                 "above reason about; compiled by rustdoc on nightly with the expected error code")
    repo = ctx.meta["repo"]
    src = os.path.join(facts.VERIF, "engines", "witness")
    work = os.path.join(facts.CACHE, "work", "witness-%s-%d" % (ctx.meta["key"], os.getpid()))
    shutil.rmtree(work, ignore_errors=True)
    os.makedirs(os.path.join(work, "src"))
    try:
        with open(os.path.join(src, "Cargo.toml.in")) as fh:
            toml = fh.read().replace("@REPO@", repo)
        with open(os.path.join(work, "Cargo.toml"), "w") as fh:
            fh.write(toml)
        shutil.copy(os.path.join(src, "src", "lib.rs"), os.path.join(work, "src", "lib.rs"))
        shutil.copy(os.path.join(repo, "Cargo.lock"), os.path.join(work, "Cargo.lock"))
        env = dict(os.environ, CARGO_NET_OFFLINE="true", CARGO_TARGET_DIR=os.path.join(work, "target"))
        p = subprocess.run(["cargo", "+nightly", "test", "--doc", "--offline"], cwd=work, env=env, capture_output=True, text=True)
        out = p.stdout + p.stderr
        for n in names:
            res = re.findall(r"test src/lib\.rs - %s \(line \d+\)( - compile fail)? \.\.\. (\w+)" % n, out)
            fails = [r for r in res if r[0]]
            twins = [r for r in res if not r[0]]
            ok = len(fails) == 1 and len(twins) == 1 and fails[0][1] == "ok" and twins[0][1] == "ok"
            chk.check(R, ok, n, "witness %s: %s%s" % (n, res, "" if res else " (doctest output: %s)" % out[-400:]), "engines/witness/src/lib.rs")
    finally:
        shutil.rmtree(work, ignore_errors=True)


def clippy_crossref(ctx, chk, census_sites):
    """Every clippy restriction-lint site (indexing, unwrap, expect, panic) inside a function the census reaches must have a
    census site on the same line: otherwise the *checker's* census is incomplete."""
    R = chk.rule("T-CLIPPY", "cross-reference: every site clippy's indexing_slicing / unwrap_used / expect_used / panic lints report inside "
                 "a function reachable from the entry points is also a site of the MIR census (the census is not missing anything clippy sees)")
    repo = ctx.meta["repo"]
    work = os.path.join(facts.CACHE, "work", "clippy-%s-%d" % (ctx.meta["key"], os.getpid()))
    env = dict(os.environ, CARGO_NET_OFFLINE="true", CARGO_TARGET_DIR=work)
    try:
        p = subprocess.run(["cargo", "+nightly", "clippy", "--offline", "-p", "rspirv", "--message-format=json", "--",
                            "-Wclippy::indexing_slicing", "-Wclippy::unwrap_used", "-Wclippy::expect_used", "-Wclippy::panic"],
                           cwd=repo, env=env, capture_output=True, text=True)
        sites = []
        for ln in p.stdout.splitlines():
            try:
                m = json.loads(ln)
            except ValueError:
                continue
            msg = m.get("message") or {}
            code = (msg.get("code") or {}).get("code") or ""
            if code.startswith("clippy::") and msg.get("spans"):
                sp = [s for s in msg["spans"] if s.get("is_primary")] or msg["spans"]
                sites.append((code, sp[0]["file_name"], sp[0]["line_start"]))
        if p.returncode != 0 and not sites:
            chk.bad(R, "clippy-run", "clippy did not run: %s" % p.stderr[-300:], None)
            return
        lines = {(f, l) for f, l in census_sites["lines"]}
        franges = census_sites["reachable_ranges"]
        n = 0
        for code, f, l in sites:
            inside = any(ff == f and a <= l <= b for ff, a, b in franges)
            if not inside:
                continue
            n += 1
            near = any((f, l + d) in lines for d in (-2, -1, 0, 1, 2))
            chk.check(R, near, "%s@%s:%d" % (code, f, l), "clippy reports %s at %s:%d inside a reachable function but the MIR census has no site there" % (code, f, l), "%s:%d" % (f, l))
        chk.floor(R, "clippy sites inside reachable functions", n, 40)
    finally:
        shutil.rmtree(work, ignore_errors=True)
