"""Check context: obligations, violations, known findings, evidence."""
import json
import os
import time

from . import facts

VERIF = facts.VERIF
EVIDENCE = os.path.join(VERIF, "evidence")
KNOWN = os.path.join(VERIF, "known_findings.json")


class Anchor(Exception):
    """A code anchor a rule must interpret is missing or not in an analysable shape (fail closed)."""


def load_known():
    try:
        with open(KNOWN) as fh:
            return json.load(fh)
    except OSError:
        return {"findings": []}


class Check:
    def __init__(self, pid, tier, seed=0):
        self.pid = pid
        self.tier = tier
        self.seed = seed
        self.t0 = time.time()
        self.rules = {}          # rule id -> {"text":..., "obligations": n, "discharged": n}
        self.viol = []           # dicts
        self.known_hits = []
        self.samples = []
        self.instances = set()   # distinct obligation instance keys
        self.analysed = {}       # free-form: units analysed
        self.assumptions = []
        self.trusted = []
        self.floors = []
        self.notes = []
        kn = load_known()
        self.known = {}
        for f in kn.get("findings", []):
            if f.get("status") == "known" and self.pid in f.get("properties", [f.get("property")]):
                self.known[f["key"]] = f

    # ---- rules and obligations
    def rule(self, rid, text):
        self.rules.setdefault(rid, {"text": text, "obligations": 0, "discharged": 0})
        return rid

    def ok(self, rid, instance, sample=None):
        r = self.rules[rid]
        r["obligations"] += 1
        r["discharged"] += 1
        self.instances.add((rid, str(instance)))
        if sample is not None and sum(1 for s in self.samples if s.get("rule") == rid) < 2:
            self.samples.append({"rule": rid, "instance": str(instance), "status": "discharged", "detail": sample})

    def bad(self, rid, instance, what, where=None, key=None, detail=None):
        """Record a violated obligation.  `key` identifies the finding (never contains line numbers)."""
        r = self.rules[rid]
        r["obligations"] += 1
        self.instances.add((rid, str(instance)))
        key = key or "%s:%s" % (rid, instance)
        v = {"property": self.pid, "rule": rid, "rule_text": r["text"], "instance": str(instance), "key": key,
             "what": what, "where": where, "detail": detail}
        if key in self.known:
            self.known_hits.append(v)
            r["discharged"] += 0
        else:
            self.viol.append(v)
        self.samples.append({"rule": rid, "instance": str(instance), "status": "known-finding" if key in self.known else "violated",
                             "detail": what})

    def check(self, rid, cond, instance, what, where=None, key=None, detail=None, sample=None):
        if cond:
            self.ok(rid, instance, sample)
        else:
            self.bad(rid, instance, what, where, key, detail)
        return cond

    def floor(self, rid, what, count, minimum):
        """Fail closed when an instance count drops below the number confirmed by hand on the pinned tree."""
        self.floors.append({"rule": rid, "what": what, "count": count, "floor": minimum})
        if count < minimum:
            self.rules.setdefault(rid, {"text": "", "obligations": 0, "discharged": 0})
            self.bad(rid, "floor:" + what, "instance count for %s is %d, below the floor %d confirmed on the pinned tree "
                     "(rule would pass vacuously)" % (what, count, minimum), key="%s:floor:%s" % (rid, what))

    # ---- finish
    def finish(self, explanation, exhaustive=False):
        os.makedirs(EVIDENCE, exist_ok=True)
        vdir = os.path.join(EVIDENCE, "violations")
        os.makedirs(vdir, exist_ok=True)
        for f in os.listdir(vdir):
            if f.startswith(self.pid + "-"):
                os.remove(os.path.join(vdir, f))
        lines = []
        for v in self.known_hits:
            lines.append("KNOWN-FINDING: property=%s %s [%s] %s" % (self.pid, v["key"], v["where"] or "", v["what"]))
        # known findings listed but not observed any more are reported (informational)
        seen = set(v["key"] for v in self.known_hits)
        for k in self.known:
            if k not in seen:
                self.notes.append("known finding %s not observed on this tree" % k)
        for i, v in enumerate(self.viol):
            path = os.path.join(vdir, "%s-%d.json" % (self.pid, i))
            with open(path, "w") as fh:
                json.dump(v, fh, indent=1)
            if i == 40:
                lines.append("... %d more violations (replay files written)" % (len(self.viol) - 40))
            if i >= 40:
                continue
            lines.append("VIOLATION property=%s replay=%s" % (self.pid, path))
            lines.append("  rule %s instance %s at %s: %s" % (v["rule"], v["instance"], v["where"], v["what"]))
        obligations = sum(r["obligations"] for r in self.rules.values())
        discharged = sum(r["discharged"] for r in self.rules.values())
        cov = {
            "explanation": explanation,
            "obligations": obligations,
            "discharged": discharged,
            "evaluations": obligations,
            "distinct_nontrivial": len(self.instances),
            "rule": "one obligation per rule instance (table row / opcode / method / call site / abstract state) enumerated from "
                    "the current source; distinct = distinct (rule, instance) pairs; every instance is a statement about the code - a "
                    "table row, a type-checked MIR fact, or the result of the rule engine evaluating the function's syntax tree on an "
                    "abstract input; none is a run of rspirv",
            "samples": self.samples[:40] if self.samples else [{"note": "no samples"}],
            "exhaustive": bool(exhaustive),
            "rules": {k: v for k, v in self.rules.items()},
            "floors": self.floors,
            "analysed": self.analysed,
            "trusted_base": self.trusted,
            "checker_cmd": "python3 -m vcheck run %s --tier %s" % (self.pid, self.tier),
            "known_findings_printed": [v["key"] for v in self.known_hits],
            "notes": self.notes,
        }
        ev = {"property_id": self.pid, "tier": self.tier, "seed": self.seed, "level": "other", "coverage": cov,
              "assumptions": self.assumptions, "wall_s": round(time.time() - self.t0, 2), "violations": len(self.viol)}
        with open(os.path.join(EVIDENCE, self.pid + ".json"), "w") as fh:
            json.dump(ev, fh, indent=1)
        for ln in lines:
            print(ln)
        print("%s %s: %d rules, %d obligations, %d discharged, %d known findings, %d violations, %.1fs" % (
            self.pid, self.tier, len(self.rules), obligations, discharged, len(self.known_hits), len(self.viol),
            time.time() - self.t0))
        return 1 if self.viol else 0
