"""Loading and navigating E1 (astfacts) trees and E2 (mirfacts) records."""
import json
import os

from .core import Anchor


def is_node(x):
    return isinstance(x, list) and x and isinstance(x[0], str)


def walk(n):
    """Yield every node (list whose head is a kind string) below and including n."""
    if isinstance(n, list):
        if n and isinstance(n[0], str):
            yield n
        for c in n:
            if isinstance(c, (list, dict)):
                yield from walk(c)
    elif isinstance(n, dict):
        for c in n.values():
            if isinstance(c, (list, dict)):
                yield from walk(c)


VEC_FNS = ("box_assume_init_into_vec_unsafe", "into_vec")


def normalise(n):
    """vec![..] expansions -> ["vec", [elems]]; drop no-op wrappers."""
    if isinstance(n, dict):
        return {k: normalise(v) for k, v in n.items()}
    if not isinstance(n, list):
        return n
    n = [normalise(c) for c in n]
    if n and n[0] == "call" and is_node(n[1]) and n[1][0] in ("path", "qpath"):
        p = n[1][1] if n[1][0] == "path" else n[1][2]
        last = p.split("::")[-1]
        if last in VEC_FNS and ("alloc" in p or "slice" in p or n[1][0] == "qpath"):
            arr = [x for x in walk(n[2]) if x[0] == "array"]
            if arr:
                return ["vec", arr[0][1]]
        if p in ("::alloc::vec::Vec::new", "Vec::new") and not n[2]:
            return ["vec", []]
        if p == "::alloc::vec::from_elem":
            return ["vec_repeat", n[2][0], n[2][1]]
    return n


def show(n):
    """Normalised Rust-like rendering of a node (for reports and shape comparison)."""
    if n is None:
        return "_"
    if isinstance(n, str):
        return n
    if isinstance(n, bool):
        return "true" if n else "false"
    if not is_node(n):
        if isinstance(n, list):
            return ", ".join(show(c) for c in n)
        return str(n)
    k = n[0]
    if k == "path":
        return n[1] + ("::" + n[2] if len(n) > 2 and n[2] else "")
    if k == "qpath":
        return "<%s>::%s" % (n[1], n[2])
    if k == "lit":
        if n[1] == "str":
            return json.dumps(n[2])
        if n[1] in ("int", "float"):
            return str(n[2]) + (n[3] or "")
        return str(n[2]).lower() if n[1] == "bool" else str(n[2])
    if k == "call":
        return "%s(%s)" % (show(n[1]), ", ".join(show(a) for a in n[2]))
    if k == "mcall":
        return "%s.%s(%s)" % (show(n[1]), n[2], ", ".join(show(a) for a in n[3]))
    if k == "field":
        return "%s.%s" % (show(n[1]), n[2])
    if k == "index":
        return "%s[%s]" % (show(n[1]), show(n[2]))
    if k == "unary":
        return "%s%s" % (n[1], show(n[2]))
    if k == "binary":
        return "(%s %s %s)" % (show(n[2]), n[1], show(n[3]))
    if k == "assign":
        return "%s = %s" % (show(n[1]), show(n[2]))
    if k == "assignop":
        return "%s %s= %s" % (show(n[2]), n[1], show(n[3]))
    if k == "if":
        s = "if %s %s" % (show(n[1]), show(n[2]))
        if n[3] is not None:
            s += " else " + show(n[3])
        return s
    if k == "let":
        return "let %s = %s" % (show(n[1]), show(n[2]))
    if k == "match":
        arms = ["%s%s => %s" % (show(a[0]), (" if " + show(a[1])) if a[1] is not None else "", show(a[2])) for a in n[2]]
        return "match %s { %s }" % (show(n[1]), ", ".join(arms))
    if k == "block":
        return "{ %s }" % " ".join(show_stmt(s) for s in n[1])
    if k == "return":
        return "return %s" % show(n[1]) if n[1] is not None else "return"
    if k == "break":
        return "break" + (" " + show(n[2]) if n[2] is not None else "")
    if k == "continue":
        return "continue"
    if k == "loop":
        return "loop " + show(n[1])
    if k == "while":
        return "while %s %s" % (show(n[1]), show(n[2]))
    if k == "for":
        return "for %s in %s %s" % (show(n[1]), show(n[2]), show(n[3]))
    if k == "closure":
        return "|%s| %s" % (", ".join(show(p) for p in n[1]), show(n[2]))
    if k == "ref":
        return "&%s%s" % ("mut " if n[1] else "", show(n[2]))
    if k == "try":
        return show(n[1]) + "?"
    if k == "tuple":
        return "(%s)" % ", ".join(show(c) for c in n[1])
    if k in ("array", "vec"):
        return "%s[%s]" % ("vec!" if k == "vec" else "", ", ".join(show(c) for c in n[1]))
    if k == "struct":
        return "%s { %s }" % (n[1], ", ".join("%s: %s" % (f[0], show(f[1])) for f in n[2]))
    if k == "cast":
        return "(%s as %s)" % (show(n[1]), n[2])
    if k == "range":
        return "%s..%s%s" % (show(n[1]) if n[1] is not None else "", "=" if n[3] else "", show(n[2]) if n[2] is not None else "")
    if k == "macro":
        return "%s!(%s)" % (n[1], n[2])
    if k == "unsafe":
        return "unsafe " + show(n[1])
    if k == "p_ident":
        return ("ref " if n[2] else "") + ("mut " if n[3] else "") + n[1] + (" @ " + show(n[4]) if n[4] is not None else "")
    if k == "p_path":
        return n[1]
    if k == "p_ts":
        return "%s(%s)" % (n[1], ", ".join(show(c) for c in n[2]))
    if k == "p_struct":
        return "%s { %s%s }" % (n[1], ", ".join("%s: %s" % (f[0], show(f[1])) for f in n[2]), ", .." if n[3] else "")
    if k == "p_wild":
        return "_"
    if k == "p_or":
        return " | ".join(show(c) for c in n[1])
    if k == "p_lit":
        return show(n[1])
    if k == "p_range":
        return "%s..%s%s" % (show(n[1]) if n[1] is not None else "", "=" if n[3] else "", show(n[2]) if n[2] is not None else "")
    if k == "p_tuple":
        return "(%s)" % ", ".join(show(c) for c in n[1])
    if k == "p_ref":
        return "&%s%s" % ("mut " if n[1] else "", show(n[2]))
    if k == "p_rest":
        return ".."
    if k == "unknown":
        return "<?%s?>" % n[1]
    return "%s(%s)" % (k, ", ".join(show(c) for c in n[1:] if c is not None))


def show_stmt(s):
    if s[0] == "local":
        r = "let %s" % show(s[1])
        if s[3] is not None:
            r += " = " + show(s[3])
        if s[4] is not None:
            r += " else " + show(s[4])
        return r + ";"
    if s[0] == "expr":
        return show(s[1]) + (";" if s[2] else "")
    if s[0] == "item":
        return "<item %s>" % s[1].get("name")
    return str(s)


def lastseg(p, n=1):
    return "::".join(p.split("::")[-n:])


def path_of(n):
    """Path text of a path expression/pattern, or None."""
    if is_node(n):
        if n[0] in ("path", "p_path"):
            return n[1]
        if n[0] == "p_ident" and n[4] is None:
            return n[1]
    return None


def int_of(n):
    if is_node(n) and n[0] == "lit" and n[1] == "int":
        return int(n[2])
    if is_node(n) and n[0] == "p_lit":
        return int_of(n[1])
    if is_node(n) and n[0] == "cast":
        return int_of(n[1])
    return None


def unblock(n):
    """{ e } -> e (rustfmt wraps long arm bodies in a block)"""
    while is_node(n) and n[0] == "block" and len(n[1]) == 1 and n[1][0][0] == "expr" and not n[1][0][2]:
        n = n[1][0][1]
    return n


def strip_refs(n):
    while is_node(n) and (n[0] == "ref" or (n[0] == "unary" and n[1] == "*")):
        n = n[2]
    return n


class Crate:
    def __init__(self, factdir, cname):
        self.dir = os.path.join(factdir, "ast", cname)
        self.cname = cname
        self._mods = {}
        idx = os.path.join(self.dir, cname + ".index.json")
        if not os.path.exists(idx):
            raise Anchor("no syntax facts for crate %s" % cname)
        with open(idx) as fh:
            self.index = json.load(fh)

    def modules(self):
        return [m["module"] for m in self.index["modules"]]

    def module(self, path):
        if path not in self._mods:
            f = os.path.join(self.dir, path.replace("::", ".") + ".json")
            if not os.path.exists(f):
                raise Anchor("module %s not found in the expanded source" % path)
            with open(f) as fh:
                self._mods[path] = normalise(json.load(fh))
        return self._mods[path]

    def items(self, mod, kind=None):
        return [i for i in self.module(mod)["items"] if kind is None or i["kind"] == kind]

    def impls(self, mod, self_ty=None, trait=None):
        out = []
        for i in self.items(mod, "impl"):
            st = strip_generics(i["self_ty"])
            if self_ty is not None and lastseg(st) != self_ty:
                continue
            tr = i.get("trait")
            if trait is False and tr:
                continue
            if trait not in (None, False) and (not tr or lastseg(strip_generics(tr)) != trait):
                continue
            out.append(i)
        return out

    def fns(self, mod, self_ty=None, trait=None):
        """All fns: free fns when self_ty is None, else methods of impls for that type."""
        out = []
        if self_ty is None:
            for i in self.items(mod, "fn"):
                out.append(i)
        else:
            for im in self.impls(mod, self_ty, trait):
                for f in im["items"]:
                    if f["kind"] == "fn":
                        f = dict(f)
                        f["self_ty"] = lastseg(strip_generics(im["self_ty"]))
                        f["trait"] = im.get("trait")
                        out.append(f)
        return out

    def fn(self, mod, name, self_ty=None, trait=None):
        c = [f for f in self.fns(mod, self_ty, trait) if f["name"] == name]
        if len(c) != 1:
            raise Anchor("expected exactly one fn %s%s::%s in %s, found %d" % (
                (self_ty + " ") if self_ty else "", ("as " + str(trait)) if trait else "", name, mod, len(c)))
        return c[0]

    def item(self, mod, kind, name):
        c = [i for i in self.items(mod, kind) if i.get("name") == name]
        if len(c) != 1:
            raise Anchor("expected exactly one %s %s in %s, found %d" % (kind, name, mod, len(c)))
        return c[0]


def strip_generics(t):
    out = []
    depth = 0
    for ch in t:
        if ch == "<":
            depth += 1
        elif ch == ">":
            depth -= 1
        elif depth == 0:
            out.append(ch)
    return "".join(out).strip()


class Raw:
    """fn -> file:line index of the raw (unexpanded) sources, for reports."""

    def __init__(self, factdir):
        with open(os.path.join(factdir, "raw.json")) as fh:
            self.d = json.load(fh)
        self.byname = {}
        for f in self.d["fns"]:
            if not f.get("test"):
                self.byname.setdefault(f["name"], []).append(f)

    def where(self, name, owner=None, file_hint=None):
        c = self.byname.get(name, [])
        if owner:
            c2 = [f for f in c if lastseg(strip_generics(f.get("owner") or "")) == owner]
            c = c2 or c
        if file_hint:
            c2 = [f for f in c if file_hint in f["file"]]
            c = c2 or c
        if not c:
            return "%s (location unknown)" % name
        f = c[0]
        return "%s:%d %s%s" % (f["file"], f["line"], (owner + "::") if owner else "", name)


class Mir:
    def __init__(self, factdir, cname):
        p = os.path.join(factdir, "mir", cname + ".mir.jsonl")
        if not os.path.exists(p):
            raise Anchor("no MIR facts for crate %s" % cname)
        self.cname = cname
        self.fns = {}
        self.adts = {}
        self.statics = []
        self.unsafes = []
        ended = False
        with open(p) as fh:
            for ln in fh:
                r = json.loads(ln)
                k = r["k"]
                if k == "fn":
                    self.fns[r["path"]] = r
                elif k == "adt":
                    self.adts[r["path"]] = r
                elif k == "static":
                    self.statics.append(r)
                elif k == "unsafe":
                    self.unsafes.append(r)
                elif k == "end":
                    ended = True
        if not ended:
            raise Anchor("MIR fact file for %s is truncated" % cname)

    def find(self, suffix):
        """Functions whose generic-stripped path ends with suffix."""
        out = []
        for p, r in self.fns.items():
            if strip_generics(p).replace("::::", "::").endswith(suffix):
                out.append(r)
        return out

    def one(self, suffix):
        c = self.find(suffix)
        if len(c) != 1:
            raise Anchor("expected exactly one MIR body for %s in %s, found %d" % (suffix, self.cname, len(c)))
        return c[0]


def mir_name(path):
    return strip_generics(path).replace("::::", "::")


def where(span):
    return "%s:%s" % (span.get("file"), span.get("line"))


# --------------------------------------------------------------------------- path conditions (structured tree)

def _diverges(block):
    """block always ends by leaving the enclosing control flow (return/break/continue/panic as last statement)"""
    if is_node(block) and block[0] == "block" and not block[1]:
        return False
    if not (is_node(block) and block[0] == "block" and block[1]):
        n = block
    else:
        last = block[1][-1]
        n = last[1] if last[0] == "expr" else None
    if n is None:
        return False
    n = unblock(n)
    if n[0] in ("return", "break", "continue"):
        return True
    if n[0] == "macro" and n[1] in ("panic", "unreachable", "todo", "unimplemented"):
        return True
    if n[0] == "call" and (path_of(n[1]) or "").split("::")[-1] in ("panic", "panic_fmt", "begin_panic", "panic_explicit", "unreachable_display"):
        return True
    if n[0] == "if" and n[3] is not None:
        return _diverges(n[2]) and _diverges(n[3])
    if n[0] == "match":
        return all(_diverges(a[2]) for a in n[2])
    if n[0] == "block":
        return _diverges(n)
    return False


def sites(body, pred):
    """Yield (node, conds) for every node satisfying pred; conds = list of condition strings that hold on every path to
    the node: enclosing if/match-arm conditions and the negation of every earlier `if c { diverge }` in enclosing blocks."""
    out = []

    def visit(n, conds):
        if not isinstance(n, list):
            return
        if is_node(n):
            if pred(n):
                out.append((n, list(conds)))
            k = n[0]
            if k == "block":
                cs = list(conds)
                for s in n[1]:
                    if s[0] == "local":
                        if s[3] is not None:
                            visit(s[3], cs)
                            # let x = match S { P => v, _ => return .. }  => afterwards S matched P
                            init = unblock(s[3])
                            if init[0] == "match":
                                live = [a for a in init[2] if not _diverges(a[2])]
                                if len(live) == 1 and len(init[2]) > 1:
                                    cs = cs + ["%s matches %s" % (show(init[1]), show(live[0][0]))]
                        if s[4] is not None:
                            visit(s[4], cs)
                    elif s[0] == "expr":
                        visit(s[1], cs)
                        e = unblock(s[1])
                        if e[0] == "if" and e[3] is None and _diverges(e[2]):
                            cs = cs + ["!(%s)" % show(e[1])]
                        elif e[0] == "if" and e[3] is not None and _diverges(e[2]) and not _diverges(e[3]):
                            cs = cs + ["!(%s)" % show(e[1])]
                        elif e[0] == "if" and e[3] is not None and _diverges(e[3]) and not _diverges(e[2]):
                            cs = cs + ["(%s)" % show(e[1])]
                return
            if k == "if":
                visit(n[1], conds)
                visit(n[2], conds + ["(%s)" % show(n[1])])
                if n[3] is not None:
                    visit(n[3], conds + ["!(%s)" % show(n[1])])
                return
            if k == "match":
                visit(n[1], conds)
                for pat, guard, body_ in n[2]:
                    c = "%s matches %s" % (show(n[1]), show(pat))
                    if guard is not None:
                        visit(guard, conds + [c])
                        c += " if %s" % show(guard)
                    visit(body_, conds + [c])
                return
            if k == "while":
                visit(n[1], conds)
                visit(n[2], conds + ["(%s)" % show(n[1])])
                return
            for c in n[1:]:
                visit(c, conds)
        else:
            for c in n:
                visit(c, conds)
    visit(body, [])
    return out


# --------------------------------------------------------------------------- CFG queries over MIR skeletons

class Cfg:
    def __init__(self, fn):
        self.fn = fn
        self.blocks = fn["blocks"]
        self.n = len(self.blocks)
        self.succ = []
        for b in self.blocks:
            t = b["t"]
            if t["t"] == "switch":
                s = [x[1] for x in t["vals"]] + [t["otherwise"]]
            else:
                s = list(t.get("to") or [])
            self.succ.append([x for x in s if x is not None])
        self.pred = [[] for _ in range(self.n)]
        for i, ss in enumerate(self.succ):
            for j in ss:
                self.pred[j].append(i)
        self._dom = None

    def calls(self, name=None, trait=None):
        out = []
        for i, b in enumerate(self.blocks):
            t = b["t"]
            if t["t"] == "call" and not b.get("cleanup"):
                if name is not None and t.get("rn") != name:
                    continue
                if trait is not None and not (t.get("rt") or "").endswith(trait):
                    continue
                out.append(i)
        return out

    def reachable(self, start, avoid=()):
        seen = set()
        st = [start]
        while st:
            x = st.pop()
            if x in seen or x in avoid:
                continue
            seen.add(x)
            st += self.succ[x]
        return seen

    def dominators(self):
        if self._dom is None:
            reach = self.reachable(0)
            dom = {i: set(reach) for i in reach}
            dom[0] = {0}
            changed = True
            while changed:
                changed = False
                for i in sorted(reach):
                    if i == 0:
                        continue
                    ps = [p for p in self.pred[i] if p in reach]
                    new = set(reach)
                    for p in ps:
                        new &= dom[p]
                    new |= {i}
                    if new != dom[i]:
                        dom[i] = new
                        changed = True
            self._dom = dom
        return self._dom

    def dominates(self, a, b):
        d = self.dominators()
        return b in d and a in d[b]


def small_literals(nodes, cap=8):
    """integer literals 2..cap that a piece of code compares / indexes / counts with: a model of its input should contain structures
    at least one larger than the largest of them"""
    out = set()
    for n in walk(nodes):
        cands = []
        if n[0] == "binary" and n[1] in ("==", "!=", "<", "<=", ">", ">=", "%", "-", "+"):
            cands = [n[2], n[3]]
        elif n[0] == "index":
            cands = [n[2]]
        elif n[0] == "mcall" and n[2] in ("nth", "skip", "take", "get", "split_at", "chunks", "windows", "step_by") and n[3]:
            cands = [n[3][0]]
        elif n[0] in ("p_lit", "p_range"):
            cands = [n]
        for c in cands:
            if is_node(c):
                v = int_of(c) if c[0] in ("lit", "p_lit", "cast", "unary") else None
                if v is not None and 2 <= v <= cap:
                    out.add(v)
    return out


def big_literals(nodes, lo=9, hi=1 << 20):
    """integer literals lo..hi occurring in arithmetic, masks and comparisons: candidates for thresholds a small model never reaches"""
    out = set()
    for n in walk(nodes):
        if n[0] == "binary" and n[1] in ("==", "!=", "<", "<=", ">", ">=", "%", "-", "+", "&", "|", "/", "*", ">>", "<<"):
            for c in (n[2], n[3]):
                v = int_of(c) if is_node(c) and c[0] in ("lit", "cast") else None
                if v is not None and lo <= v <= hi and n[1] not in (">>", "<<"):
                    out.add(v)
        elif n[0] in ("p_lit", "p_range"):
            v = int_of(n) if n[0] == "p_lit" else None
            if v is not None and lo <= v <= hi:
                out.add(v)
    return out
