"""A small symbolic evaluator for straight-line-ish Rust functions over finite abstract inputs.

Values:  int | bool | ("some", v) | ("none",) | ("ok", v) | ("err", v) | ("enum", "Type::Integer", [args]) | ("tuple", [..]) |
         ("sym", name) | ("closure", params, body, env) | ("unit",) | domain-specific tuples produced by the hooks.
The host supplies hooks for domain-specific paths, fields, calls and method calls; anything not understood raises Anchor, so a
rule built on it fails closed.  Undecidable branches (symbolic scrutinee) also raise Anchor: the abstract inputs are chosen by the
caller so that every branch the reference cares about is decided."""
from .core import Anchor
from .tree import int_of, is_node, path_of, show, unblock, walk

FALLBACK_FACTORY = None     # set by rules.progx: hooks that evaluate calls into the analysed crate in place (behind every rule's own hooks)
DEFAULT_CTX = None          # the fact context of the running check: lets every hook resolve constants and helper functions of the crate
NONE = ("none",)
UNIT = ("unit",)


class Scope:
    """lexically scoped variables: a name is looked up and assigned in the innermost scope that defines it; bind() (let / pattern
    bindings) always defines it in this scope, shadowing outer ones"""

    def __init__(self, vars_=None, parent=None):
        self.vars = vars_ if vars_ is not None else {}
        self.parent = parent

    def child(self):
        return Scope({}, self)

    def _find(self, k):
        s_ = self
        while s_ is not None:
            if k in s_.vars:
                return s_
            s_ = s_.parent
        return None

    def __contains__(self, k):
        return self._find(k) is not None

    def __getitem__(self, k):
        s_ = self._find(k)
        if s_ is None:
            raise KeyError(k)
        return s_.vars[k]

    def get(self, k, default=None):
        s_ = self._find(k)
        return s_.vars[k] if s_ is not None else default

    def __setitem__(self, k, v):
        s_ = self._find(k)
        (s_ if s_ is not None else self).vars[k] = v

    def bind(self, k, v):
        self.vars[k] = v

    def update(self, d):
        for k, v in d.items():
            self[k] = v

    def items(self):
        out = {}
        s_ = self
        while s_ is not None:
            for k, v in s_.vars.items():
                out.setdefault(k, v)
            s_ = s_.parent
        return out.items()


STRICT_TOKENS_DISTINCT = False    # True: different tokens denote different values (the assumption used before this was made explicit)
OPAQUE_HEADS = ("param", "elem", "byte", "id", "rt", "lane", "arg", "key", "char")


def opaque(v):
    """a token standing for an unknown run-time value"""
    return isinstance(v, tuple) and bool(v) and v[0] in OPAQUE_HEADS


def bind(env, k, v):
    if isinstance(env, Scope):
        env.bind(k, v)
    else:
        env[k] = v


def child(env):
    return env.child() if isinstance(env, Scope) else env


class Return(Exception):
    def __init__(self, v):
        self.v = v


class Panic(Exception):
    pass


class Break(Exception):
    def __init__(self, label=None, value=None):
        self.label, self.value = label, value


class Continue(Exception):
    def __init__(self, label=None):
        self.label = label


class SymEval:
    def __init__(self, hooks, what="function"):
        if DEFAULT_CTX is not None and FALLBACK_FACTORY is not None and not getattr(hooks, "is_inliner", False):
            fb = FALLBACK_FACTORY(DEFAULT_CTX)
            fb.ev = self
            hooks = Chain(hooks, fb)
        self.h = hooks
        self.what = what
        self.depth = 0
        self.hint = {}          # id(expression node) -> type text expected of it (let annotation / function return type)

    def fail(self, msg, e=None):
        raise Anchor("%s: %s%s" % (self.what, msg, (": " + show(e)[:90]) if e is not None else ""))

    # ------------------------------------------------------------------ entry
    def run(self, f, args):
        env = args if isinstance(args, Scope) else Scope(args)      # the caller's dict holds the top-level names afterwards (out-parameters)
        self.note_ret(f)
        self.fn_self_ty = f.get("self_ty")
        try:
            return self.block(f["body"], env)
        except Return as r:
            return r.v

    def note_ret(self, f):
        """remember which expressions produce the function's return value (tail expression, `return e`)"""
        ret = (f.get("sig") or {}).get("ret")
        if not isinstance(ret, str):
            return
        body = f["body"]
        if body[1] and body[1][-1][0] == "expr" and not body[1][-1][2]:
            self.hint[id(body[1][-1][1])] = ret
        for n in walk(body):
            if n[0] == "return" and n[1] is not None:
                self.hint[id(n[1])] = ret

    # ------------------------------------------------------------------ statements
    def block(self, b, env):
        env = child(env) if isinstance(env, Scope) else Scope(env)
        r = UNIT
        wbs = []
        for s in b[1]:
            names = {n[1] for n in walk(s) if n[0] == "path"} if wbs else ()
            pending = [fn for name, fn in wbs if name in names]
            try:
                r = self.stmt(s, env, wbs)
            finally:
                for fn in pending:
                    fn()
        return r

    def stmt(self, s, env, wbs):
        r = UNIT
        if True:
            if s[0] == "local":
                if s[3] is None:
                    return r
                if isinstance(s[2], str):
                    self.hint[id(s[3])] = s[2]
                v = self.ev(s[3], env)
                m = self.match_pat(s[1], v, env)
                if m is None:
                    self.fail("undecided let pattern", s[1])
                if not m:
                    if s[4] is None:
                        self.fail("refutable let without else", s[1])
                    self.ev(s[4], env)
                    self.fail("let-else branch does not diverge", s[4])
                wb = self.writeback(s[1], s[3], env)
                if wb:
                    nm = [n for n in walk(s[1]) if n[0] == "p_ident"]
                    wbs.append((nm[-1][1], wb))
                r = UNIT
            elif s[0] == "expr":
                r = self.ev(s[1], env)
                if s[2]:
                    r = UNIT
            elif s[0] == "item":
                it = s[1]
                if isinstance(it, dict) and it.get("kind") in ("const", "static") and it.get("init") is not None:
                    bind(env, it["name"], self.ev(it["init"], env))
                if isinstance(it, dict) and it.get("kind") == "fn" and it.get("body") is not None:
                    bind(env, it["name"], ("localfn", it))          # a function declared inside the body: callable by name, captures nothing
                return r
            else:
                self.fail("statement kind %s" % s[0])
        return r

    # ------------------------------------------------------------------ expressions
    def ev(self, e, env):
        k = e[0]
        if k == "block":
            if len(e) > 2 and isinstance(e[2], str):
                try:
                    return self.block(e, env)
                except Break as br:
                    if br.label != e[2]:
                        raise
                    return br.value if br.value is not None else UNIT
            return self.block(e, env)
        if k == "lit":
            if e[1] == "int":
                return int(e[2])
            if e[1] == "bool":
                return bool(e[2])
            if e[1] in ("str", "char"):
                return ("str", e[2])
            return ("sym", show(e))
        if k == "path":
            p = e[1]
            if p in env:
                return env[p]
            r = self.h.path(p)
            if r is not NotImplemented:
                return r
            if p == "None":
                return NONE
            last = p.split("::")[-1]
            if last in ("BITS", "MAX", "MIN") and len(p.split("::")) >= 2:
                w_ = {"u8": 8, "u16": 16, "u32": 32, "Word": 32, "u64": 64, "usize": 64}.get(p.split("::")[-2])
                if w_:
                    return {"BITS": w_, "MAX": (1 << w_) - 1, "MIN": 0}[last]
            if last.isupper() and len(last) > 1:
                cv = self.h.resolve_const(p)        # SCREAMING_CASE: a constant item of the analysed crates
                if cv is not NotImplemented:
                    if isinstance(cv, tuple) and cv and cv[0] == "constinit":
                        return self.ev(cv[1], Scope({}))
                    return cv
            if last == "PhantomData":
                return ("sym", "PhantomData")       # the zero-sized marker value
            if "::" in p and last[:1].isupper():
                return ("enum", self.enum_name(p), [])
            if "::" in p or self.h.resolve_fn(p) is not None:
                return ("fnref", p)         # a function or method named as a value (`.map(Type::method)`)
            self.fail("unknown name %s" % p)
        if k in ("ref",):
            return self.ev(e[2], env)
        if k == "unary":
            v = self.ev(e[2], env)
            if e[1] == "*":
                if isinstance(v, tuple) and v and v[0] == "cell":
                    return v[1][v[2]]
                return v
            if e[1] == "!" and isinstance(v, bool):
                return not v
            self.fail("unary", e)
        if k == "cast":
            v = self.ev(e[1], env)
            r = self.h.cast(v, e[2], e)
            if r is NotImplemented and isinstance(v, int) and not isinstance(v, bool):
                ty_ = e[2].replace(" ", "")
                ty_ = _type_alias(ty_) or ty_
                bits = {"u8": 8, "u16": 16, "u32": 32, "u64": 64, "usize": 64, "Word": 32, "spirv::Word": 32}.get(ty_)
                return v & ((1 << bits) - 1) if bits else v
            if r is NotImplemented:
                # a cast of a value the evaluator does not know numerically is kept visible: dropping it would equate `x as f32` with `x`
                if isinstance(v, tuple) and v and v[0] not in ("enum", "struct", "list", "fmt", "str", "some", "ok", "err", "none", "unit", "tuple", "cell"):
                    return ("as", v, e[2].replace(" ", ""))
                return v
            return r
        if k == "tuple":
            return ("tuple", [self.ev(x, env) for x in e[1]]) if e[1] else UNIT
        if k == "return":
            raise Return(self.ev(e[1], env) if e[1] is not None else UNIT)
        if k == "try":
            v = self.ev(e[1], env)
            if v == NONE or (isinstance(v, tuple) and v[0] == "err"):
                raise Return(v)
            if isinstance(v, tuple) and v[0] in ("some", "ok"):
                return v[1]
            self.fail("`?` on a value of unknown shape", e)
        if k == "field":
            base = self.ev(e[1], env)
            r = self.h.field(base, e[2], e)
            if r is not NotImplemented:
                return r
            if isinstance(base, tuple) and base[0] == "tuple" and e[2].isdigit():
                return base[1][int(e[2])]
            if isinstance(base, tuple) and base[0] == "struct" and e[2] in base[2]:
                return base[2][e[2]]
            self.fail("field", e)
        if k == "index":
            base = self.ev(e[1], env)
            idx = self.ev(e[2], env) if e[2][0] != "range" else ("range", e[2])
            r = self.h.index(base, idx, e)
            if r is not NotImplemented:
                return r
            if isinstance(base, tuple) and base[0] == "list":
                if isinstance(idx, int):
                    if idx >= len(base[1]):
                        raise Panic("index %d out of range (len %d)" % (idx, len(base[1])))
                    return base[1][idx]
                if isinstance(idx, tuple) and idx[0] == "rangev":
                    lo = idx[1] if idx[1] is not None else 0
                    hi = idx[2] if idx[2] is not None else len(base[1])
                    if lo > hi or hi > len(base[1]):
                        raise Panic("slice [%s..%s] out of range (len %d)" % (lo, hi, len(base[1])))
                    return ("list", base[1][lo:hi])
                if isinstance(idx, tuple) and idx[0] == "range":
                    rg = idx[1]
                    lo = self.ev(rg[1], env) if rg[1] is not None else 0
                    hi = self.ev(rg[2], env) if rg[2] is not None else len(base[1])
                    if rg[3]:
                        hi += 1
                    if not (isinstance(lo, int) and isinstance(hi, int)):
                        self.fail("symbolic slice bounds", e)
                    if lo > hi or hi > len(base[1]):
                        raise Panic("slice [%d..%d] out of range (len %d)" % (lo, hi, len(base[1])))
                    return ("list", base[1][lo:hi])
            if isinstance(base, tuple) and base[0] == "map" and isinstance(base[1], dict) and not (isinstance(idx, tuple) and idx and idx[0] in ("range", "rangev")):
                try:
                    hash(idx)
                    k_ = idx
                except TypeError:
                    k_ = repr(idx)
                if k_ not in base[1]:
                    raise Panic("map indexed with a key that is not present")
                return base[1][k_]
            if isinstance(base, tuple) and base[0] == "str" and isinstance(base[1], str) and isinstance(idx, tuple) and idx[0] == "range":
                # a concrete string sliced by byte positions (a position inside a character panics, as in Rust)
                rg = idx[1]
                raw_ = base[1].encode("utf-8")
                lo = self.ev(rg[1], env) if rg[1] is not None else 0
                hi = self.ev(rg[2], env) if rg[2] is not None else len(raw_)
                if rg[3]:
                    hi += 1
                if not (isinstance(lo, int) and isinstance(hi, int)):
                    self.fail("symbolic slice bounds", e)
                if lo > hi or hi > len(raw_):
                    raise Panic("str slice [%d..%d] out of range (len %d)" % (lo, hi, len(raw_)))
                try:
                    raw_[:lo].decode("utf-8"), raw_[hi:].decode("utf-8")
                    return ("str", raw_[lo:hi].decode("utf-8"))
                except UnicodeDecodeError:
                    raise Panic("str slice not on a character boundary")
            self.fail("index", e)
        if k == "binary":
            op = e[1]
            if op in ("&&", "||"):
                a = self.ev(e[2], env)
                if not isinstance(a, bool):
                    self.fail("non-boolean operand", e[2])
                if (op == "&&" and not a) or (op == "||" and a):
                    return a
                b = self.ev(e[3], env)
                if not isinstance(b, bool):
                    self.fail("non-boolean operand", e[3])
                return b
            a, b = self.ev(e[2], env), self.ev(e[3], env)
            r = self.h.binary(op, a, b, e)
            if r is not NotImplemented:
                return r
            if op in ("==", "!="):
                r = self.equal(a, b, e)
                if isinstance(r, bool):
                    return r == (op == "==")
                return ("cmp", op, a, b)
            if op in ("<", "<=", ">", ">=") and ((opaque(a) and isinstance(b, int)) or (opaque(b) and isinstance(a, int))):
                return ("cmp", op, a, b)
            if isinstance(a, int) and isinstance(b, int) and not isinstance(a, bool):
                if op == "-" and a < b:
                    raise Panic("arithmetic underflow")
                r2 = {"+": a + b, "-": a - b, "*": a * b, "<": a < b, "<=": a <= b, ">": a > b, ">=": a >= b, "<<": a << b if b < 64 else None,
                      ">>": a >> b if b < 64 else None, "|": a | b, "&": a & b, "/": a // b if b else None, "%": a % b if b else None}.get(op)
                if r2 is None:
                    if op in ("/", "%") and b == 0:
                        raise Panic("division by zero")
                    self.fail("integer operator", e)
                if op in ("+", "*") and r2 >= 2 ** 64:
                    raise Panic("arithmetic overflow")
                return r2
            self.fail("binary operator on symbolic values", e)
        if k == "assign":
            v = self.ev(e[2], env)
            r = self.h.assign(e[1], v, env, self)
            if r is NotImplemented:
                p = path_of(e[1])
                if p is not None and p in env:
                    env[p] = v
                    return UNIT
                if e[1][0] == "field" and self.set_place(e[1], v, env) is not NotImplemented:
                    return UNIT
                if e[1][0] == "index" and path_of(e[1][1]) in env and isinstance(env[path_of(e[1][1])], tuple) and env[path_of(e[1][1])][0] == "list":
                    i = self.ev(e[1][2], env)
                    items = list(env[path_of(e[1][1])][1])
                    if not isinstance(i, int):
                        self.fail("symbolic index in assignment", e)
                    if i >= len(items):
                        raise Panic("index %d out of range in assignment" % i)
                    items[i] = v
                    env[path_of(e[1][1])] = ("list", items)
                    return UNIT
                lv = self.lvalue(e[1], env)
                if lv is not None:
                    lv[1](v)
                    return UNIT
                self.fail("assignment", e)
            return UNIT
        if k == "assignop":
            v = self.ev(e[3], env)
            r = self.h.assignop(e[2], e[1], v, env, self)
            if r is NotImplemented:
                p = path_of(e[2])
                if p is not None and p in env:
                    old = env[p]
                    if isinstance(old, int) and isinstance(v, int) and not isinstance(old, bool):
                        env[p] = {"+": old + v, "-": old - v, "*": old * v}.get(e[1])
                        if env[p] is None:
                            self.fail("compound operator", e)
                        if env[p] < 0:
                            raise Panic("arithmetic underflow")
                        return UNIT
                    env[p] = ("opassign", e[1], old, v)
                    return UNIT
                if e[2][0] == "index" and path_of(e[2][1]) in env and isinstance(env[path_of(e[2][1])], tuple) and env[path_of(e[2][1])][0] == "list":
                    i = self.ev(e[2][2], env)
                    items = list(env[path_of(e[2][1])][1])
                    if not isinstance(i, int):
                        self.fail("symbolic index in compound assignment", e)
                    if i >= len(items):
                        raise Panic("index %d out of range" % i)
                    items[i] = ("opassign", e[1], items[i], v)
                    env[path_of(e[2][1])] = ("list", items)
                    return UNIT
                lv = self.lvalue(e[2], env)
                if lv is not None:
                    g, st = lv
                    st(self.arith(e[1], g(), v, e))
                    return UNIT
                self.fail("compound assignment", e)
            return UNIT
        if k == "call":
            p = path_of(e[1]) or ""
            if p in env and isinstance(env[p], tuple) and (env[p][0] in ("closure", "fnref", "localfn") or (env[p][0] == "enum" and not env[p][2])):
                return self.apply(env[p], [self.ev(a, env) for a in e[2]])
            if p.split("::")[-1] in ("panic_fmt", "panic", "begin_panic", "panic_display", "unreachable_display", "panic_explicit", "assert_failed"):
                raise Panic(p.split("::")[-1])
            if p.endswith("mem::take") and len(e[2]) == 1:
                lv = self.lvalue(e[2][0], env)
                if lv is None:
                    self.fail("mem::take of an unknown place", e)
                old_ = lv[0]()
                if isinstance(old_, tuple) and old_ and old_[0] == "list":
                    lv[1](("list", []))
                elif old_ == NONE or (isinstance(old_, tuple) and old_ and old_[0] == "some"):
                    lv[1](NONE)
                elif isinstance(old_, int) and not isinstance(old_, bool):
                    lv[1](0)
                elif isinstance(old_, tuple) and old_ and old_[0] in ("str", "fmt"):
                    lv[1](("str", ""))
                else:
                    d_ = self.h.call("Default::default:of", [old_], e)      # the rule's hooks may know the default of their own values
                    if d_ is NotImplemented:
                        self.fail("mem::take of a value whose default is unknown", e)
                    lv[1](d_)
                return old_
            if p.endswith("mem::swap") and len(e[2]) == 2:
                la, lb = self.lvalue(e[2][0], env), self.lvalue(e[2][1], env)
                if la is None or lb is None:
                    self.fail("mem::swap of unknown places", e)
                va, vb = la[0](), lb[0]()
                la[1](vb)
                lb[1](va)
                return UNIT
            if p.endswith("mem::replace") and len(e[2]) == 2:
                new = self.ev(e[2][1], env)
                old = self.set_place(e[2][0], new, env)
                if old is NotImplemented:
                    self.fail("mem::replace of an unknown place", e)
                return old
            args = [self.ev(a, env) for a in e[2]]
            self.cur_env = env
            if p == "Some" and len(args) == 1:
                return ("some", args[0])
            if p == "Ok" and len(args) == 1:
                return ("ok", args[0])
            if p == "Err" and len(args) == 1:
                return ("err", args[0])
            r = self.h.call(p, args, e)
            if r is not NotImplemented:
                return r
            if p.endswith("fmt::format") or p.endswith("must_use") or p.endswith("hint::must_use"):
                return args[0]
            if len(args) == 1 and isinstance(args[0], int) and not isinstance(args[0], bool) and p.split("::")[-1] == "from" and \
                    p.split("::")[-2:-1] and p.split("::")[-2] in ("usize", "u32", "u64", "u16", "u8", "i32", "i64", "Word"):
                return args[0]
            if len(args) == 1 and p.split("::")[-2:] in (["String", "from"], ["ToOwned", "to_owned"], ["ToString", "to_string"], ["Clone", "clone"],
                                                         ["Into", "into"], ["From", "from"], ["str", "to_owned"], ["Cow", "Borrowed"], ["Cow", "Owned"]):
                return args[0]          # conversions that keep the value
            if p.split("::")[-1] in ("from_le_bytes", "from_be_bytes") and len(args) == 1 and isinstance(args[0], tuple) and args[0] and args[0][0] == "list" \
                    and all(isinstance(x, int) and not isinstance(x, bool) for x in args[0][1]):
                bs = list(args[0][1]) if p.endswith("from_le_bytes") else list(reversed(args[0][1]))
                return sum(b_ << (8 * i_) for i_, b_ in enumerate(bs))
            if p.split("::")[-2:] == ["array", "from_fn"] and len(args) == 1:
                n_ = None
                hint = (self.hint.get(id(e)) or "")
                digits = hint.split(";")[-1] if ";" in hint else ""
                digits = "".join(ch for ch in digits if ch.isdigit())
                if not digits:
                    for nm_ in ("WORD_NUM_BYTES",):
                        if nm_ in hint:
                            cv = self.h.resolve_const(nm_)
                            if isinstance(cv, int):
                                digits = str(cv)
                if digits:
                    n_ = int(digits)
                if n_ is None:
                    self.fail("array::from_fn without a known length", e)
                return ("list", [self.apply(args[0], [i_]) for i_ in range(n_)])
            if p.split("::")[-1] == "repeat_with" and len(args) == 1:
                return ("repeat_with", args[0])
            if p.split("::")[-1] == "repeat" and p.split("::")[-2:-1] == ["iter"] and len(args) == 1:
                return ("repeat_with", ("constfn", args[0]))
            if p.split("::")[-2:] == ["iter", "once"] and len(args) == 1:
                return ("list", [args[0]])
            if p.split("::")[-2:] == ["iter", "empty"] and not args:
                return ("list", [])
            if p in ("String::new", "::alloc::string::String::new", "std::string::String::new"):
                return ("fmt", [])
            if p in ("Vec::new", "::alloc::vec::Vec::new", "std::vec::Vec::new", "vec::Vec::new") and not args:
                return ("list", [])
            if p.endswith("Vec::with_capacity") and len(args) == 1:
                return ("list", [])
            if "::" in p and p.split("::")[-1][:1].isupper():
                return ("enum", self.enum_name(p), args)
            if p.split("::")[-2:] == ["convert", "identity"] and len(args) == 1:
                return args[0]
            ts_ = _tuple_struct(p, getattr(self.h, "self_ty", None) or getattr(self, "fn_self_ty", None))
            if ts_ is not None and ts_[1] == len(args):
                return ("struct", ts_[0], {str(i_): a_ for i_, a_ in enumerate(args)})      # a tuple struct of the crate: fields "0", "1", ..
            fn = self.h.resolve_fn(p)
            if fn is not None and self.depth < 6:
                ps = [q[0] for q in fn["sig"]["params"] if q[0] != "self"]
                if len(ps) == len(args):
                    self.depth += 1
                    self.note_ret(fn)
                    try:
                        try:
                            return self.block(fn["body"], Scope(dict(zip(ps, args))))
                        except Return as r_:
                            return r_.v
                    finally:
                        self.depth -= 1
            if args and p.split("::")[-2:-1] and p.split("::")[-2] in ("IntoIterator", "Iterator", "DoubleEndedIterator", "ExactSizeIterator", "Clone", "ToOwned",
                                                                       "ToString", "AsRef", "AsMut", "Borrow", "Extend", "Deref", "DerefMut", "Option", "Result", "Vec"):
                return self.apply(("fnref", p), args)       # `Trait::method(x, ..)`: the method call `x.method(..)`
            self.fail("call", e)
        if k == "mcall":
            return self.mcall(e, env)
        if k == "closure":
            return ("closure", e[1], e[2], env)
        if k == "if":
            c = e[1]
            if c[0] == "let":
                v = self.ev(c[2], env)
                inner = child(env)
                m = self.match_pat(c[1], v, inner)
                if m is None:
                    self.fail("undecided if-let", c)
                if m:
                    wb = self.writeback(c[1], c[2], inner)
                    try:
                        return self.ev(e[2], inner)
                    finally:
                        if wb:
                            wb()
                return self.ev(e[3], env) if e[3] is not None else UNIT
            v = self.ev(c, env)
            if not isinstance(v, bool):
                self.fail("undecided condition", c)
            if v:
                return self.ev(e[2], env)
            return self.ev(e[3], env) if e[3] is not None else UNIT
        if k == "match":
            v = self.ev(e[1], env)
            for pat, guard, body in e[2]:
                outer = env
                arm = child(outer)
                m = self.match_pat(pat, v, arm)
                if m is None:
                    self.fail("undecided match arm %s on %r" % (show(pat)[:40], v))
                if m:
                    if guard is not None:
                        g = self.ev(guard, arm)
                        if not isinstance(g, bool):
                            self.fail("undecided guard", guard)
                        if not g:
                            continue
                    wb = self.writeback(pat, e[1], arm)
                    try:
                        return self.ev(body, arm)
                    finally:
                        if wb:
                            wb()
            self.fail("no match arm applies", e)
        if k == "macro" and e[1] in ("panic", "unreachable", "todo", "unimplemented"):
            raise Panic(e[1])
        if k == "macro" and e[1] == "format_args" and e[3]:
            a = e[3]
            if not (a[0][0] == "lit" and a[0][1] == "str"):
                self.fail("format_args without a literal format string", e)
            vals = [self.ev(x, env) for x in a[1:]]
            return fmtseq(a[0][2], vals)
        if k in ("while", "loop"):
            n = 0
            while True:
                n += 1
                if n > 10000:
                    self.fail("loop does not terminate on the abstract input", e)
                if k == "while":
                    c = e[1]
                    if c[0] == "let":
                        v = self.ev(c[2], env)
                        loop_env = child(env)
                        m = self.match_pat(c[1], v, loop_env)
                        if m is None:
                            self.fail("undecided while-let", c)
                        if not m:
                            break
                    else:
                        cv = self.ev(c, env)
                        if not isinstance(cv, bool):
                            self.fail("undecided loop condition", c)
                        if not cv:
                            break
                label = (e[3] if len(e) > 3 else None) if k == "while" else (e[2] if len(e) > 2 else None)
                try:
                    self.block(e[2] if k == "while" else e[1], loop_env if (k == "while" and e[1][0] == "let") else env)
                except Break as br:
                    if br.label is not None and br.label != label:
                        raise
                    return br.value if br.value is not None else UNIT
                except Continue as co:
                    if co.label is not None and co.label != label:
                        raise
                    continue
            return UNIT
        if k == "break":
            raise Break(e[1] if len(e) > 1 else None, self.ev(e[2], env) if len(e) > 2 and e[2] is not None else None)
        if k == "continue":
            raise Continue(e[1] if len(e) > 1 else None)
        if k == "repeat":
            v = self.ev(e[1], env)
            n_ = self.ev(e[2], env)
            if isinstance(n_, int):
                return ("list", [v] * n_)
            self.fail("array repeat with symbolic length", e)
        if k == "for":
            it = self.ev(e[2], env)
            if isinstance(it, tuple) and it[0] == "chunks":
                it = ("list", it[1])
            if isinstance(it, tuple) and it[0] == "lazy":
                it = ("list", LazyItems(self, it))
            if it == NONE:
                it = ("list", [])           # `for x in &option`: no or one element
            elif isinstance(it, tuple) and it[0] == "some" and len(it) == 2:
                it = ("list", [it[1]])
            if not (isinstance(it, tuple) and it[0] == "list"):
                self.fail("for over a non-list %r" % (it,), e[2])
            for item in it[1]:
                it_env = child(env)
                if self.match_pat(e[1], item, it_env) is not True:
                    self.fail("for pattern", e[1])
                label = e[4] if len(e) > 4 else None
                try:
                    self.block(e[3], it_env)
                except Break as br:
                    if br.label is not None and br.label != label:
                        raise
                    break
                except Continue as co:
                    if co.label is not None and co.label != label:
                        raise
                    continue
            return UNIT
        if k in ("vec", "array"):
            return ("list", [self.ev(x, env) for x in e[1]])
        if k == "range" and e[1] is not None and e[2] is not None:
            lo, hi = self.ev(e[1], env), self.ev(e[2], env)
            if isinstance(lo, int) and isinstance(hi, int):
                return ("list", list(range(lo, hi + 1 if e[3] else hi)), "range")
            self.fail("range with symbolic bounds", e)
        if k == "range":
            lo = self.ev(e[1], env) if e[1] is not None else None
            hi = self.ev(e[2], env) if e[2] is not None else None
            if (lo is None or isinstance(lo, int)) and (hi is None or isinstance(hi, int)):
                return ("rangev", lo, (hi + 1 if (e[3] and hi is not None) else hi))       # half-open, None = unbounded
            self.fail("range with symbolic bounds", e)
        if k == "paren":
            return self.ev(e[1], env)
        if k == "unsafe":
            return self.ev(e[1], env)
        if k == "struct":
            sname = e[1].split("::")[-1]
            if sname == "Self":
                sname = getattr(self.h, "self_ty", None) or getattr(self, "fn_self_ty", None) or sname
                sname = sname.split("<")[0].split("::")[-1]
            fields = {}
            if len(e) > 3 and e[3] is not None:
                base = self.ev(e[3], env)          # struct update syntax: the remaining fields come from the base value
                if not (isinstance(base, tuple) and base and base[0] == "struct"):
                    self.fail("struct update from a value of unknown shape", e[3])
                fields = dict(base[2])
            for fl, x in e[2]:
                fields[fl] = self.ev(x, env)
            sb = getattr(self.h, "struct_built", None)
            if sb is not None:
                fields = sb(sname, fields)
            return ("struct", sname, fields)
        self.fail("unrecognised expression", e)

    def lvalue(self, e, env):
        """(get, set) for a place expression: local, struct field, list element, deref, Option/Result payload via as_mut()/unwrap()"""
        e = unblock(e)
        k = e[0]
        if k == "paren":
            return self.lvalue(e[1], env)
        if k == "unary" and e[1] == "*":
            p_ = path_of(e[2])
            if p_ is not None and p_ in env and isinstance(env[p_], tuple) and env[p_] and env[p_][0] == "cell":
                c_ = env[p_]
                return (lambda: c_[1][c_[2]]), (lambda v: c_[1].__setitem__(c_[2], v))
            return self.lvalue(e[2], env)
        if k == "ref":
            return self.lvalue(e[2], env)
        if k == "path" and e[1] in env:
            name = e[1]
            return (lambda: env[name]), (lambda v: env.__setitem__(name, v))
        if k == "field":
            base = self.ev(e[1], env)
            if isinstance(base, tuple) and base[0] == "struct" and e[2] in base[2]:
                d, f = base[2], e[2]
                return (lambda: d[f]), (lambda v: d.__setitem__(f, v))
            return None
        if k == "mcall" and e[2] in ("as_mut", "as_deref_mut", "by_ref") and not e[3]:
            return self.lvalue(e[1], env)
        if k == "mcall" and e[2] in ("unwrap", "expect"):
            inner = self.lvalue(e[1], env)
            if inner is None:
                return None
            g, st = inner

            def get():
                v = g()
                if v == NONE or (isinstance(v, tuple) and v[0] == "err"):
                    raise Panic("%s on %s" % (e[2], "None" if v == NONE else "Err"))
                if isinstance(v, tuple) and v[0] in ("some", "ok"):
                    return v[1]
                self.fail("payload of an unknown shape", e)
            return get, (lambda v: st((g()[0], v)))
        if k == "index":
            inner = self.lvalue(e[1], env)
            if inner is None or e[2][0] == "range":
                return None
            g, st = inner
            i = self.ev(e[2], env)
            if not isinstance(i, int):
                return None

            def geti():
                items = g()[1]
                if i >= len(items):
                    raise Panic("index %d out of range (len %d)" % (i, len(items)))
                return items[i]

            def seti(v):
                items = list(g()[1])
                if i >= len(items):
                    raise Panic("index %d out of range (len %d)" % (i, len(items)))
                items[i] = v
                st(("list", items))
            return geti, seti
        return None

    def writeback(self, pat, scrut, env):
        """if `pat` mutably borrows the payload of the place `scrut` (ref mut binding, `&mut place`, `place.as_mut()`), return a
        function that stores the binding's final value back into the place"""
        s_ = unblock(scrut)
        while s_[0] == "mcall" and s_[2] in ("unwrap", "expect"):
            s_ = unblock(s_[1])
        by_mut = (s_[0] == "ref" and s_[1]) or (s_[0] == "mcall" and s_[2] in ("as_mut", "iter_mut", "as_deref_mut"))
        inner = pat
        wrap = None
        while inner[0] in ("p_ref", "p_type"):
            inner = inner[2] if inner[0] == "p_ref" else inner[1]
        if inner[0] == "p_ts" and inner[1].split("::")[-1] in ("Some", "Ok", "Err") and len(inner[2]) == 1:
            wrap = inner[1].split("::")[-1].lower()
            inner = inner[2][0]
            while inner[0] in ("p_ref", "p_type"):
                inner = inner[2] if inner[0] == "p_ref" else inner[1]
        if inner[0] != "p_ident" or inner[4] is not None:
            return None
        if not (by_mut or (inner[2] and inner[3])):
            return None
        lv = self.lvalue(scrut, env)
        if lv is None:
            return None
        name = inner[1]
        gt, st = lv
        try:
            orig = gt()
        except (Anchor, Panic, KeyError, IndexError):
            orig = None

        def back():
            if name not in env:
                return None
            try:
                now = gt()
            except (Anchor, Panic, KeyError, IndexError):
                now = orig
            if orig is not None and now is not orig and now != orig:
                return None         # the place was given another value after the borrow's last use (e.g. `place.take()`): nothing to store back
            return st((wrap, env[name]) if wrap else env[name])
        return back

    def arith(self, op, a, b, e):
        if isinstance(a, int) and isinstance(b, int) and not isinstance(a, bool) and not isinstance(b, bool):
            r = {"+": a + b, "-": a - b, "*": a * b, "|": a | b, "&": a & b, "<<": a << b if b < 64 else None, ">>": a >> b if b < 64 else None,
                 "/": a // b if b else None, "%": a % b if b else None}.get(op)
            if r is None:
                if op in ("/", "%") and b == 0:
                    raise Panic("division by zero")
                self.fail("compound operator", e)
            if r < 0:
                raise Panic("arithmetic underflow")
            if op in ("+", "*") and r >= 2 ** 64:
                raise Panic("arithmetic overflow")
            return r
        return ("opassign", op, a, b)

    def set_place(self, place, v, env):
        """assign to a local or to a (nested) field of a local struct value; returns the old value or NotImplemented"""
        place = unblock(place)
        derefs = 0
        while place[0] == "ref" or (place[0] == "unary" and place[1] == "*"):
            derefs += 1 if place[0] == "unary" else 0
            place = place[2]
        p = path_of(place)
        if p is not None and p in env:
            old = env[p]
            if derefs and isinstance(old, tuple) and old and old[0] == "cell":
                prev = old[1][old[2]]
                old[1][old[2]] = v
                return prev
            env[p] = v
            return old
        if place[0] == "field":
            base = self.ev(place[1], env)
            if isinstance(base, tuple) and base[0] == "struct" and place[2] in base[2]:
                old = base[2][place[2]]
                base[2][place[2]] = v
                return old
            if isinstance(base, tuple) and base[0] == "tuple" and place[2].isdigit() and isinstance(base[1], list) and int(place[2]) < len(base[1]):
                old = base[1][int(place[2])]
                base[1][int(place[2])] = v
                return old
        return NotImplemented

    def equal(self, a, b, e):
        """a == b: True / False / None (undecided).  Option / Result / tuple values compare component-wise, so that the rule's own
        notion of equality of the components (hooks.binary: e.g. a value unequal to itself) is respected inside them"""
        r = self.h.binary("==", a, b, e)
        if isinstance(r, bool):
            return r
        if self.shape(a) and self.shape(b):
            if a[0] != b[0]:
                return False
            return True if a == NONE else self.equal(a[1], b[1], e)
        if isinstance(a, tuple) and isinstance(b, tuple) and a and b and a[0] == b[0] == "tuple" and len(a[1]) == len(b[1]):
            res = True
            for x, y in zip(a[1], b[1]):
                r = self.equal(x, y, e)
                if r is False:
                    return False
                if r is None:
                    res = None
            return res
        # a token that stands for an unknown run-time value compared with a literal: the code distinguishes a particular value
        # the abstract input does not fix - undecided (the caller fails closed), never silently "different"
        if (opaque(a) and isinstance(b, (int, str)) and not isinstance(b, bool)) or (opaque(b) and isinstance(a, (int, str)) and not isinstance(a, bool)) \
                or (opaque(a) and isinstance(b, tuple) and b and b[0] == "str") or (opaque(b) and isinstance(a, tuple) and a and a[0] == "str"):
            return None
        if opaque(a) and opaque(b) and a != b and not STRICT_TOKENS_DISTINCT:
            return None        # two different unknown values may still be equal at run time
        if self.concrete(a) and self.concrete(b):
            return a == b
        return None

    def concrete(self, v):
        if isinstance(v, (int, bool)):
            return True
        if isinstance(v, tuple):
            if v and v[0] in ("sym", "cmp"):
                return False
            return all(self.concrete(x) for x in v[1:] if isinstance(x, (tuple, list, int, bool))) and \
                all(self.concrete(y) for x in v[1:] if isinstance(x, list) for y in x)
        if isinstance(v, list):
            return all(self.concrete(x) for x in v)
        return True

    def enum_name(self, p):
        segs = p.split("::")[-2:]
        if segs[0] == "Self":       # `Self::Variant` inside an impl: the type being implemented
            st = getattr(self.h, "self_ty", None) or getattr(self, "fn_self_ty", None)
            if isinstance(st, str) and st:
                segs[0] = st.split("<")[0].split("::")[-1]
        return "::".join(segs)

    def apply(self, clo, args):
        if isinstance(clo, tuple) and clo[0] == "constfn":
            return clo[1]
        if isinstance(clo, tuple) and clo[0] == "thunk":
            return self.apply(clo[1], [])           # the element producer of repeat_with: the index is ignored
        if isinstance(clo, tuple) and clo[0] == "compose":
            return self.apply(clo[2], [self.apply(clo[1], args)])
        if isinstance(clo, tuple) and clo[0] == "enum" and not clo[2]:
            return ("enum", clo[1], list(args))          # a tuple-variant constructor used as a function
        if isinstance(clo, tuple) and clo[0] == "localfn":
            fn = clo[1]
            ps = [q[0] for q in fn["sig"]["params"]]
            if len(ps) != len(args):
                self.fail("call of the local function %s with %d arguments" % (fn["name"], len(args)))
            try:
                return self.block(fn["body"], Scope(dict(zip(ps, args))))
            except Return as r_:
                return r_.v
        if isinstance(clo, tuple) and clo[0] == "fnref":
            r = self.h.call(clo[1], args, None)
            if r is NotImplemented:
                fn = self.h.resolve_fn(clo[1])
                if fn is not None and self.depth < 6:
                    ps = [q[0] for q in fn["sig"]["params"] if q[0] != "self"]
                    if len(ps) == len(args):
                        self.depth += 1
                        self.note_ret(fn)
                        try:
                            try:
                                return self.block(fn["body"], Scope(dict(zip(ps, args))))
                            except Return as r_:
                                return r_.v
                        finally:
                            self.depth -= 1
                if not args:
                    return self.ev(["call", ["path", clo[1]], []], Scope({}))       # `String::new` named as a value and called
                if "::" in clo[1] and args:
                    # `Trait::method` / `Type::method` named as a value: a method call on its first argument
                    sc = Scope({"__recv": args[0]})
                    for i_, a_ in enumerate(args[1:]):
                        sc.bind("__arg%d" % i_, a_)
                    synth = ["mcall", ["path", "__recv"], clo[1].split("::")[-1], [["path", "__arg%d" % i_] for i_ in range(len(args) - 1)], None]
                    return self.mcall(synth, sc)
                self.fail("call of function reference %s" % clo[1])
            return r
        if not (isinstance(clo, tuple) and clo[0] == "closure"):
            self.fail("call of a non-closure %r" % (clo,))
        env = child(clo[3])        # closures see (and may mutate) the environment they were created in; parameters are local
        for p, a in zip(clo[1], args):
            if self.match_pat(p, a, env) is not True:
                self.fail("closure parameter pattern")
        try:
            return self.ev(clo[2], env)
        except Return as r_:
            return r_.v             # `return` / `?` inside a closure leave the closure, not the enclosing function

    def mcall(self, e, env):
        recv = self.ev(e[1], env)
        m = e[2]
        args = [self.ev(a, env) for a in e[3]]
        self.cur_env = env
        r = self.h.mcall(recv, m, args, e, self)
        if r is not NotImplemented:
            return r
        if isinstance(recv, tuple) and recv[0] == "list" and len(recv) == 3 and m == "map" and len(args) == 1:
            return ("lazy", recv[1], args[0])       # adaptor over a range: evaluated on demand, in order
        if isinstance(recv, tuple) and recv[0] == "repeat_with":
            if m == "take" and len(args) == 1 and isinstance(args[0], int):
                if args[0] > 100000:
                    self.fail("take(%d) of an unbounded iterator" % args[0], e)
                return ("lazy", list(range(args[0])), ("thunk", recv[1]))
            self.fail("method on an unbounded iterator", e)
        if isinstance(recv, tuple) and recv[0] == "lazy":
            if m == "collect" and not args:
                tf = (e[4] or "") if len(e) > 4 and isinstance(e[4], str) else ""
                tf = tf.replace(" ", "").lstrip(":<") or (self.hint.get(id(e)) or "").replace(" ", "")
                tf = tf.split("::")[-1] if tf.split("<")[0].count("::") else tf
                out = []
                for x in recv[1]:
                    v = self.apply(recv[2], [x])
                    fallible = v == NONE or (isinstance(v, tuple) and v and v[0] in ("ok", "err", "some"))
                    if fallible and not tf.startswith("Vec"):
                        # collect::<Result<_, _>>() / collect::<Option<_>>() (or an un-annotated collect of fallible items, which
                        # only type-checks into such a container when the surrounding code treats it as one): stop at the first failure
                        kind = v[0] if v != NONE else "some"
                        if v == NONE or v[0] == "err":
                            return v
                        out.append(v[1])
                        wrapk = kind
                        continue
                    out.append(v)
                if out and not tf.startswith("Vec") and "wrapk" in locals():
                    return (wrapk, ("list", out))
                if not out and tf.startswith(("Result", "Option")):
                    return ("ok" if tf.startswith("Result") else "some", ("list", []))
                wrap = "ok" if tf.startswith("Result") else ("some" if tf.startswith("Option") else None)
                return (wrap, ("list", out)) if wrap else ("list", out)
            if m == "map" and len(args) == 1:
                f1, f2 = recv[2], args[0]
                return ("lazy", recv[1], ("compose", f1, f2))
            self.fail("method on a lazy iterator", e)
        if isinstance(recv, tuple) and recv[0] == "list":
            items = recv[1]
            name = path_of(e[1])
            if m == "extend_from_slice":
                m = "extend"
            if m in ("reserve", "reserve_exact", "shrink_to_fit", "shrink_to"):
                return UNIT
            if m in ("push", "extend", "append", "insert", "clear", "pop", "truncate") and isinstance(items, list):
                # Vec values are shared mutable objects (a `&mut` alias sees the change); clone()/to_vec()/collect() copy
                if m == "push" and len(args) == 1:
                    items.append(args[0])
                    return UNIT
                if m == "insert" and len(args) == 2 and isinstance(args[0], int):
                    if args[0] > len(items):
                        raise Panic("insert at %d beyond the length %d" % (args[0], len(items)))
                    items.insert(args[0], args[1])
                    return UNIT
                if m == "clear" and not args:
                    del items[:]
                    return UNIT
                if m == "pop" and not args:
                    return ("some", items.pop()) if items else NONE
                if m == "truncate" and len(args) == 1 and isinstance(args[0], int):
                    del items[args[0]:]
                    return UNIT
                if m in ("extend", "append") and len(args) == 1:
                    a0 = args[0]
                    if a0 == NONE:
                        add = []
                    elif isinstance(a0, tuple) and a0[0] == "some":
                        add = [a0[1]]
                    elif isinstance(a0, tuple) and a0[0] == "list":
                        add = list(a0[1])
                        if m == "append" and isinstance(a0[1], list):
                            del a0[1][:]
                    elif isinstance(a0, tuple) and a0[0] == "lazy":
                        add = list(LazyItems(self, a0))
                    else:
                        self.fail("extend with a non-list", e)
                    items.extend(add)
                    return UNIT
            if m == "for_each" and len(args) == 1:
                for x in items:
                    self.apply(args[0], [x])
                return UNIT
            if m == "collect" and items and all(isinstance(x, tuple) and x and x[0] in ("ok", "err") for x in items):
                errs = [x for x in items if x[0] == "err"]
                return errs[0] if errs else ("ok", ("list", [x[1] for x in items]))
            if m == "step_by" and len(args) == 1 and isinstance(args[0], int) and args[0] > 0:
                return ("list", items[::args[0]])
            if m in ("to_vec", "clone", "to_owned", "collect"):
                return ("list", list(items))
            if m == "iter_mut" and isinstance(items, list) and items and not any(isinstance(x, tuple) and x and x[0] in ("struct", "list", "map", "fmt", "tuple") for x in items):
                # mutable references to scalar elements: cells that read and write the element in place
                return ("list", [("cell", items, i_) for i_ in range(len(items))])
            if m in ("iter", "iter_mut", "into_iter", "as_slice", "as_mut_slice", "cloned", "copied", "as_ref", "as_mut", "peekable", "by_ref", "fuse"):
                return recv
            if m == "zip" and len(args) == 1 and isinstance(args[0], tuple) and args[0] and args[0][0] in ("list", "chunks"):
                other = args[0][1]
                return ("list", [("tuple", [a_, b_]) for a_, b_ in zip(items, other)])
            if m == "peek" and not args:
                return ("some", items[0]) if items else NONE
            if m == "next" and not args:
                if name is not None and name in env:
                    env[name] = ("list", items[1:])
                return ("some", items[0]) if items else NONE
            if m == "map" and len(args) == 1:
                return ("list", [self.apply(args[0], [x]) for x in items])
            if m == "enumerate":
                return ("list", [("tuple", [i, x]) for i, x in enumerate(items)])
            if m in ("flat_map", "flatten"):
                out = []
                for x in items:
                    y = self.apply(args[0], [x]) if m == "flat_map" else x
                    if y == NONE:
                        continue
                    if isinstance(y, tuple) and y[0] == "some":
                        out.append(y[1])
                    elif isinstance(y, tuple) and y[0] == "list":
                        out.extend(y[1])
                    else:
                        self.fail("%s over a non-iterable %r" % (m, y), e)
                return ("list", out)
            if m == "rev" and not args:
                return ("list", list(reversed(items)))
            if m == "try_for_each" and len(args) == 1:
                for x in items:
                    r_ = self.apply(args[0], [x])
                    if r_ == NONE or (isinstance(r_, tuple) and r_ and r_[0] == "err"):
                        return r_
                    if not (isinstance(r_, tuple) and r_ and r_[0] in ("ok", "some")):
                        self.fail("try_for_each over a closure of unknown result shape", e)
                return ("ok", UNIT)
            if m == "try_fold" and len(args) == 2:
                acc = args[0]
                for x in items:
                    r_ = self.apply(args[1], [acc, x])
                    if r_ == NONE or (isinstance(r_, tuple) and r_ and r_[0] == "err"):
                        return r_
                    if not (isinstance(r_, tuple) and r_ and r_[0] in ("ok", "some")):
                        self.fail("try_fold over a closure of unknown result shape", e)
                    acc = r_[1]
                return ("ok", acc)
            if m == "fold" and len(args) == 2:
                acc = args[0]
                for x in items:
                    acc = self.apply(args[1], [acc, x])
                return acc
            if m == "sum" and not args and all(isinstance(x, int) for x in items):
                return sum(items)
            if m == "count" and not args:
                return len(items)
            if m in ("max", "min") and not args and all(isinstance(x, int) and not isinstance(x, bool) for x in items):
                return ("some", max(items) if m == "max" else min(items)) if items else NONE
            if m == "filter_map" and len(args) == 1:
                out_ = []
                for x in items:
                    t = self.apply(args[0], [x])
                    if t == NONE:
                        continue
                    if isinstance(t, tuple) and t and t[0] == "some":
                        out_.append(t[1])
                    else:
                        self.fail("filter_map closure of unknown result shape", e)
                return ("list", out_)
            if m in ("rposition", "rfind") and len(args) == 1:
                for i in range(len(items) - 1, -1, -1):
                    t = self.apply(args[0], [items[i]])
                    if not isinstance(t, bool):
                        self.fail("undecided predicate in %s: %r" % (m, t), e)
                    if t:
                        return ("some", i if m == "rposition" else items[i])
                return NONE
            if m in ("find", "position", "any", "all", "find_map", "filter") and len(args) == 1:
                res = []
                for i, x in enumerate(items):
                    t = self.apply(args[0], [x])
                    if m == "find_map":
                        if t != NONE:
                            return t
                        continue
                    if not isinstance(t, bool):
                        self.fail("undecided predicate in %s: %r" % (m, t), e)
                    if m == "find" and t:
                        return ("some", x)
                    if m == "position" and t:
                        return ("some", i)
                    if m == "any" and t:
                        return True
                    if m == "all" and not t:
                        return False
                    if m == "filter" and t:
                        res.append(x)
                if m == "filter":
                    return ("list", res)
                return NONE if m in ("find", "position", "find_map") else (m == "all")
            if m in ("split", "splitn") and len(args) in (1, 2):
                pred = args[-1]
                limit = args[0] if m == "splitn" else None
                out, cur = [], []
                for i_, x in enumerate(items):
                    if limit is not None and len(out) + 1 >= limit:
                        cur = list(items[i_:]) if not cur else cur + list(items[i_:])
                        break
                    t = self.apply(pred, [x])
                    if not isinstance(t, bool):
                        self.fail("undecided predicate in %s" % m, e)
                    if t:
                        out.append(("list", cur))
                        cur = []
                    else:
                        cur.append(x)
                out.append(("list", cur))
                return ("list", out)
            if m == "chunks" and len(args) == 1 and isinstance(args[0], int):
                if args[0] == 0:
                    raise Panic("chunks(0)")
                return ("list", [("list", items[i:i + args[0]]) for i in range(0, len(items), args[0])])
            if m == "windows" and len(args) == 1 and isinstance(args[0], int):
                if args[0] == 0:
                    raise Panic("windows(0)")
                return ("list", [("list", items[i:i + args[0]]) for i in range(0, max(len(items) - args[0] + 1, 0))])
            if m in ("starts_with", "ends_with") and len(args) == 1 and isinstance(args[0], tuple) and args[0][0] == "list":
                o = list(args[0][1])
                seg = items[:len(o)] if m == "starts_with" else (items[len(items) - len(o):] if len(o) <= len(items) else None)
                if seg is None or len(seg) != len(o):
                    return False
                res = True
                for x, y in zip(seg, o):
                    r_ = self.h.binary("==", x, y, None)
                    if r_ is NotImplemented:
                        if self.concrete(x) and self.concrete(y):
                            r_ = (x == y)
                        else:
                            self.fail("undecided element comparison in %s" % m, e)
                    if not r_:
                        res = False
                        break
                return res
            if m == "take" and len(args) == 1 and isinstance(args[0], int):
                return ("list", items[:args[0]])
            if m == "take_while" and len(args) == 1:
                out = []
                for x in items:
                    t = self.apply(args[0], [x])
                    if not isinstance(t, bool):
                        self.fail("undecided predicate in take_while", e)
                    if not t:
                        break
                    out.append(x)
                return ("list", out)
            if m == "chunks_exact" and len(args) == 1 and isinstance(args[0], int) and args[0] > 0:
                n_ = args[0]
                full = len(items) // n_
                return ("chunks", [("list", items[i * n_:(i + 1) * n_]) for i in range(full)], ("list", items[full * n_:]))
            if m == "try_into":
                return ("ok", recv)

            if m == "join" and len(args) == 1:
                return ("join", items, args[0])
            if m == "len":
                return len(items)
            if m == "contains" and len(args) == 1:
                if self.concrete(args[0]) or True:
                    return args[0] in items
            if m == "is_empty":
                return not items
            if m == "first":
                return ("some", items[0]) if items else NONE
            if m == "last":
                return ("some", items[-1]) if items else NONE
            if m == "get" and isinstance(args[0], int):
                return ("some", items[args[0]]) if args[0] < len(items) else NONE
            if m in ("get", "get_mut") and isinstance(args[0], tuple) and args[0] and (args[0][0] == "rangev" or (args[0][0] == "list" and len(args[0]) == 3)):
                if args[0][0] == "rangev":
                    lo = args[0][1] if args[0][1] is not None else 0
                    hi = args[0][2] if args[0][2] is not None else len(items)
                else:
                    lo, hi = (args[0][1][0], args[0][1][-1] + 1) if args[0][1] else (0, 0)
                return ("some", ("list", items[lo:hi])) if lo <= hi <= len(items) else NONE
            if m in ("first_chunk", "last_chunk") and not args:
                n_ = None
                tf = (e[4] or "") if e is not None and len(e) > 4 and isinstance(e[4], str) else ""
                digits = "".join(ch for ch in tf if ch.isdigit())
                nm_ = tf.replace(":", "").replace("<", "").replace(">", "").replace(" ", "")
                if nm_.isdigit():
                    n_ = int(nm_)
                elif nm_:
                    cv = env.get(nm_) if nm_ in env else self.h.resolve_const(nm_)
                    if isinstance(cv, int):
                        n_ = cv
                if n_ is None:
                    self.fail("%s without a length" % m, e)
                if len(items) < n_:
                    return NONE
                return ("some", ("list", items[:n_] if m == "first_chunk" else items[len(items) - n_:]))
            if m == "as_chunks" and not args:
                tf = (e[4] or "") if e is not None and len(e) > 4 and isinstance(e[4], str) else ""
                digits = "".join(ch for ch in tf if ch.isdigit())
                n_ = int(digits) if digits else getattr(self, "chunk_hint", None)
                if not n_:
                    self.fail("as_chunks without a length", e)
                full = len(items) // n_
                return ("tuple", [("list", [("list", items[i * n_:(i + 1) * n_]) for i in range(full)]), ("list", items[full * n_:])])
            if m == "split_first" and not args:
                return ("some", ("tuple", [items[0], ("list", items[1:])])) if items else NONE
            if m == "split_last" and not args:
                return ("some", ("tuple", [items[-1], ("list", items[:-1])])) if items else NONE
            if m == "skip" and isinstance(args[0], int):
                return ("list", items[args[0]:])
            if m == "chain" and isinstance(args[0], tuple) and args[0][0] == "list":
                return ("list", list(items) + list(args[0][1]))
            if m == "chain" and (args[0] == NONE or (isinstance(args[0], tuple) and args[0][0] == "some")):
                return ("list", list(items) + ([args[0][1]] if args[0] != NONE else []))
        if isinstance(recv, tuple) and recv and recv[0] == "fmt" and isinstance(recv[1], list):
            # a String under construction: the pieces are appended in place
            if m in ("push_str", "push") and len(args) == 1:
                a0 = args[0]
                recv[1].append(a0[1] if isinstance(a0, tuple) and a0 and a0[0] == "str" else ("hole", a0, ""))
                return UNIT
            if m == "write_fmt" and len(args) == 1:
                recv[1].append(("hole", args[0], ""))
                return ("ok", UNIT)
            if m == "write_str" and len(args) == 1:
                a0 = args[0]
                recv[1].append(a0[1] if isinstance(a0, tuple) and a0 and a0[0] == "str" else ("hole", a0, ""))
                return ("ok", UNIT)
            if m == "clear" and not args:
                del recv[1][:]
                return UNIT
        if isinstance(recv, tuple) and recv and recv[0] == "map" and isinstance(recv[1], dict):
            d = recv[1]

            def key(k):
                try:
                    hash(k)
                    return k
                except TypeError:
                    return repr(k)
            if m in ("get", "get_mut") and len(args) == 1:
                return ("some", d[key(args[0])]) if key(args[0]) in d else NONE
            if m == "contains_key" and len(args) == 1:
                return key(args[0]) in d
            if m == "insert" and len(args) == 2:
                old = ("some", d[key(args[0])]) if key(args[0]) in d else NONE
                d[key(args[0])] = args[1]
                return old
            if m == "remove" and len(args) == 1:
                return ("some", d.pop(key(args[0]))) if key(args[0]) in d else NONE
            if m == "extend" and len(args) == 1:
                a0 = args[0]
                pairs = [] if a0 == NONE else [a0[1]] if (isinstance(a0, tuple) and a0[0] == "some") else list(a0[1]) if (isinstance(a0, tuple) and a0[0] == "list") else None
                if pairs is None or not all(isinstance(x, tuple) and x and x[0] == "tuple" and len(x[1]) == 2 for x in pairs):
                    self.fail("extend of a map with something else than key/value pairs", e)
                for x in pairs:
                    d[key(x[1][0])] = x[1][1]
                return UNIT
            if m == "entry" and len(args) == 1:
                return ("enum", "Entry::Occupied" if key(args[0]) in d else "Entry::Vacant", [("entryref", d, key(args[0]), args[0])])
            if m in ("keys", "values", "iter") and not args and len(d) <= 1:
                # iteration order of a hash map is unspecified: only decided for at most one entry
                return ("list", [k_ if m == "keys" else v_ if m == "values" else ("tuple", [k_, v_]) for k_, v_ in d.items()])
            if m == "len" and not args:
                return len(d)
            if m == "is_empty" and not args:
                return not d
            if m == "clear" and not args:
                d.clear()
                return UNIT
        if isinstance(recv, tuple) and recv and recv[0] == "enum" and recv[1] in ("Entry::Occupied", "Entry::Vacant") and len(recv[2]) == 1 \
                and isinstance(recv[2][0], tuple) and recv[2][0][0] == "entryref":
            _t, d_, k_, _k0 = recv[2][0]
            if m in ("or_insert", "or_insert_with", "or_default") and len(args) <= 1:
                if k_ not in d_:
                    if m == "or_default":
                        self.fail("or_default: the default of the value type is unknown", e)
                    d_[k_] = args[0] if m == "or_insert" else self.apply(args[0], [])
                return d_[k_]
            if m == "key" and not args:
                return _k0
        if isinstance(recv, tuple) and recv and recv[0] == "entryref" and len(recv) == 4:
            _t, d_, k_, _k0 = recv
            if m == "insert" and len(args) == 1:
                old_ = d_.get(k_)
                d_[k_] = args[0]
                return args[0] if old_ is None else old_     # VacantEntry::insert -> &mut V; OccupiedEntry::insert -> the old value
            if m in ("get", "get_mut", "into_mut") and not args and k_ in d_:
                return d_[k_]
            if m == "key" and not args:
                return _k0
            if m == "remove" and not args and k_ in d_:
                return d_.pop(k_)
        # Option / Result combinators
        if recv == NONE or (isinstance(recv, tuple) and recv[0] == "some"):
            some = recv[0] == "some"
            if m in ("replace", "insert", "take", "get_or_insert", "get_or_insert_with"):
                lv = self.lvalue(e[1], env)
                if lv is None:
                    self.fail("Option::%s on something that is not a place" % m, e)
                if m == "take":
                    lv[1](NONE)
                    return recv
                if m == "replace":
                    lv[1](("some", args[0]))
                    return recv
                if m == "insert":
                    lv[1](("some", args[0]))
                    return args[0]
                if some:
                    return recv[1]
                nv = args[0] if m == "get_or_insert" else self.apply(args[0], [])
                lv[1](("some", nv))
                return nv
            if m == "is_some":
                return some
            if m == "is_none":
                return not some
            if m in ("as_ref", "as_mut", "cloned", "copied", "as_deref"):
                return recv
            if m == "iter":
                return ("list", [recv[1]] if some else [])
            if m == "map":
                return ("some", self.apply(args[0], [recv[1]])) if some else NONE
            if m == "and_then":
                return self.apply(args[0], [recv[1]]) if some else NONE
            if m == "ok_or":
                return ("ok", recv[1]) if some else ("err", args[0])
            if m == "unwrap_or":
                return recv[1] if some else args[0]
            if m == "unwrap_or_else":
                return recv[1] if some else self.apply(args[0], [])
            if m == "unwrap_or_default" and some:
                return recv[1]
            if m == "unwrap_or_default" and not some:
                # the default of the payload type: read it off the closure of a preceding `.map(closure)` / `.and_then(..)`
                src = unblock(e[1]) if e is not None else None
                shape = None
                if src is not None and src[0] == "mcall" and src[2] in ("map", "and_then") and len(src[3]) == 1:
                    try:
                        fv = self.ev(src[3][0], env)
                        shape = self.apply(fv, [("sym", "_")])
                        if isinstance(shape, tuple) and shape and shape[0] == "some":
                            shape = shape[1]
                    except (Anchor, Panic):
                        shape = None
                if src is not None and src[0] == "mcall" and src[2] in ("get", "get_mut") and len(src[3]) == 1 and unblock(src[3][0])[0] == "range":
                    return ("list", [])         # Option<&[T]>: the empty slice
                if isinstance(shape, tuple) and shape and shape[0] in ("fmt", "str", "join", "text"):
                    return ("str", "")
                if isinstance(shape, tuple) and shape and shape[0] == "list":
                    return ("list", [])
                if isinstance(shape, int) and not isinstance(shape, bool):
                    return 0
                if isinstance(shape, bool):
                    return False
                return ("default",)
            if m == "ok_or_else":
                return ("ok", recv[1]) if some else ("err", self.apply(args[0], []))
            if m == "zip" and len(args) == 1:
                o = args[0]
                if some and isinstance(o, tuple) and o and o[0] == "some":
                    return ("some", ("tuple", [recv[1], o[1]]))
                if not some or o == NONE:
                    return NONE
            if m == "or":
                return recv if some else args[0]
            if m == "or_else":
                return recv if some else self.apply(args[0], [])
            if m == "map_or_else":
                return self.apply(args[1], [recv[1]]) if some else self.apply(args[0], [])
            if m in ("is_some_and", "is_none_or"):
                if not some:
                    return m == "is_none_or"
                return self.apply(args[0], [recv[1]])
            if m in ("into_iter", "iter_mut", "as_slice", "as_mut_slice") and not args:
                return ("list", [recv[1]] if some else [])
            if m == "flatten" and not args:
                return recv[1] if some else NONE
            if m == "transpose" and not args:
                # Option<Result<T, E>> -> Result<Option<T>, E>
                if not some:
                    return ("ok", NONE)
                if isinstance(recv[1], tuple) and recv[1] and recv[1][0] == "ok":
                    return ("ok", ("some", recv[1][1]))
                if isinstance(recv[1], tuple) and recv[1] and recv[1][0] == "err":
                    return recv[1]
                self.fail("transpose of an Option of unknown payload shape", e)
            if m in ("unwrap", "expect"):
                if not some:
                    raise Panic("%s on None" % m)
                return recv[1]
            if m == "map_or":
                return self.apply(args[1], [recv[1]]) if some else args[0]
            if m == "filter":
                if not some:
                    return NONE
                t = self.apply(args[0], [recv[1]])
                if not isinstance(t, bool):
                    self.fail("undecided filter", e)
                return recv if t else NONE
        if isinstance(recv, tuple) and recv[0] in ("ok", "err"):
            ok = recv[0] == "ok"
            if m == "is_ok":
                return ok
            if m == "is_err":
                return not ok
            if m == "ok":
                return ("some", recv[1]) if ok else NONE
            if m in ("unwrap", "expect"):
                if not ok:
                    raise Panic("%s on Err" % m)
                return recv[1]
            if m == "map_err":
                return recv if ok else ("err", self.apply(args[0], [recv[1]]))
            if m == "and_then":
                return self.apply(args[0], [recv[1]]) if ok else recv
            if m == "or_else":
                return recv if ok else self.apply(args[0], [recv[1]])
            if m == "unwrap_or":
                return recv[1] if ok else args[0]
            if m == "unwrap_or_else":
                return recv[1] if ok else self.apply(args[0], [recv[1]])
            if m == "err":
                return NONE if ok else ("some", recv[1])
            if m == "map":
                return ("ok", self.apply(args[0], [recv[1]])) if ok else recv
        if isinstance(recv, tuple) and recv[0] == "chunks":
            if m == "remainder":
                return recv[2]
            if m == "next" and not args:
                nm_ = path_of(e[1]) if e is not None else None
                if nm_ is not None and nm_ in env:
                    env[nm_] = ("chunks", recv[1][1:], recv[2])
                return ("some", recv[1][0]) if recv[1] else NONE
            if m == "map" and len(args) == 1:
                return ("list", [self.apply(args[0], [x]) for x in recv[1]])
            if m in ("iter", "into_iter"):
                return ("list", recv[1])
            if m in ("by_ref", "clone", "fuse"):
                return recv
        if m == "copy_from_slice" and len(args) == 1 and e[1][0] == "index" and path_of(e[1][1]) in env:
            name = path_of(e[1][1])
            base = env[name]
            src = args[0]
            rg = e[1][2]
            if isinstance(base, tuple) and base[0] == "list" and isinstance(src, tuple) and src[0] == "list" and rg[0] == "range":
                lo = self.ev(rg[1], env) if rg[1] is not None else 0
                hi = self.ev(rg[2], env) if rg[2] is not None else len(base[1])
                if rg[3]:
                    hi += 1
                if not (isinstance(lo, int) and isinstance(hi, int)) or hi > len(base[1]) or lo > hi:
                    raise Panic("slice range out of bounds in copy_from_slice")
                if hi - lo != len(src[1]):
                    raise Panic("copy_from_slice length mismatch")
                items = list(base[1])
                items[lo:hi] = src[1]
                env[name] = ("list", items)
                return UNIT
        if isinstance(recv, int) and not isinstance(recv, bool) and m in ("to_le_bytes", "to_be_bytes") and not args:
            # the width is the number of elements the destructuring pattern asks for (4 when unknown: spirv::Word)
            n_ = getattr(self, "bytes_hint", None) or 4
            bs = [(recv >> (8 * i_)) & 0xff for i_ in range(n_)]
            return ("list", bs if m == "to_le_bytes" else list(reversed(bs)))
        if isinstance(recv, int) and not isinstance(recv, bool) and len(args) == 1 and isinstance(args[0], int) and not isinstance(args[0], bool) \
                and m in ("checked_add", "checked_sub", "checked_mul", "checked_div", "saturating_sub", "saturating_add", "saturating_mul", "abs_diff"):
            # the values are word counts / byte offsets (usize on every supported target: 64 bits)
            a_, b_ = recv, args[0]
            if m == "abs_diff":
                return abs(a_ - b_)
            if m == "checked_div":
                return NONE if b_ == 0 else ("some", a_ // b_)
            r_ = a_ + b_ if m.endswith("add") else a_ - b_ if m.endswith("sub") else a_ * b_
            if m.startswith("checked"):
                return ("some", r_) if 0 <= r_ < (1 << 64) else NONE
            return min(max(r_, 0), (1 << 64) - 1)
        if isinstance(recv, int) and not isinstance(recv, bool) and len(args) == 1 and isinstance(args[0], int) and not isinstance(args[0], bool) \
                and m in ("min", "max", "pow", "div_ceil", "next_multiple_of", "wrapping_sub", "wrapping_add"):
            a_, b_ = recv, args[0]
            if m in ("min", "max"):
                return min(a_, b_) if m == "min" else max(a_, b_)
            if m == "pow":
                r_ = a_ ** b_
                if r_ >= (1 << 64):
                    raise Panic("arithmetic overflow in pow")
                return r_
            if m in ("div_ceil", "next_multiple_of"):
                if b_ == 0:
                    raise Panic("division by zero")
                return -(-a_ // b_) * (b_ if m == "next_multiple_of" else 1)
            self.fail("wrapping arithmetic needs the operand width", e)
        if isinstance(recv, tuple) and len(recv) == 2 and recv[0] == "str" and isinstance(recv[1], str):
            raw_ = recv[1].encode("utf-8")
            pat_ = args[0][1] if len(args) == 1 and isinstance(args[0], tuple) and len(args[0]) == 2 and args[0][0] == "str" and isinstance(args[0][1], str) else None
            if m == "len" and not args:
                return len(raw_)
            if m == "is_empty" and not args:
                return not raw_
            if m in ("find", "rfind") and pat_ is not None:
                i_ = raw_.find(pat_.encode("utf-8")) if m == "find" else raw_.rfind(pat_.encode("utf-8"))
                return ("some", i_) if i_ >= 0 else NONE
            if m in ("contains", "starts_with", "ends_with") and pat_ is not None:
                return {"contains": pat_ in recv[1], "starts_with": recv[1].startswith(pat_), "ends_with": recv[1].endswith(pat_)}[m]
            if m in ("as_bytes", "bytes", "into_bytes") and not args:
                return ("list", list(raw_))
            if m == "chars" and not args:
                return ("list", [("str", c_) for c_ in recv[1]])
        if isinstance(recv, bool) and m == "then" and len(args) == 1:
            return ("some", self.apply(args[0], [])) if recv else NONE
        if isinstance(recv, bool) and m == "then_some" and len(args) == 1:
            return ("some", args[0]) if recv else NONE
        if m == "to_string" and not args and not (isinstance(recv, tuple) and recv and recv[0] in ("str", "fmt", "join", "text", "utf8")):
            return ("fmt", [("hole", recv, "")])        # the Display rendering of a value is not the value
        if m in ("clone", "to_owned", "into", "as_str", "as_ref", "borrow", "to_string") and not args:
            return recv
        self.fail("method call", e)

    # ------------------------------------------------------------------ patterns: True / False / None (undecided)
    def match_pat(self, pat, v, env):
        k = pat[0]
        if k == "p_wild" or k == "p_rest":
            return True
        if k == "p_ident":
            if pat[4] is None and pat[1] == "None":
                return v == NONE if self.shape(v) else None
            if pat[4] is None and not pat[2] and not pat[3] and len(pat[1]) > 1 and pat[1].isupper() and pat[1] not in env:
                # SCREAMING_CASE in pattern position is a constant, not a binding
                cv = self.h.path(pat[1])
                if cv is NotImplemented:
                    cv = self.h.resolve_const(pat[1])
                    if isinstance(cv, tuple) and cv and cv[0] == "constinit":
                        cv = self.ev(cv[1], Scope({}))
                if cv is NotImplemented:
                    return None
                r_ = self.h.binary("==", v, cv, None)
                if isinstance(r_, bool):
                    return r_
                if opaque(v) or opaque(cv):
                    return None
                if self.concrete(v) and self.concrete(cv):
                    return v == cv
                return None
            if pat[4] is not None:
                r = self.match_pat(pat[4], v, env)
                if r:
                    bind(env, pat[1], v)
                return r
            bind(env, pat[1], v)
            return True
        if k == "p_ref":
            return self.match_pat(pat[2], v, env)
        if k == "p_type":
            return self.match_pat(pat[1], v, env)
        if k == "p_or":
            und = False
            for c in pat[1]:
                r = self.match_pat(c, v, env)
                if r:
                    return True
                if r is None:
                    und = True
            return None if und else False
        if k == "p_lit":
            lv = int_of(pat) if pat[1][1] == "int" else (("str", pat[1][2]) if pat[1][1] == "str" else (bool(pat[1][2]) if pat[1][1] == "bool" else None))
            if isinstance(v, (int, bool)) or (isinstance(v, tuple) and v[0] == "str"):
                return v == lv
            r = self.h.match_lit(v, lv)
            return None if r is NotImplemented else r
        if k == "p_range":
            if isinstance(v, int):
                lo = int_of(pat[1]) if pat[1] is not None else -(2 ** 63)
                hi = int_of(pat[2]) if pat[2] is not None else 2 ** 64
                return lo <= v <= (hi if pat[3] else hi - 1)
            return None
        if k == "p_tuple":
            if not pat[1] and v == UNIT:
                return True
            if isinstance(v, tuple) and v[0] == "tuple" and len(v[1]) == len(pat[1]):
                res = True
                for p, x in zip(pat[1], v[1]):
                    r = self.match_pat(p, x, env)
                    if r is False:
                        return False
                    if r is None:
                        res = None
                return res
            return None
        if k == "p_slice":
            if not (isinstance(v, tuple) and v[0] == "list"):
                return None
            pats = pat[1]
            rest_i = [i for i, p in enumerate(pats) if p[0] == "p_rest" or (p[0] == "p_ident" and p[4] is not None and p[4][0] == "p_rest")]
            items = v[1]
            if not rest_i:
                if len(items) != len(pats):
                    return False
                pairs = list(zip(pats, items))
            else:
                ri = rest_i[0]
                before, after = pats[:ri], pats[ri + 1:]
                if len(items) < len(before) + len(after):
                    return False
                pairs = list(zip(before, items[:len(before)])) + (list(zip(after, items[len(items) - len(after):])) if after else [])
                if pats[ri][0] == "p_ident":
                    bind(env, pats[ri][1], ("list", items[len(before):len(items) - len(after)]))
            res = True
            for p, x in pairs:
                r = self.match_pat(p, x, env)
                if r is False:
                    return False
                if r is None:
                    res = None
            return res
        if k == "p_struct":
            if isinstance(v, tuple) and v and v[0] == "struct":
                res = True
                for fld, sub in pat[2]:
                    if fld not in v[2]:
                        return None
                    r = self.match_pat(sub, v[2][fld], env)
                    if r is False:
                        return False
                    if r is None:
                        res = None
                return res
            if isinstance(v, tuple) and v and v[0] == "enum" and isinstance(v[2], dict):
                if v[1].split("::")[-1] != pat[1].split("::")[-1]:
                    return False
                res = True
                for fld, sub in pat[2]:
                    r = self.match_pat(sub, v[2].get(fld), env) if fld in v[2] else None
                    if r is False:
                        return False
                    if r is None:
                        res = None
                return res
            r = self.h.match_ts(v, pat, env, self)
            if r is NotImplemented:
                # an abstract value whose fields the hooks know: destructure through the field hook
                res = True
                for fld, sub in pat[2]:
                    fv = self.h.field(v, fld, None)
                    if fv is NotImplemented:
                        return None
                    r2 = self.match_pat(sub, fv, env)
                    if r2 is False:
                        return False
                    if r2 is None:
                        res = None
                return res
            return r
        if k == "p_path":
            name = "::".join(pat[1].split("::")[-2:])
            if pat[1].split("::")[-1] == "None":
                return v == NONE if self.shape(v) else None
            r = self.h.match_path(v, pat[1])
            if r is not NotImplemented:
                return r
            if not pat[1].split("::")[-1][:1].islower() and pat[1].split("::")[-1].isupper():
                # a constant used as a pattern: compare with its value
                cv = self.h.path(pat[1])
                if cv is not NotImplemented and self.concrete(cv) and self.concrete(v):
                    return v == cv
            if isinstance(v, tuple) and v[0] == "enum":
                return v[1].split("::")[-1] == name.split("::")[-1] and not v[2]
            return None
        if k == "p_ts":
            ctor = pat[1].split("::")[-1]
            if ctor in ("Some", "Ok", "Err"):
                tag = ctor.lower()
                if not self.shape(v):
                    return None
                if v[0] != tag:
                    return False
                return self.match_pat(pat[2][0], v[1], env) if len(pat[2]) == 1 else None
            if isinstance(v, tuple) and v[0] == "enum":
                if v[1].split("::")[-1] != ctor:
                    return False
                subs = [p for p in pat[2]]
                if any(p[0] == "p_rest" for p in subs):
                    return True
                if len(subs) != len(v[2]):
                    return None
                res = True
                for p, x in zip(subs, v[2]):
                    r = self.match_pat(p, x, env)
                    if r is False:
                        return False
                    if r is None:
                        res = None
                return res
            if isinstance(v, tuple) and v and v[0] == "struct" and v[1] == ctor and all(str(i_) in v[2] for i_ in range(len(pat[2]))) \
                    and len(pat[2]) == len(v[2]) and not any(p[0] == "p_rest" for p in pat[2]):
                res = True          # a tuple struct destructured
                for i_, p in enumerate(pat[2]):
                    r = self.match_pat(p, v[2][str(i_)], env)
                    if r is False:
                        return False
                    if r is None:
                        res = None
                return res
            r = self.h.match_ts(v, pat, env, self)
            return None if r is NotImplemented else r
        return None

    def shape(self, v):
        return v == NONE or (isinstance(v, tuple) and v and v[0] in ("some", "ok", "err", "none"))


class LazyItems:
    """items of a lazy adaptor, produced one at a time (so a `?`/break in the loop body stops the evaluation of the rest)"""

    def __init__(self, ev, lazy):
        self.ev, self.lazy = ev, lazy

    def __iter__(self):
        for x in self.lazy[1]:
            yield self.ev.apply(self.lazy[2], [x])


def fmtseq(fmt, vals):
    """format string with explicit positional holes -> ("fmt", [text | ("hole", value, spec)])"""
    import re
    out = []
    pos = 0
    auto = 0
    for m in re.finditer(r"\{\{|\}\}|\{(\d*)(:[^}]*)?\}", fmt):
        if m.start() > pos:
            out.append(fmt[pos:m.start()])
        tok = m.group(0)
        if tok == "{{":
            out.append("{")
        elif tok == "}}":
            out.append("}")
        else:
            idx = int(m.group(1)) if m.group(1) else auto
            if not m.group(1):
                auto += 1
            if idx >= len(vals):
                raise Anchor("format string refers to a missing argument")
            out.append(("hole", vals[idx], m.group(2) or ""))
        pos = m.end()
    if pos < len(fmt):
        out.append(fmt[pos:])
    return ("fmt", out)


def flatten_fmt(v):
    """nested fmt values -> flat list of text pieces and leaf values, adjacent text merged"""
    out = []

    def go(x):
        if isinstance(x, tuple) and x and x[0] == "str":
            out.append(x[1])
            return
        if isinstance(x, tuple) and x and x[0] == "join" and isinstance(x[2], tuple) and x[2][0] == "str":
            for i, it in enumerate(x[1]):
                if i:
                    out.append(x[2][1])
                go(it)
            return
        if isinstance(x, tuple) and x and x[0] == "fmt":
            for p in x[1]:
                if isinstance(p, str):
                    out.append(p)
                else:
                    if isinstance(p[1], tuple) and p[1] and p[1][0] in ("fmt", "join", "str") and p[2] == "":
                        go(p[1])
                    else:
                        out.append((p[1], p[2]))
        else:
            out.append((x, ""))
    go(v)
    merged = []
    for p in out:
        if isinstance(p, str) and merged and isinstance(merged[-1], str):
            merged[-1] += p
        elif p != "":
            merged.append(p)
    return merged


def _const_items(ctx):
    out = {}
    for cr in (ctx.rspirv, ctx.spirv, ctx.dis):
        for m in cr.modules():
            for it in cr.items(m):
                if it.get("kind") in ("const", "static") and it.get("init") is not None and it.get("name") not in (None, "_"):
                    out.setdefault(it["name"], []).append(it)
    return out


def _type_alias(name):
    """target of a `type Name = ..;` alias of the analysed crates when the name has one target (None: unknown)"""
    ctx = DEFAULT_CTX
    if ctx is None:
        return None

    def build():
        out = {}
        for cr in (ctx.rspirv, ctx.spirv, ctx.dis):
            for m in cr.modules():
                for it in cr.items(m, "type"):
                    if it.get("name") and it.get("ty"):
                        out.setdefault(it["name"], set()).add(str(it["ty"]).replace(" ", ""))
        return out
    t = ctx.memo("type_aliases", build).get(name.split("::")[-1])
    return next(iter(t)) if t and len(t) == 1 else None


def _tuple_struct(p, self_ty=None):
    """(name, number of fields) if the path names a tuple struct of the analysed crates"""
    ctx = DEFAULT_CTX
    if ctx is None or not p:
        return None

    def build():
        out = {}
        for cr in (ctx.rspirv, ctx.dis):
            for m in cr.modules():
                for it in cr.items(m, "struct"):
                    if it.get("named") is False and it.get("fields"):
                        out.setdefault(it["name"], set()).add(len(it["fields"]))
        return out
    idx = ctx.memo("tuple_structs", build)
    name = p.split("::")[-1]
    if name == "Self" and isinstance(self_ty, str):
        name = self_ty.split("<")[0].split("::")[-1]
    ns = idx.get(name)
    return (name, next(iter(ns))) if ns and len(ns) == 1 else None


def _free_fns(ctx):
    out = {}
    for m in ctx.rspirv.modules():
        for it in ctx.rspirv.items(m, "fn"):
            out.setdefault(it["name"], []).append(it)
    return out


class Chain:
    """the rule's own hooks first; what they do not implement goes to the fallback"""

    def __init__(self, first, second):
        self.__dict__["first"] = first
        self.__dict__["second"] = second

    def __getattr__(self, name):
        f = self.__dict__["first"]
        if hasattr(f, name):
            return getattr(f, name)
        return getattr(self.__dict__["second"], name)

    def __setattr__(self, name, value):
        setattr(self.__dict__["first"], name, value)

    def _both(self, name, *a):
        r = getattr(self.first, name)(*a)
        if r is NotImplemented:
            r = getattr(self.second, name)(*a)
        return r

    def path(self, p):
        return self._both("path", p)

    def field(self, base, name, e):
        return self._both("field", base, name, e)

    def index(self, base, idx, e):
        return self._both("index", base, idx, e)

    def binary(self, op, a, b, e):
        return self._both("binary", op, a, b, e)

    def call(self, p, args, e):
        return self._both("call", p, args, e)

    def mcall(self, recv, m, args, e, ev):
        return self._both("mcall", recv, m, args, e, ev)

    def assign(self, lhs, v, env, ev):
        return self._both("assign", lhs, v, env, ev)

    def assignop(self, lhs, op, v, env, ev):
        return self._both("assignop", lhs, op, v, env, ev)

    def cast(self, v, ty, e):
        return self._both("cast", v, ty, e)

    def match_lit(self, v, lit):
        return self._both("match_lit", v, lit)

    def match_path(self, v, path):
        return self._both("match_path", v, path)

    def match_ts(self, v, pat, env, ev):
        return self._both("match_ts", v, pat, env, ev)

    def resolve_const(self, path):
        return self._both("resolve_const", path)

    def type_of(self, v):
        return self._both("type_of", v)

    def resolve_fn(self, path):
        r = self.first.resolve_fn(path)
        return r if r is not None else self.second.resolve_fn(path)

    def struct_built(self, name, fields):
        sb = getattr(self.first, "struct_built", None)
        return sb(name, fields) if sb is not None else self.second.struct_built(name, fields)


class Hooks:
    """default hooks: nothing domain-specific"""

    def path(self, p):
        return NotImplemented

    def field(self, base, name, e):
        return NotImplemented

    def index(self, base, idx, e):
        return NotImplemented

    def binary(self, op, a, b, e):
        return NotImplemented

    def call(self, p, args, e):
        return NotImplemented

    def mcall(self, recv, m, args, e, ev):
        return NotImplemented

    def assign(self, lhs, v, env, ev):
        return NotImplemented

    def assignop(self, lhs, op, v, env, ev):
        return NotImplemented

    def cast(self, v, ty, e):
        return NotImplemented

    def type_of(self, v):
        """the Rust type of an abstract value of the rule, when the rule knows it (NotImplemented: unknown)"""
        return NotImplemented

    def resolve_const(self, path):
        """value of a constant item of the analysed crates named by `path` (NotImplemented: unknown)"""
        ctx = getattr(self, "ctx", None) or DEFAULT_CTX
        if ctx is None:
            return NotImplemented
        idx = ctx.memo("const_items", lambda: _const_items(ctx))
        c = idx.get(path.split("::")[-1], [])
        if not c:
            return NotImplemented
        vals = {int_of(x["init"]) for x in c}
        if len(vals) == 1 and None not in vals:
            return vals.pop()
        if len(c) == 1:
            return ("constinit", c[0]["init"])
        return NotImplemented

    def resolve_fn(self, path):
        """a free function of the analysed crate to evaluate in place (None: unknown)"""
        ctx = getattr(self, "ctx", None) or DEFAULT_CTX
        if ctx is None:
            return None
        name = path.split("::")[-1]
        idx = ctx.memo("free_fns", lambda: _free_fns(ctx))
        c = idx.get(name, [])
        return c[0] if len(c) == 1 else None

    def match_lit(self, v, lit):
        return NotImplemented

    def match_path(self, v, path):
        return NotImplemented

    def match_ts(self, v, pat, env, ev):
        return NotImplemented
